# Positive fixture for R3.2 (a zero-count rule must keep matching something).
def get_tail(view, lines):
    try:
        end = lines[-1][2]
    except IndexError:
        end = -1
    return view[0:end]

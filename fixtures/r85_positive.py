# Positive fixture for R8.5: per-user state kept in a class-level container
# (shared by every instance, i.e. by every user).  Parsed only.


class MailboxSet:

    _cache: dict = {}

    def __init__(self, layout):
        self._layout = layout

    def get_mailbox(self, name):
        if name in self._cache:
            return self._cache[name]
        mbx = object()
        self._cache[name] = mbx
        return mbx

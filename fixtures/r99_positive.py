# Positive fixture for R9.9: a mutable default argument that is stored and
# later mutated in place (one object shared by every call).  Parsed only.


class Identity:

    def __init__(self, name, login, token_id=None, roles=set()):
        self.name = name
        self._roles = roles

    def grant(self, roles):
        self._roles |= roles

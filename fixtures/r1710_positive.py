# Positive fixture for R17.10: functools caches on instance methods keep the
# instance alive for the life of the process.  Parsed only.
from functools import cache, lru_cache


class State:

    @lru_cache(maxsize=1024)
    def lookup(self, kind):
        return getattr(self, 'do_' + kind, None)

    @cache
    def other(self):
        return 1

    @classmethod
    @lru_cache
    def fine(cls, kind):
        return kind

    @staticmethod
    @cache
    def also_fine(kind):
        return kind

# Positive fixture for R18.8 (the pre-fix shape of
# FetchAttribute._parse_section): the wire spelling of a parsed string object
# is stored as its meaning.  Never imported; parsed by the checker only.


class Fixture:

    @classmethod
    def _parse_section(cls, buf, params):
        params = params.copy(expected=[AString])  # noqa
        header_list_p, buf = List.parse(buf, params)  # noqa
        header_list = frozenset([bytes(hdr) for hdr in header_list_p.value])
        return cls.Section([], b'HEADER.FIELDS', header_list), buf

    @classmethod
    def parse(cls, buf, params):
        name, buf = AString.parse(buf, params)  # noqa
        return cls(bytes(name)), buf

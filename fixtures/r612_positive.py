# Positive fixture for R6.12 (the pre-fix ListTree._get_pattern): one lazy
# unbounded quantifier per client wildcard.  Parsed by the checker only.
import re


class Fixture:

    _wildcards = re.compile(r'([\*\%])')

    def _get_pattern(self, query):
        pattern_parts = []
        for part in self._wildcards.split(query):
            if part == '*':
                pattern_parts.append('.*?')
            elif part == '%':
                pattern_parts.append(self._no_delimiter)
            else:
                pattern_parts.append(re.escape(part))
        pattern = '^' + ''.join(pattern_parts) + r'\Z'
        return re.compile(pattern, re.DOTALL)

# Positive fixture for R6.16: `.address` of an email SingleAddressHeader is
# read without a ValueError handler (it raises unless the header holds
# exactly one address).  Parsed only.
from email.headerregistry import SingleAddressHeader


def first(headers):
    out = []
    for header in headers:
        if isinstance(header, SingleAddressHeader):
            out.append(header.address)
        else:
            out.extend(header.addresses)
    return out


def guarded(header: SingleAddressHeader):
    try:
        return header.address
    except ValueError:
        return None

#!/venv/bin/python
"""Prompt for an independent sub-agent that writes BEHAVIOUR-PRESERVING
refactorings of the code a property lives in (to measure false alarms of the
checks).  Only the property text and the worktree path are given.

usage: tools/neutralprompt.py <Cxx> <worktree dir> > prompt.txt"""
import json
import sys

TEMPLATE = '''You are helping evaluate a verification effort for the open-source project icgood/pymap (an asyncio IMAP4rev1 server in pure Python). You work ONLY inside your own scratch git worktree of the repository at {wt} (a checkout of the current tree). Do NOT read or write anything under /verif or /repo, and do not look at other directories next to your worktree.

Below is one semantic PROPERTY that pymap satisfies. Your job is the OPPOSITE of breaking it: write THREE different BEHAVIOUR-PRESERVING refactorings (each as its own patch) of the code that implements this property (the anchor files and mechanisms listed below). Each must be the kind of clean-up a maintainer could plausibly commit, and must keep the behaviour relevant to the property EXACTLY the same for every input, interleaving and failure (you must be able to argue that in two or three sentences). Examples of the kind of change wanted: rename locals or private helpers; extract a helper method or inline one; turn an if/else into an early return or the reverse; reorder two statements that are independent; replace a comprehension by a loop or the reverse; use an equivalent API or idiom (`x is None` / `x is not None` flips, `a if c else b`, `dict.get` vs an `in` test, `contextlib.AsyncExitStack` vs nested `async with`, `try/finally` vs a context manager, `functools.reduce` vs a loop, splitting a long condition into named booleans); move a constant into a class attribute; add logging or assertions that cannot fail; add type annotations; change a message text. Touch the code that matters for the property (guards, lock scopes, ordering of effects, tables, parsers/serialisers named in the anchors), not unrelated files. Keep each patch between roughly 5 and 40 changed lines, touching only files under pymap/. Make the three patches different in kind and, if possible, in location.

Every patch must keep the project's existing test suite passing completely:

    cd {wt} && /venv/bin/python -m pytest -q -p no:cacheprovider --timeout=900 --continue-on-collection-errors
    (expected: 300 passed, 4 errors — the 4 collection errors for test/server/test_admin_*.py are pre-existing and expected)

Do NOT weaken anything: no removed checks, no widened conditions, no changed orders of effects that another session, a cancellation or a crash could observe. If you are not sure a change is neutral, choose another one.

Deliverables — create the directory {wt}/_neutral/ and write, for N = 1, 2, 3:
  {wt}/_neutral/N/patch.diff   (output of `git diff -- pymap` for refactoring N, applicable with `git apply` at the worktree root)
  {wt}/_neutral/N/notes.md     (3-6 lines: what was changed, and the argument why behaviour w.r.t. the property is identical; plus the pass/fail counts of the suite with the change)
Workflow for each: edit files, run the full suite (must be 300 passed), save the diff, `git checkout -- pymap`. Leave the worktree clean (only the untracked _neutral/ directory) when you finish.

Finish with a short plain-text summary of the three refactorings.

PROPERTY {id}: {title}

STATEMENT: {statement}

QUANTIFIER: {quant}

WHERE IT LIVES (anchors): files {files}
MECHANISMS: {mech}
'''


def main() -> int:
    pid, wt = sys.argv[1:3]
    for line in open('/verif/properties.jsonl'):
        d = json.loads(line)
        if d['id'] == pid:
            a = d.get('anchors', {})
            sys.stdout.write(TEMPLATE.format(
                wt=wt, id=pid, title=d['title'], statement=d['statement'],
                quant=d['quantifier']['text'],
                files=', '.join(a.get('files', [])),
                mech='; '.join(f"{m['name']} ({m['where']})"
                               for m in a.get('mechanism', []))))
            return 0
    return 1


if __name__ == '__main__':
    sys.exit(main())

#!/venv/bin/python
"""Confirm an independently written BEHAVIOUR-PRESERVING refactoring and file
it under /verif/neutral/<id>/.

usage: tools/neutralimport.py <property> <source dir with patch.diff notes.md> <id>

Confirmation in a scratch git worktree of /repo's HEAD (removed afterwards):
the patch applies, the package imports, the unedited suite passes (300)."""
import json
import os
import shutil
import subprocess
import sys
import tempfile

VERIF = os.path.dirname(os.path.dirname(os.path.abspath(__file__)))
PY = '/venv/bin/python'
SUITE = [PY, '-m', 'pytest', '-q', '-p', 'no:cacheprovider', '--timeout=900',
         '--continue-on-collection-errors']


def sh(cmd, cwd, timeout=1200):
    return subprocess.run(cmd, cwd=cwd, capture_output=True, text=True,
                          timeout=timeout)


def main() -> int:
    prop, srcdir, nid = sys.argv[1:4]
    patch = os.path.join(srcdir, 'patch.diff')
    notes = os.path.join(srcdir, 'notes.md')
    wt = tempfile.mkdtemp(prefix='pymap-neutral-', dir='/tmp')
    os.rmdir(wt)
    try:
        r = sh(['git', '-C', '/repo', 'worktree', 'add', '-q', '--detach',
                wt, 'HEAD'], '/repo')
        if r.returncode:
            print(f'{nid}: REJECTED worktree: {r.stderr[-200:]}')
            return 1
        r = sh(['git', 'apply', os.path.abspath(patch)], wt)
        if r.returncode:
            print(f'{nid}: REJECTED patch does not apply: {r.stderr[-200:]}')
            return 1
        r = sh(SUITE, wt)
        tail = (r.stdout.strip().splitlines() or [''])[-1]
        if '300 passed' not in tail:
            print(f'{nid}: REJECTED suite: {tail}')
            return 1
        head = sh(['git', '-C', '/repo', 'rev-parse', '--short', 'HEAD'],
                  '/repo').stdout.strip()
        out = os.path.join(VERIF, 'neutral', nid)
        os.makedirs(out, exist_ok=True)
        shutil.copy(patch, os.path.join(out, 'patch.diff'))
        if os.path.exists(notes):
            shutil.copy(notes, os.path.join(out, 'notes.md'))
        json.dump({'property': prop, 'id': nid,
                   'written_by': 'independent sub-agent given only the '
                                 'property text and a scratch worktree; asked '
                                 'for a behaviour-preserving refactoring',
                   'confirmed_against_repo_head': head,
                   'what_was_run': {'existing_suite_with_patch': tail}},
                  open(os.path.join(out, 'meta.json'), 'w'), indent=1)
        print(f'{nid}: KEPT ({tail})')
        return 0
    finally:
        sh(['git', '-C', '/repo', 'worktree', 'remove', '--force', wt],
           '/repo')
        shutil.rmtree(wt, ignore_errors=True)


if __name__ == '__main__':
    sys.exit(main())

#!/venv/bin/python
"""Write the prompt handed to an independent sub-agent that seeds breaking
changes for one property: ONLY the property text and the path of its own
scratch worktree (nothing from /verif).

usage: tools/seedprompt.py <Cxx> <worktree dir> > prompt.txt"""
import json
import sys

TEMPLATE = '''You are helping evaluate a verification effort for the open-source project icgood/pymap (an asyncio IMAP4rev1 server in pure Python). You work ONLY inside your own scratch git worktree of the repository at {wt} (a checkout of the current tree). Do NOT read or write anything under /verif or /repo, and do not look at other directories next to your worktree.

Below is one semantic PROPERTY that pymap is supposed to satisfy. Your job: write TWO different, realistic source changes to pymap (each as its own patch) that BREAK this property, while (a) the code still imports/compiles, and (b) the project's existing test suite still passes completely:

    cd {wt} && /venv/bin/python -m pytest -q -p no:cacheprovider --timeout=900 --continue-on-collection-errors
    (expected: 300 passed, 4 errors — the 4 collection errors for test/server/test_admin_*.py are pre-existing and expected)

Each change must be the kind of bug a developer could plausibly introduce (a refactor gone slightly wrong, a dropped guard, a reordered pair of statements, an off-by-one, a wrong variable, a missing await/lock, swapped arguments, a widened condition, etc.) — NOT a blatant sabotage, and NOT something ordinary use would expose at once. It should need something specific to manifest: a particular interleaving of two sessions, a fault/cancellation at a particular point, a multi-step sequence of commands, an unusual input, a particular configuration (e.g. maildir backend, read-only selection), or two cooperating sites that each look fine alone. Keep each patch small (a few lines, at most ~25 changed lines), touching only files under pymap/.

For each change also write a DEMONSTRATION: a small pytest file (or plain python script) that FAILS on the tree with your change applied and PASSES on the unchanged tree. Demonstrations may use the project's own test helpers: put `import sys; sys.path.insert(0, '{wt}/test')` at the top and then `from server.base import TestBase` (see test/server/*.py for the mock-transport style; run such a file with `cd {wt} && /venv/bin/python -m pytest -c pyproject.toml -p no:cacheprovider --timeout=60 <file>`), or drive classes of pymap directly with asyncio. The maildir backend can be exercised directly on a temporary directory (see pymap/backend/maildir/).

Deliverables — create the directory {wt}/_seed/ and write:
  {wt}/_seed/1/patch.diff     (output of `git diff` for change 1, applicable with `git apply` at the worktree root)
  {wt}/_seed/1/demo.py        (the demonstration for change 1; say in a top comment how to run it)
  {wt}/_seed/1/notes.md       (3-8 lines: what the change is, why it breaks the property, what it needs in order to manifest, and confirmation that you ran the existing suite with the change: the pass/fail counts)
  and the same under {wt}/_seed/2/ for change 2.
Workflow for each change: edit files, run the full existing suite (must be 300 passed), run your demo (must fail), save `git diff -- pymap > _seed/N/patch.diff`, then `git checkout -- pymap` to restore the tree and run the demo again (must pass). Leave the worktree clean (only the untracked _seed/ directory) when you finish. Prefer two changes that attack DIFFERENT mechanisms of the property. If after honest effort you can only produce one, deliver one and say so.

Finish with a short plain-text summary of the two changes (file, function, what was changed, what it needs to manifest).

PROPERTY {id}: {title}

STATEMENT: {statement}

QUANTIFIER: {quant}

WHY THE EXISTING TESTS CANNOT SETTLE IT: {why}

WHERE IT LIVES (anchors): files {files}
MECHANISMS: {mech}
'''


def main() -> int:
    pid, wt = sys.argv[1:3]
    for line in open('/verif/properties.jsonl'):
        d = json.loads(line)
        if d['id'] == pid:
            a = d.get('anchors', {})
            sys.stdout.write(TEMPLATE.format(
                wt=wt, id=pid, title=d['title'], statement=d['statement'],
                quant=d['quantifier']['text'], why=d['why_tests_cant'],
                files=', '.join(a.get('files', [])),
                mech='; '.join(f"{m['name']} ({m['where']})"
                               for m in a.get('mechanism', []))))
            return 0
    return 1


if __name__ == '__main__':
    sys.exit(main())

#!/venv/bin/python
"""Record the names the rules were audited against (private helpers, locals
per function, constants) from the CURRENT /repo tree into
sa/baseline_names.json.  sa/normalize.py expands every name that is NOT in
this file before the rules run.  Re-run only after re-auditing the rules
against a new upstream shape (and then run ./check all, ./check selftest,
tools/seedcheck.py --all, tools/neutralcheck.py)."""
import ast
import json
import os
import subprocess
import sys

VERIF = os.path.dirname(os.path.dirname(os.path.abspath(__file__)))
sys.path.insert(0, VERIF)
from sa.normalize import collect_names  # noqa: E402

ROOT = os.environ.get('PYMAP_ROOT', '/repo')


def main() -> None:
    trees = {}
    base = os.path.join(ROOT, 'pymap')
    for dp, dn, fns in os.walk(base):
        dn[:] = sorted(d for d in dn if d != '__pycache__')
        for fn in sorted(fns):
            if fn.endswith('.py'):
                p = os.path.join(dp, fn)
                trees[os.path.relpath(p, ROOT)] = ast.parse(open(p).read())
    data = collect_names(trees)
    data['generated_from'] = subprocess.run(
        ['git', '-C', ROOT, 'rev-parse', '--short', 'HEAD'],
        capture_output=True, text=True).stdout.strip()
    with open(os.path.join(VERIF, 'sa', 'baseline_names.json'), 'w') as fh:
        json.dump(data, fh, indent=0, sort_keys=True)
    print(f"{len(data['helpers'])} helpers, {len(data['locals'])} functions, "
          f"{len(data['consts'])} constants at {data['generated_from']}")


if __name__ == '__main__':
    main()

#!/venv/bin/python
"""Run all twenty quick checks against every confirmed behaviour-preserving
refactoring under /verif/neutral/: each must leave every check at exit 0.
Anything else is a false alarm of the named rule (exit 1) or a shape the rule
cannot decide (exit 2).

usage: tools/neutralcheck.py [<id> ...]"""
import json
import os
import shutil
import subprocess
import sys
import tempfile
from concurrent.futures import ThreadPoolExecutor

VERIF = os.path.dirname(os.path.dirname(os.path.abspath(__file__)))
REPO = os.environ.get('PYMAP_ROOT', '/repo')
ALLP = ['C%02d' % i for i in range(1, 21)]


def run(nid: str) -> dict:
    patch = os.path.join(VERIF, 'neutral', nid, 'patch.diff')
    tmp = tempfile.mkdtemp(prefix='pymap-neutral-')
    try:
        shutil.copytree(os.path.join(REPO, 'pymap'),
                        os.path.join(tmp, 'pymap'),
                        ignore=shutil.ignore_patterns('__pycache__'))
        pr = subprocess.run(['patch', '-p1', '-s', '-i', patch], cwd=tmp,
                            capture_output=True, text=True)
        if pr.returncode != 0:
            return {'id': nid, 'error': 'patch does not apply'}
        env = dict(os.environ, PYMAP_ROOT=tmp, SA_NO_EVIDENCE='1',
                   SA_NO_CACHE_WRITE='1', VERIF_TIER='quick')

        def one(p):
            r = subprocess.run([os.path.join(VERIF, 'check'), p], cwd=VERIF,
                               env=env, capture_output=True, text=True,
                               timeout=900)
            lines = [x.strip()[:260] for x in r.stdout.splitlines()
                     if x.startswith('  ') or x.startswith('ANALYSIS-ERROR')]
            return p, r.returncode, lines
        with ThreadPoolExecutor(8) as ex:
            res = list(ex.map(one, ALLP))
        return {'id': nid,
                'alarms': {p: l for p, rc, l in res if rc == 1},
                'undecided': {p: l for p, rc, l in res if rc not in (0, 1)}}
    finally:
        shutil.rmtree(tmp, ignore_errors=True)


def main() -> int:
    root = os.path.join(VERIF, 'neutral')
    ids = sys.argv[1:] or sorted(d for d in os.listdir(root)
                                 if os.path.exists(os.path.join(
                                     root, d, 'patch.diff')))
    with ThreadPoolExecutor(3) as ex:
        res = list(ex.map(run, ids))
    clean = 0
    for r in res:
        if r.get('error'):
            print(f"{r['id']:10} {r['error']}")
        elif not r['alarms'] and not r['undecided']:
            clean += 1
            print(f"{r['id']:10} silent")
        else:
            print(f"{r['id']:10} ALARM {sorted(r['alarms'])} "
                  f"UNDECIDED {sorted(r['undecided'])}")
            for p, ls in list(r['alarms'].items()) + \
                    list(r['undecided'].items()):
                for x in ls[:3]:
                    print(f'           {p}: {x}')
    print(f'silent on {clean}/{len(res)} behaviour-preserving refactorings')
    return 0


if __name__ == '__main__':
    sys.exit(main())

#!/venv/bin/python
"""Run every quick check against a seeded change without touching /repo:
copy /repo's working tree (pymap/ only) to a scratch directory, apply the
patch there, run `./check Cxx` with PYMAP_ROOT pointing at the copy, report
which checks fire and which rules, and remove the copy.

usage: tools/seedcheck.py <patch.diff> [Cxx ...]      (default: all twenty)
       tools/seedcheck.py --all                       (every /verif/seeded/*)
"""
import json
import os
import shutil
import subprocess
import sys
import tempfile
from concurrent.futures import ThreadPoolExecutor

VERIF = os.path.dirname(os.path.dirname(os.path.abspath(__file__)))
REPO = os.environ.get('PYMAP_ROOT', '/repo')


def run(patch: str, props: list[str]) -> dict:
    tmp = tempfile.mkdtemp(prefix='pymap-seed-')
    try:
        shutil.copytree(os.path.join(REPO, 'pymap'),
                        os.path.join(tmp, 'pymap'),
                        ignore=shutil.ignore_patterns('__pycache__'))
        pr = subprocess.run(['patch', '-p1', '-s', '-i',
                             os.path.abspath(patch)], cwd=tmp,
                            capture_output=True, text=True)
        if pr.returncode != 0:
            return {'error': 'patch does not apply: ' + pr.stdout[-300:]
                    + pr.stderr[-300:]}
        env = dict(os.environ, PYMAP_ROOT=tmp, SA_NO_EVIDENCE='1',
                   SA_NO_CACHE_WRITE='1', VERIF_TIER='quick')

        def one(p):
            r = subprocess.run([os.path.join(VERIF, 'check'), p], cwd=VERIF,
                               env=env, capture_output=True, text=True,
                               timeout=900)
            rules = sorted({w.split('=', 1)[1] for line in
                            r.stdout.splitlines() if line.startswith('  ')
                            for w in line.split() if w.startswith('rule=')})
            msgs = [line.strip()[:240] for line in r.stdout.splitlines()
                    if line.startswith('  ')]
            return p, r.returncode, rules, msgs
        with ThreadPoolExecutor(16) as ex:
            res = list(ex.map(one, props))
        return {'fired': {p: rules for p, rc, rules, _ in res if rc == 1},
                'errors': [p for p, rc, _, _ in res if rc not in (0, 1)],
                'messages': {p: m for p, rc, _, m in res if rc == 1}}
    finally:
        shutil.rmtree(tmp, ignore_errors=True)


def main() -> int:
    args = sys.argv[1:]
    allp = ['C%02d' % i for i in range(1, 21)]
    if args and args[0] == '--all':
        root = os.path.join(VERIF, 'seeded')
        rows = []
        for d in sorted(os.listdir(root)):
            p = os.path.join(root, d, 'patch.diff')
            if not os.path.exists(p):
                continue
            meta = json.load(open(os.path.join(root, d, 'meta.json')))
            r = run(p, allp)
            own = meta['property'] in r.get('fired', {})
            rows.append((d, meta['property'], own, r.get('fired'),
                         r.get('errors'), r.get('error')))
            print(f'{d:38} {meta["property"]} '
                  f'{"CAUGHT" if own else ("caught-by-other" if r.get("fired") else "MISSED")} '
                  f'{r.get("fired")} {r.get("errors") or ""} '
                  f'{r.get("error") or ""}', flush=True)
        caught = sum(1 for x in rows if x[2])
        anyc = sum(1 for x in rows if x[3])
        print(f'own-property caught {caught}/{len(rows)}; caught by any '
              f'check {anyc}/{len(rows)}')
        return 0
    if not args:
        print(__doc__)
        return 2
    props = [a for a in args[1:] if a.startswith('C')] or allp
    r = run(args[0], props)
    print(json.dumps(r, indent=1))
    return 0


if __name__ == '__main__':
    sys.exit(main())

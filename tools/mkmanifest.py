#!/venv/bin/python
"""Regenerate /verif/MANIFEST.json from the table below.  A property is
claimed when its rule module sa/rules/cXX.py exists."""
import json
import os

VERIF = os.path.dirname(os.path.dirname(os.path.abspath(__file__)))

P = {
 'C01': ('static decision of R1.1-R1.12: untagged-response order automaton over the comparison generator CFG, EXPUNGE/EXISTS argument def-use, hide-expunged dominance in the three sequence-number handlers, fork-once and field ownership, index coherence, seq=index+1, view-before-merge, every forked diff of the IDLE loop is written, per-command marks reset when a handler fails, the count SELECT announces is the synchronized view\'s, FETCH responses never merged across an EXPUNGE',
         'CFG order automaton + dominance + def-use + field-ownership enumeration (ast)'),
 'C02': ('static decision of R2.1-R2.10: mutate=>log=>notify post-dominance at every dict mailbox mutation, expunge record never overwritten, no suspension inside the consume window, every session method returns a merged selection, merge applies both halves, maildir full diff, flag-key mirror coherence, diff machinery reads snapshots not live objects, change-log buckets / UID records dropped only when empty / absent, deferred removals dropped only by applying them',
         'post-dominance pairing + suspension-window path query + return-value provenance (ast CFG)'),
 'C03': ('static decision of R3.1-R3.9: verbatim provenance of message bytes append->store->fetch, slice-bound soundness (no -1 stop sentinel), len/write agreement of Writeable subclasses, header/body partition, partial-range arithmetic, size source, COPY payload provenance, whole-section getters return the stored part, rfc822 unwrapping only for named parts, BODYSTRUCTURE octet counts measure what BODY[part] returns',
         'taint/provenance over allowed byte operations + slice-shape matching + sibling agreement (ast)'),
 'C04': ('static decision of R4.1-R4.7: dict UID allocator discipline (form, lock on the same receiver, key = fresh UID), maildir allocator under with_write with increment, UIDNEXT derivation, APPENDUID/COPYUID pairing dataflow, ascending-UID enumeration behind COPYUID, maildir MOVE drops the source record, UID list read under its lock',
         'field-ownership enumeration + lock-scope containment + def-use (ast)'),
 'C05': ('static decision of R5.1-R5.9: command class hierarchy vs hand-transcribed RFC state table, handler exhaustiveness, gate dominance on every route to a handler, select-clears-first, close-always-deselects, logout shape, refused=>untouched, state-field ownership, every CLOSE return has deselected, truth-tested state classes define no __len__/__bool__',
         'table agreement + CFG dominance + who-may-call enumeration (ast)'),
 'C06': ('static decision of R6.1-R6.18: loop progress of every parser loop, exception-escape sets at the parse and execution boundaries, recursion-cycle bounds on the resolved call graph, BYE on every loop-body escape, bound-before-allocation dominance, None-flow, continuation requests only where handled, stream-collecting loops test the fresh line, run-time regexes escape client text and do not let the client choose the number of unbounded quantifiers, int() only of bounded digit runs, third-party SASL calls under a ValueError handler, escape set of the connection\'s own I/O helpers vs the handlers of the command loop (with a regex totality fact), frozen may-raise facts about the stdlib email package (header registry, SingleAddressHeader.address) handled where called',
         'loop-progress fixpoint + exception-escape analysis + SCCs over a resolved call graph (ast, re._parser)'),
 'C07': ('static decision of R7.1-R7.16: quoted-string admission guard vs grammar, escape set language, direct QuotedString constructions, modutf7 output range, CRLF termination of every response writer, echo charset of tag/atom patterns, balanced delimiters, literal length agreement, client-chosen FETCH section parts echoed through a quoting serialiser, lazily rendered values written only with their content provider set, loaded-message accessors contain the no-content signal, variable-length ENVELOPE/BODYSTRUCTURE lists only when non-empty, disposition position is (type params)/NIL, multipart only with parts, ENVELOPE/BODYSTRUCTURE writers vs the RFC 3501 grammar table position by position, status response text never empty',
         'regex-language facts (re._parser) + guard truth tables + post-dominance (ast)'),
 'C08': ('static decision of R8.1-R8.5: client mailbox names reach filesystem sinks only through a validator on every call chain in both maildir layouts, INBOX guards before remove/rename, per-identity keying of the dict store, the validated name is used as validated (no transform between validation and sink), no per-user state in class-level containers',
         'must-pass-through taint on the call graph + dominance (ast)'),
 'C09': ('static decision of R9.1-R9.9: session-field ownership, authenticate->authorize->session chain, verify-or-raise in every backend authenticate, authorize truth table, LOGINDISABLED guard dominance, failure leaves fields untouched, every _login return dominated by authenticate, privilege read from the authenticated identity only, no retained mutable default argument',
         'field ownership + dominance + boolean truth tables (ast)'),
 'C10': ('static decision of R10.1-R10.10: STORE mode table, permitted-flag dataflow, addressed-set dataflow, EXPUNGE=delete(find_deleted), COPY/APPEND field preservation, \\Seen table, * resolution, MOVE/COPY sibling agreement, backend update unconditional per addressed message, membership fields mirrored between insertion and removal, flag arithmetic on flags read from the store',
         'table extraction + def-use + sibling agreement (ast)'),
 'C11': ('static decision of R11.1-R11.7: exception-contract agreement across MailboxSet siblings, wildcard translation regex language vs RFC, INBOX guards, INBOX rename leaves INBOX, transfer functions of the offset-set wildcard matcher, existence check on every maildir get_mailbox return, component-boundary prefix for Maildir++ inferiors, line-oriented subscriptions file keeps names intact',
         'exception-escape sets + regex-language facts + dominance (ast, re._parser)'),
 'C12': ('static decision of R12.1-R12.6: every mutator call in the session layer dominated by a read-only guard, \\Recent claim guard, CLOSE guard, readonly has one writer, read-only selection never the recipient of the Recent mark of a new message',
         'CFG dominance of raise-guards over mutator call sites (ast)'),
 'C13': ('static decision of R13.1-R13.9: parser-key <-> criteria dispatch exhaustiveness, flag/op tables vs RFC 3501 6.4.4, connectives, requirement covers data read, prefilter subset of conjuncts, UID/seq reporting, sequence-set criteria bounds and OR requirement union, search-key identity covers the negation, the BODY/TEXT scan over MIME parts stops early only on a match',
         'table extraction and agreement (ast)'),
 'C14': ('static decision of R14.1-R14.6: no real suspension point between source removal and destination insert in move, loop of persistent appends needs rollback, raise-before-first-mutation, UID chosen under the destination lock, maildir file without UID record removed again, rollback handler catches BaseException and the storage step is not detached, no self-held lock while a message is in transit',
         'suspension-classified path query + dominance (ast CFG)'),
 'C15': ('static decision of R15.1-R15.6: atomic-replace discipline incl. same-directory temp file, UID-list mutation only under with_write, mutate=>touch, file-before-index ordering, ack after write-back, lock released if entry fails',
         'pairing/ordering over CFG + who-may-call enumeration (ast)'),
 'C16': ('static decision of R16.1-R16.6: un-timed wait guarded by a freshness predicate evaluated after arming, every mutation notifies, IDLE loop typestate, finite poll timeout, predicate not evaluated after the position was overwritten, every collected IDLE update written, per-command marks reset on failure',
         'control-dependence + suspension-window path query (ast CFG)'),
 'C17': ('static decision of R17.1-R17.11: \\Recent removed at every entry to the settable universe, stored/session recent complementarity, claim pairs with clearing without suspension, read-only never a recipient, RECENT count sources, claimed set materialised, COPY does not carry the source recent mark (both backends), maildir claim only after its own rename succeeded',
         'def-use + truth-table complementarity + dominance (ast)'),
 'C18': ('static decision of R18.1-R18.9: cached raw span = consumed span, literal branches converge, command word normalisation, writer/reader format tables agree, modified-UTF-7 encoder escapes and range tests, all line input through the {n+}-collecting reader, parsers take string arguments by value not by wire spelling, modified-UTF-7 run encoder is base64 over UTF-16BE of the whole run (not the utf-7 codec), nothing stripped by a class containing base64 digits',
         'slice-bound equality + table agreement (ast, re._parser)'),
 'C19': ('static decision of R19.1-R19.7: gate dominance before every script operation, _state ownership, command exhaustiveness, delete-active guard, rename carries active, verbatim put/get, self-rename never reaches store-then-delete, sieve state only from verified credentials',
         'CFG dominance + dispatch exhaustiveness (ast)'),
 'C20': ('static decision of R20.1-R20.6: reader admission inside the count mutex, acquire side effects undone on cancellation, release on all exits, exclusive create, async-with discipline at call sites, sibling agreement asyncio/threading, lock file unlinked only by the waiter that created it',
         'lock-scope containment + cancellation-edge path queries (ast CFG)'),
}

NOTE = ('Decides only the named structural clauses, each a necessary '
        'condition of the property (breaking the construct breaks the '
        'behaviour); the universally quantified behavioural statement '
        'itself is NOT decided. Trusted: CPython ast/re._parser, the CFG '
        'builder (sa/cfg.py), hand-transcribed RFC tables, documented '
        'behaviour of asyncio/pysasl/mailbox/email; mypy name resolution '
        'where the rule says L3.')


def main() -> None:
    checks = []
    na = []
    for pid, (text, tech) in P.items():
        mod = os.path.join(VERIF, 'sa', 'rules', pid.lower() + '.py')
        if os.path.exists(mod):
            checks.append({
                'property_id': pid,
                'quick_cmd': f'./check {pid}',
                'thorough_cmd': f'./check {pid} --thorough',
                'evidence_file': f'/verif/evidence/{pid}.json',
                'replay_cmd_template': f'./check {pid} --replay {{path}}',
                'engine': 'sa',
                'level_claimed': {
                    'category': 'other',
                    'text': 'Partial: ' + text + '. Right level because the '
                            'property quantifies over runtime histories / '
                            'schedules / inputs that no static argument in '
                            'reach bounds; these clauses are the part whose '
                            'truth is visible in the shape of the code on '
                            'every path.',
                    'design_ref': f'DESIGN.md section 4, {pid}'},
                'level_note': NOTE,
                'technique': 'static analysis: ' + tech,
            })
        else:
            na.append({'property_id': pid,
                       'reason': 'check not built yet (planned static rules '
                                 'in DESIGN.md section 4)'})
    m = {
        'version': 1,
        'setup_cmd': 'true',
        'hooks': {
            'guard': 'PYMAP_VERIF',
            'enable': 'none needed: static analysis reads /repo sources; no '
                      'instrumentation exists in pymap',
            'baseline_off_cmd': 'cd /repo && /venv/bin/python -m pytest -ra '
                                '-q -p no:cacheprovider --timeout=900 '
                                '--continue-on-collection-errors',
            'source_commits': [],
            'add_only': True,
        },
        'engines': [{
            'name': 'sa', 'path': '/verif/sa',
            'serves_properties': [c['property_id'] for c in checks],
            'kind_free_text': 'repository-specific static analysis: ast '
                              'loader, statement CFG with exceptional and '
                              'suspension edges, dominators, def-use, '
                              'regex-language facts, resolved call graph'}],
        'checks': checks,
        'notes': 'All checks: ./check <id> [--thorough]; exit 0 ok, 1 '
                 'VIOLATION, 2 ANALYSIS-ERROR (tree cannot be analysed). '
                 'Known findings: /verif/KNOWN_FINDINGS.txt. Checker '
                 'validation by program variants: ./check selftest.',
        'not_applicable': na,
    }
    with open(os.path.join(VERIF, 'MANIFEST.json'), 'w') as fh:
        json.dump(m, fh, indent=1)
    print('claimed', len(checks), 'not_applicable', len(na))


if __name__ == '__main__':
    main()

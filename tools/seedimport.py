#!/venv/bin/python
"""Confirm an independently written breaking change and file it under
/verif/seeded/<id>/.

usage: tools/seedimport.py <property> <source dir with patch.diff demo.py notes.md> <id>

Confirmation, in a scratch git worktree of /repo's HEAD (removed afterwards):
  1. the patch applies and the package still imports;
  2. the unedited existing suite passes with the patch (300 passed);
  3. the demonstration FAILS with the patch;
  4. the demonstration PASSES without it.
Only then the change is kept (patch.diff, demo.py, notes.md, meta.json)."""
import json
import os
import re
import shutil
import subprocess
import sys
import tempfile

VERIF = os.path.dirname(os.path.dirname(os.path.abspath(__file__)))
PY = '/venv/bin/python'
SUITE = [PY, '-m', 'pytest', '-q', '-p', 'no:cacheprovider', '--timeout=900',
         '--continue-on-collection-errors']


def sh(cmd, cwd, timeout=1200, env=None):
    return subprocess.run(cmd, cwd=cwd, capture_output=True, text=True,
                          timeout=timeout, env=env)


def run_demo(wt: str, demo_src: str) -> tuple[int, str]:
    """0 = demo passes, non-zero = fails."""
    # demos may locate test/ relative to their own path (<wt>/_seed/N/)
    os.makedirs(os.path.join(wt, '_seed'), exist_ok=True)
    d = tempfile.mkdtemp(prefix='n', dir=os.path.join(wt, '_seed'))
    try:
        src = open(demo_src).read()
        src = re.sub(r"/tmp/wt[2345]?/C\d\d", wt, src)
        src = src.replace('$PYMAP_WT', wt)
        p = os.path.join(d, 'test_seed_demo.py')
        open(p, 'w').write(src)
        env = dict(os.environ, PYMAP_WT=wt, PYTHONPATH=wt)
        r = sh([PY, '-m', 'pytest', '-c', 'pyproject.toml', '-p',
                'no:cacheprovider', '--timeout=120', '-q', p], wt, 900, env)
        if r.returncode == 5:          # no tests collected: a plain script
            r = sh([PY, p], wt, 900, env)
        return r.returncode, (r.stdout + r.stderr)[-1500:]
    finally:
        shutil.rmtree(d, ignore_errors=True)


def main() -> int:
    prop, srcdir, sid = sys.argv[1:4]
    patch = os.path.join(srcdir, 'patch.diff')
    demo = os.path.join(srcdir, 'demo.py')
    notes = os.path.join(srcdir, 'notes.md')
    wt = tempfile.mkdtemp(prefix='pymap-confirm-', dir='/tmp')
    os.rmdir(wt)
    ran = {}
    try:
        r = sh(['git', '-C', '/repo', 'worktree', 'add', '-q', '--detach',
                wt, 'HEAD'], '/')
        if r.returncode:
            print('cannot create worktree', r.stderr)
            return 2
        r = sh(['git', 'apply', '--3way', os.path.abspath(patch)], wt)
        if r.returncode:
            r = sh(['git', 'apply', os.path.abspath(patch)], wt)
        if r.returncode:
            print(f'{sid}: REJECTED patch does not apply to HEAD: '
                  f'{r.stderr[-300:]}')
            return 1
        r = sh([PY, '-c', 'import pymap, pymap.imap, pymap.backend.dict, '
                'pymap.backend.maildir, pymap.sieve.manage'], wt)
        if r.returncode:
            print(f'{sid}: REJECTED does not import: {r.stderr[-300:]}')
            return 1
        r = sh(SUITE, wt)
        tail = (r.stdout.strip().splitlines() or [''])[-1]
        ran['suite_with_patch'] = tail
        if '300 passed' not in tail or 'failed' in tail:
            print(f'{sid}: REJECTED existing suite does not pass with the '
                  f'patch: {tail}')
            return 1
        rc1, out1 = run_demo(wt, demo)
        ran['demo_with_patch_rc'] = rc1
        if rc1 == 0:
            print(f'{sid}: REJECTED demo does not fail with the patch')
            return 1
        sh(['git', 'checkout', '--', '.'], wt)
        sh(['git', 'reset', '-q', '--hard', 'HEAD'], wt)
        rc0, out0 = run_demo(wt, demo)
        ran['demo_without_patch_rc'] = rc0
        if rc0 != 0:
            print(f'{sid}: REJECTED demo does not pass on the unchanged '
                  f'tree:\n{out0[-600:]}')
            return 1
    finally:
        sh(['git', '-C', '/repo', 'worktree', 'remove', '--force', wt], '/')
        shutil.rmtree(wt, ignore_errors=True)
        sh(['git', '-C', '/repo', 'worktree', 'prune'], '/')
    dest = os.path.join(VERIF, 'seeded', sid)
    os.makedirs(dest, exist_ok=True)
    shutil.copy(patch, os.path.join(dest, 'patch.diff'))
    src = re.sub(r"/tmp/wt[2345]?/C\d\d", '$PYMAP_WT', open(demo).read())
    open(os.path.join(dest, 'demo.py'), 'w').write(
        '# $PYMAP_WT = a checkout of pymap (tools/seedimport.py substitutes '
        'it)\n' + src)
    needs = ''
    if os.path.exists(notes):
        shutil.copy(notes, os.path.join(dest, 'notes.md'))
        needs = ' '.join(open(notes).read().split())[:900]
    head = sh(['git', '-C', '/repo', 'rev-parse', '--short', 'HEAD'],
              '/').stdout.strip()
    json.dump({
        'property': prop, 'id': sid,
        'written_by': 'independent sub-agent given only the property text '
                      'and a scratch worktree',
        'what_it_needs_to_manifest_and_why': needs,
        'confirmed_against_repo_head': head,
        'what_was_run': {
            'existing_suite_with_patch': ran.get('suite_with_patch'),
            'demo_with_patch': f'exit {ran.get("demo_with_patch_rc")} '
                               f'(fails)',
            'demo_without_patch': f'exit {ran.get("demo_without_patch_rc")}'
                                  f' (passes)',
            'how': 'tools/seedimport.py in a scratch worktree of /repo HEAD, '
                   'removed afterwards'},
    }, open(os.path.join(dest, 'meta.json'), 'w'), indent=1)
    print(f'{sid}: KEPT ({ran})')
    return 0


if __name__ == '__main__':
    sys.exit(main())

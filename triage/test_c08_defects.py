"""Triage demonstration for C08/R8.1 (cd /repo && /venv/bin/python -m pytest
-c pyproject.toml /verif/triage/test_c08_defects.py -p no:cacheprovider)."""
import os
import tempfile

import pytest
from pymap.backend.maildir.layout import MaildirLayout
from pymap.backend.maildir.mailbox import Maildir


@pytest.mark.parametrize('layout_name', ['++', 'fs'])
@pytest.mark.parametrize('name', ['.', '..', '../escaped', '', 'a//b', 'a/',
                                  'a/../../escaped', 'x\0y'])
def test_paths_stay_strictly_inside_the_store(layout_name, name) -> None:
    with tempfile.TemporaryDirectory() as tmp:
        root = os.path.join(tmp, 'user', 'store')
        os.makedirs(os.path.dirname(root))
        Maildir(root, create=True)
        layout = MaildirLayout.get(root, layout_name, Maildir)
        try:
            path = layout.get_path(name, '/')
        except Exception as exc:
            # refusing the name is fine, but it must be a clean refusal
            from pymap.exceptions import ResponseError
            assert isinstance(exc, ResponseError), repr(exc)
            return
        real_root = os.path.realpath(root)
        real = os.path.realpath(path)
        assert real.startswith(real_root + os.sep), \
            f'{name!r} -> {path!r} is not strictly inside {root!r}'

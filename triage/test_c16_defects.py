"""Triage demonstration for C16/R16.1: lost wake-up (cd /repo &&
/venv/bin/python -m pytest -c pyproject.toml --timeout=20
/verif/triage/test_c16_defects.py -p no:cacheprovider).  On the defective
tree this test hangs until the timeout."""
from server.base import TestBase
from pymap.imap import IMAPServer


class TestC16(TestBase):

    async def test_change_before_idle_is_pushed(
            self, imap_server: IMAPServer) -> None:
        idler = self.new_transport(imap_server)
        other = self.new_transport(imap_server)
        event1, event2, event3 = self.new_events(3)

        idler.push_login()
        idler.push_select(b'INBOX', 4, 1, 105, set=event1)
        # the other session appends now; then this one goes straight to IDLE
        idler.push_readline(b'idle1 IDLE\r\n', wait=event2)
        idler.push_write(b'+ Idling.\r\n')
        idler.push_readexactly(b'', wait=event3)
        idler.push_write(b'* 5 EXISTS\r\n')
        idler.push_write(b'* 2 RECENT\r\n')
        idler.push_write(b'* 5 FETCH (FLAGS (\\Recent \\Seen))\r\n',
                         set=event3)
        idler.push_readline(b'DONE\r\n')
        idler.push_write(b'idle1 OK IDLE completed.\r\n')
        idler.push_logout()

        other.push_login()
        other.push_readline(
            b'append1 APPEND INBOX (\\Seen) {9}\r\n', wait=event1)
        other.push_write(b'+ Literal string\r\n')
        other.push_readexactly(b'testing\r\n')
        other.push_readline(b'\r\n')
        other.push_write(
            b'append1 OK [APPENDUID ', (br'\d+', ), b' 105]'
            b' APPEND completed.\r\n', set=event2)
        other.push_logout()

        await self.run(idler, other)

"""C17: \\Recent is session state, "never stored".  The APPEND flag list is
parsed with the general flag grammar, where `\\Recent` is lexically a
flag-extension; the session layer handed the client's flag set to the
backend unfiltered, so `APPEND Sent (\\Recent \\Seen) {n}` stored \\Recent as
a permanent flag: every later session sees it on that message for ever,
while `* 0 RECENT` says there is none.  (STORE already intersects with the
permanent flags.)

Run: cd /repo && /venv/bin/python -m pytest -c pyproject.toml --timeout=20 \
        /verif/triage/test_c17_append_recent_flag.py -p no:cacheprovider
"""
import sys

import pytest

sys.path.insert(0, '/repo/test')
from server.base import TestBase  # noqa: E402

pytestmark = pytest.mark.asyncio


class TestAppendRecentFlag(TestBase):

    async def test_append_recent_flag(self, imap_server) -> None:
        transport = self.new_transport(imap_server)
        msg = b'Subject: x\r\n\r\nbody\r\n'
        transport.push_login()
        transport.push_readline(
            b'a1 APPEND Sent (\\Recent \\Seen) {%d}\r\n' % len(msg))
        transport.push_write(b'+ Literal string\r\n')
        transport.push_readexactly(msg)
        transport.push_readline(b'\r\n')
        transport.push_write(b'a1 OK [APPENDUID ', (br'\d+ \d+', ),
                             b'] APPEND completed.\r\n')
        # the first read-write selection is told the message is recent ...
        transport.push_readline(b'a2 SELECT Sent\r\n')
        transport.push_write((br'[\s\S]*', ), b'\r\n* 1 RECENT\r\n',
                             (br'[\s\S]*', ),
                             b'a2 OK [READ-WRITE] Selected mailbox.\r\n')
        transport.push_readline(b'a3 CLOSE\r\n')
        transport.push_write(b'a3 OK CLOSE completed.\r\n')
        # ... and nobody after it
        transport.push_readline(b'a4 SELECT Sent\r\n')
        transport.push_write((br'[\s\S]*', ), b'\r\n* 0 RECENT\r\n',
                             (br'[\s\S]*', ),
                             b'a4 OK [READ-WRITE] Selected mailbox.\r\n')
        transport.push_readline(b'a5 FETCH 3 (FLAGS)\r\n')
        transport.push_write(b'* 3 FETCH (FLAGS (\\Seen))\r\n'
                             b'a5 OK FETCH completed.\r\n')
        transport.push_logout()
        await self.run(transport)

"""Triage demonstrations for C15 (cd /repo && /venv/bin/python -m pytest
-c pyproject.toml /verif/triage/test_c15_defects.py -p no:cacheprovider)."""
import os
import shutil
import tempfile

import pytest
from pymap.backend.maildir.uidlist import UidList, Record


def _other_fs_dir() -> str | None:
    tmpdev = os.stat(tempfile.gettempdir()).st_dev
    for cand in ('/dev/shm', '/run', os.path.expanduser('~')):
        if os.path.isdir(cand) and os.access(cand, os.W_OK) and \
                os.stat(cand).st_dev != tmpdev:
            return cand
    return None


async def test_uidlist_written_when_store_is_on_another_filesystem() -> None:
    # R15.1: temp file in the system temp dir -> os.rename EXDEV
    base = _other_fs_dir()
    if base is None:
        pytest.skip('no second writable filesystem in this sandbox')
    path = tempfile.mkdtemp(prefix='pymap-c15-', dir=base)
    try:
        async with UidList.with_write(path) as uidl:
            uidl.set(Record(uidl.next_uid, {}, 'msg1:2,S'))
            uidl.next_uid += 1
        async with UidList.with_read(path) as uidl:
            assert [r.uid for r in uidl.records] == [1]
    finally:
        shutil.rmtree(path, ignore_errors=True)


async def test_lock_released_when_uidlist_is_corrupt() -> None:
    # R15.6: a control file that fails to parse leaked the lock file
    path = tempfile.mkdtemp(prefix='pymap-c15-')
    try:
        with open(os.path.join(path, 'dovecot-uidlist'), 'w') as fh:
            fh.write('garbage header\r\n')
        with pytest.raises(ValueError):
            async with UidList.with_write(path):
                pass
        assert not os.path.exists(os.path.join(path, UidList.LOCK_FILE)), \
            'lock file left behind after a failed __aenter__'
    finally:
        shutil.rmtree(path, ignore_errors=True)

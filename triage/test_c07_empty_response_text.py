"""C07: RFC 3501 section 9: resp-text = ["[" resp-text-code "]" SP] text with
text = 1*TEXT-CHAR.  The command loop answered an AuthenticationError with
the exception's own message as the text of a tagged BAD; the connection
raises `AuthenticationError()` without a message when the client's SASL
response is not base64, so the line written was `a1 BAD ` + CRLF.

Run: cd /repo && /venv/bin/python -m pytest -c pyproject.toml --timeout=20 \
        /verif/triage/test_c07_empty_response_text.py -p no:cacheprovider
"""
import sys

import pytest

sys.path.insert(0, '/repo/test')
from server.base import TestBase  # noqa: E402

pytestmark = pytest.mark.asyncio


class TestEmptyResponseText(TestBase):

    async def test_auth_not_base64(self, imap_server) -> None:
        transport = self.new_transport(imap_server)
        transport.push_write(b'* OK [CAPABILITY', (br'.*', ), b'\r\n')
        transport.push_readline(b'a1 AUTHENTICATE PLAIN\r\n')
        transport.push_write(b'+ \r\n')
        transport.push_readexactly(b'')
        transport.push_readline(b'!!!!notbase64\r\n')
        transport.push_write(b'a1 BAD ', (br'[\x20-\x7e]+', ), b'\r\n')
        transport.push_logout()
        await self.run(transport)

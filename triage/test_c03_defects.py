"""Triage demonstrations for C03 (cd /repo && /venv/bin/python -m pytest
-c pyproject.toml /verif/triage/test_c03_defects.py -p no:cacheprovider)."""
import os
import tempfile
from datetime import datetime

import pytest
from pymap.mime import MessageContent
from pymap.parsing.message import AppendMessage
from pymap.parsing.specials import ObjectId, FetchRequirement


@pytest.mark.parametrize('msg', [b'From: a\r\n', b'From: a\r\n\r\n',
                                 b'From: a\n', b'Subject: x'])
def test_header_only_message_is_stored_verbatim(msg) -> None:
    # R3.2: get_raw's -1 sentinel drops the last byte when the body is empty
    content = MessageContent.parse(msg)
    assert bytes(content) == msg
    assert len(content) == len(msg)


async def _maildir_mailbox(tmp, name='mbx'):
    from pymap.backend.maildir.mailbox import Maildir, MailboxData
    path = os.path.join(tmp, name)
    maildir = Maildir(path, create=True)
    mbx = MailboxData(ObjectId.random_mailbox_id(), maildir, path)
    await mbx.reset()
    return mbx


async def test_maildir_copy_keeps_the_content() -> None:
    # R3.7: maildir COPY built the copy from a metadata-only object
    body = b'From: a@b\r\nSubject: hi\r\n\r\nhello world\r\n'
    with tempfile.TemporaryDirectory() as tmp:
        src = await _maildir_mailbox(tmp, 'src')
        dst = await _maildir_mailbox(tmp, 'dst')
        msg = await src.append(AppendMessage(body, datetime.now(),
                                             frozenset()))
        dest_uid = await src.copy(msg.uid, dst)
        copied = [m async for m in dst.messages() if m.uid == dest_uid][0]
        loaded = await copied.load_content(FetchRequirement.CONTENT)
        assert b'hello world' in bytes(loaded)


async def test_maildir_returns_appended_bytes_verbatim() -> None:
    # R3.1: KNOWN FINDING — stdlib mailbox re-serialises the message
    body = b'From: a@b\r\nSubject: hi\r\n\r\nhello world\r\n'
    with tempfile.TemporaryDirectory() as tmp:
        mbx = await _maildir_mailbox(tmp)
        msg = await mbx.append(AppendMessage(body, datetime.now(),
                                             frozenset()))
        stored = [m async for m in mbx.messages() if m.uid == msg.uid][0]
        loaded = await stored.load_content(FetchRequirement.CONTENT)
        assert bytes(loaded) == body

"""C07: RFC 3501 section 9: env-to = "(" 1*address ")" / nil (the same for
from, sender, reply-to, cc, bcc).  A header that is present but holds no
address -- `To: undisclosed-recipients:;` is the usual one -- was written as
the empty list `()`, which the grammar does not have.

Run: cd /repo && /venv/bin/python -m pytest -c pyproject.toml --timeout=20 \
        /verif/triage/test_c07_envelope_empty_address_list.py -p no:cacheprovider
"""
import re

import pytest

from pymap.message import BaseLoadedMessage
from pymap.mime import MessageContent


class _Loaded(BaseLoadedMessage):
    pass


@pytest.mark.parametrize('raw', [
    b'To: undisclosed-recipients:;\r\n\r\nbody\r\n',
    b'Sender: nobody:;\r\n\r\nbody\r\n',
    b'Cc: (only a comment)\r\n\r\nbody\r\n',
    b'Bcc: \r\n\r\nbody\r\n'])
def test_no_empty_address_list(raw: bytes) -> None:
    loaded = _Loaded(None, None, MessageContent.parse(raw))  # type: ignore
    out = bytes(loaded.get_envelope_structure())
    assert not re.search(rb'\(\)', out), out
    assert out == b'(NIL NIL NIL NIL NIL NIL NIL NIL NIL NIL)'

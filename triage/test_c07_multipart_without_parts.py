"""C07: RFC 3501 section 9: body-type-mpart = 1*body SP media-subtype.  A
message that declares multipart/* but contains no boundary line has no
parts; its BODYSTRUCTURE was written as `( "mixed")` -- an opening
parenthesis followed by a space, which no production of the grammar allows.

Run: cd /repo && /venv/bin/python -m pytest -c pyproject.toml --timeout=20 \
        /verif/triage/test_c07_multipart_without_parts.py -p no:cacheprovider
"""
import pytest

from pymap.message import BaseLoadedMessage
from pymap.mime import MessageContent


class _Loaded(BaseLoadedMessage):
    pass


@pytest.mark.parametrize('raw', [
    b'Content-Type: multipart/mixed; boundary=x\r\n\r\nno parts here\r\n',
    b'Content-Type: multipart/mixed; boundary=x\r\n\r\n--x--\r\n',
    b'Content-Type: multipart/alternative\r\n\r\ntext\r\n'])
def test_no_empty_part_list(raw: bytes) -> None:
    loaded = _Loaded(None, None, MessageContent.parse(raw))  # type: ignore
    for out in (bytes(loaded.get_body_structure()),
                bytes(loaded.get_body_structure().extended)):
        assert not out.startswith(b'( '), out
        assert out.startswith(b'("multipart" "'), out

"""Triage demonstration for C18/R18.1 (cd /repo && /venv/bin/python -m pytest
-c pyproject.toml /verif/triage/test_c18_defects.py -p no:cacheprovider)."""
from pymap.parsing import Params
from pymap.parsing.primitives import QuotedString
from pymap.parsing.specials import AString


def test_quoted_string_reserialises_exactly_its_own_bytes() -> None:
    ret, buf = QuotedString.parse(memoryview(b'"abc" def'), Params())
    assert bytes(buf) == b' def'
    assert bytes(ret) == b'"abc"'


def test_astring_quoted_spelling_round_trips() -> None:
    ret, buf = AString.parse(memoryview(b'"a b")'), Params())
    assert bytes(ret) == b'"a b"'
    again, rest = AString.parse(memoryview(bytes(ret)), Params())
    assert again.value == ret.value and bytes(rest) == b''


import pytest


@pytest.mark.parametrize('name', ['é&a', 'é&', '日本&語', 'a&b', '&é'])
def test_modutf7_round_trips_ampersand_after_non_ascii(name) -> None:
    # R18.6: "&" ending a non-ASCII run was emitted raw
    from pymap.parsing.modutf7 import modutf7_encode, modutf7_decode
    assert modutf7_decode(modutf7_encode(name)) == name

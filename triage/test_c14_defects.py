"""Triage demonstration for C14/R14.2: MULTIAPPEND is all-or-nothing
(cd /repo && /venv/bin/python -m pytest -c pyproject.toml
/verif/triage/test_c14_defects.py -p no:cacheprovider)."""
from datetime import datetime

import pytest
from pymap.backend.dict import DictBackend
from pymap.parsing.message import AppendMessage
from server.base import TestBase, FakeArgs


def _nested(depth: int) -> bytes:
    body = b'leaf\r\n'
    for i in range(depth):
        b = b'b%d' % i
        body = (b'Content-Type: multipart/mixed; boundary="' + b +
                b'"\r\n\r\n--' + b + b'\r\n' + body + b'\r\n--' + b +
                b'--\r\n')
    return body


class TestC14(TestBase):

    async def test_multiappend_prefix_not_kept(self, backend) -> None:
        from pysasl.creds.plain import PlainCredentials
        from contextlib import AsyncExitStack
        creds = PlainCredentials('testuser', 'testpass')
        ident = await backend.login.authenticate(creds)
        async with AsyncExitStack() as stack:
            session = await stack.enter_async_context(ident.new_session())
            mbx = await session.mailbox_set.get_mailbox('Sent')
            before = sorted(mbx._messages)
            good = AppendMessage(b'Subject: good\r\n\r\nbody\r\n',
                                 datetime.now(), frozenset())
            bad = AppendMessage(_nested(400), datetime.now(), frozenset())
            with pytest.raises(RecursionError):
                await session.append_messages('Sent', [good, bad])
            assert sorted(mbx._messages) == before, \
                'first message of a failed MULTIAPPEND stayed in the mailbox'

"""C04/C10 (maildir): MOVE (and EXPUNGE) leave the source's UID-list record
behind; it is only dropped by a later cleanup.  MOVE keeps the file's key, so
moving the same message BACK makes the stale record valid again: the
expunged UID reappears next to the newly assigned one (one file, two UIDs).

Run: cd /repo && /venv/bin/python -m pytest -c pyproject.toml --timeout=20 \
        /verif/triage/test_c04_maildir_move_back.py -p no:cacheprovider
"""
from pymap.backend.maildir.layout import MaildirLayout
from pymap.backend.maildir.mailbox import Maildir, MailboxSet
from pymap.parsing.message import AppendMessage


def _open(path: str) -> MailboxSet:
    layout = MaildirLayout.get(path, '++', Maildir)
    return MailboxSet(Maildir(path, create=True), layout)


async def _uids(mbx) -> list[int]:
    return sorted([msg.uid async for msg in mbx.messages()])


async def test_move_away_and_back(tmp_path) -> None:
    mset = _open(str(tmp_path / 'Maildir'))
    await mset.add_mailbox('Other')
    inbox = await mset.get_mailbox('INBOX')
    other = await mset.get_mailbox('Other')
    msg = await inbox.append(AppendMessage(
        b'From: a@example.com\r\nSubject: x\r\n\r\nbody\r\n'))
    first_uid = msg.uid
    moved_uid = await inbox.move(first_uid, other)
    assert moved_uid is not None
    assert await _uids(inbox) == []
    back_uid = await other.move(moved_uid, inbox)
    assert back_uid is not None and back_uid > first_uid
    # the message is in INBOX exactly once, under its NEW uid
    assert await _uids(inbox) == [back_uid]
    assert await _uids(other) == []

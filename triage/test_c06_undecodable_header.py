"""C06: the standard library's header parser raises on some header values
(CPython 3.12 email/_header_value_parser.py, MimeParameters.params: an RFC
2231 parameter whose pieces do not decode with the declared charset, e.g.
utf-7 with a shift sequence split over two continuations, raises
UnicodeDecodeError -- only LookupError/UnicodeEncodeError are handled there;
`From: a@[ ` raises UnboundLocalError in get_domain_literal; random header
values also produce IndexError, AttributeError and TypeError).
pymap called the registry without a handler; APPEND parses the Content-Type
header at once, so one APPEND of such a message ended the connection with
`* BYE [SERVERBUG]`.

Run: cd /repo && /venv/bin/python -m pytest -c pyproject.toml --timeout=20 \
        /verif/triage/test_c06_undecodable_header.py -p no:cacheprovider
"""
import sys

import pytest

sys.path.insert(0, '/repo/test')
from server.base import TestBase  # noqa: E402

from pymap.mime import MessageContent  # noqa: E402

MSG = (b"Content-Type: text/plain; name*0*=utf-7''+AO; name*1*=k-\r\n"
       b"Subject: hello\r\n\r\nbody\r\n")


@pytest.mark.parametrize('raw', [
    b'From: a@[ \r\n\r\nbody\r\n',          # UnboundLocalError in CPython 3.12
    MSG])
def test_envelope_of_malformed_header(raw: bytes) -> None:
    from pymap.message import BaseLoadedMessage

    class Loaded(BaseLoadedMessage):
        pass
    loaded = Loaded(None, None, MessageContent.parse(raw))  # type: ignore
    assert bytes(loaded.get_envelope_structure()).startswith(b'(')
    assert bytes(loaded.get_body_structure()).startswith(b'(')


def test_parse_does_not_raise() -> None:
    content = MessageContent.parse(MSG)
    # the unparseable header counts as absent; the others are unaffected
    assert content.header.parsed.content_type is None
    assert str(content.header.parsed.subject) == 'hello'
    assert bytes(content) == MSG


@pytest.mark.asyncio
class TestUndecodableHeader(TestBase):

    async def test_append_then_fetch(self, imap_server) -> None:
        transport = self.new_transport(imap_server)
        transport.push_login()
        transport.push_readline(b'a1 APPEND INBOX {%d}\r\n' % len(MSG))
        transport.push_write(b'+ Literal string\r\n')
        transport.push_readexactly(MSG)
        transport.push_readline(b'\r\n')
        transport.push_write(b'a1 OK [APPENDUID ', (br'\d+', ),
                             b' 105] APPEND completed.\r\n')
        transport.push_select(b'INBOX', 5, 2, 106, 3)
        transport.push_readline(
            b'a2 FETCH 5 (BODYSTRUCTURE BODY.PEEK[HEADER])\r\n')
        transport.push_write(
            b'* 5 FETCH (BODYSTRUCTURE ("text" "plain" NIL NIL NIL "7BIT" ',
            (br'\d+ \d+', ), b' NIL NIL NIL NIL) BODY[HEADER] {',
            (br'\d+', ), b'}\r\n', (br'[\s\S]*', ),
            b')\r\na2 OK FETCH completed.\r\n')
        transport.push_logout()
        await self.run(transport)

"""C06: CPython refuses to convert more than 4300 digits to int
(sys.get_int_max_str_digits).  Every parser that matched an unbounded digit
run and then called int() let that ValueError escape -- it is not a
NotParseable, so the client got `* BYE [SERVERBUG]` instead of a tagged BAD;
in the LITERAL+ line readers it killed the connection.

Run: cd /repo && /venv/bin/python -m pytest -c pyproject.toml --timeout=20 \
        /verif/triage/test_c06_long_digit_runs.py -p no:cacheprovider
"""
import asyncio

import pytest

from pymap.imap import IMAPConnection
from pymap.parsing import Params
from pymap.parsing.exceptions import NotParseable
from pymap.parsing.primitives import Number, LiteralString
from pymap.parsing.specials import SequenceSet, FetchAttribute
from pymap.sieve.manage import ManageSieveConnection

BIG = b'9' * 5000

CASES = [
    (Number, BIG + b' '),
    (LiteralString, b'{' + BIG + b'}\r\n'),
    (SequenceSet, BIG + b' '),
    (SequenceSet, b'1:' + BIG + b' '),
    (FetchAttribute, b'BODY[]<' + BIG + b'.1>'),
    (FetchAttribute, b'BODY[]<1.' + BIG + b'>'),
    (FetchAttribute, b'BODY[' + BIG + b']'),
]


@pytest.mark.parametrize('cls,data', CASES, ids=[str(i) for i in range(len(CASES))])
def test_parsers(cls, data):
    try:
        cls.parse(memoryview(data), Params())
    except NotParseable:
        pass


@pytest.mark.parametrize('cls,meth', [(IMAPConnection, 'readline'),
                                      (ManageSieveConnection, '_read_data')])
def test_line_readers(cls, meth):
    async def main():
        reader = asyncio.StreamReader()
        reader.feed_data(b'a X {' + BIG + b'+}\r\nb NOOP\r\n')
        reader.feed_eof()
        conn = cls.__new__(cls)
        conn.reader = reader
        line = bytes(await getattr(conn, meth)())
        assert line.startswith(b'a X {999')
    asyncio.run(main())

"""C18: "every mailbox name is reported back by LIST and STATUS as a
modified-UTF-7 spelling that decodes to the same name".  The run encoder went
through Python's utf-7 codec and cut off the first and last octet of its
output ("+" and "-").  That codec writes TAB, CR and LF *directly* (RFC 2152
allows it; RFC 3501 5.1.3 does not: only 0x20-0x7e represent themselves), so
for such a run there were no shift markers and the slice cut payload:

    'x\\ty'    ->  b'x&-y'      which decodes to 'x&y'   (another mailbox)
    '\\ré'     ->  b'&+AOk-'    which does not decode at all

CREATE "x<TAB>y" is a legal quoted string, so the first case needs nothing
unusual.

Run: cd /repo && /venv/bin/python -m pytest -c pyproject.toml --timeout=20 \
        /verif/triage/test_c18_modutf7_control_chars.py -p no:cacheprovider
"""
import random
import sys

import pytest

sys.path.insert(0, '/repo/test')
from server.base import TestBase  # noqa: E402

from pymap.parsing.modutf7 import modutf7_decode, modutf7_encode  # noqa: E402


@pytest.mark.parametrize('name', [
    'x\ty', 'x\r\ny', 'x\r\n\ty', '\r', 'é\r', '\ré', 'x\r', '\t',
    'a\x01b', 'x\x7fy', 'ﬁnance', '日本語', 'a&b', 'é&', '\udc80'])
def test_round_trip(name: str) -> None:
    wire = modutf7_encode(name)
    assert all(0x20 <= octet <= 0x7e for octet in wire), wire
    assert modutf7_decode(wire) == name


def test_same_as_before_where_it_was_right() -> None:
    # runs without TAB / CR / LF were encoded correctly: nothing changes
    rnd = random.Random(18)
    alphabet = ['a', '&', '-', 'é', 'ﬁ', '\U0001f600', '\x00', '\x7f', ' ',
                '+', '/', ',', '日', '\x1f', '\x80']
    for _ in range(20000):
        name = ''.join(rnd.choice(alphabet)
                       for _ in range(rnd.randint(0, 8)))
        wire = modutf7_encode(name)
        assert modutf7_decode(wire) == name
        # reference: the old formula on each maximal non-printable run
        out = bytearray()
        run = ''
        for ch in name + 'a':
            if 0x20 <= ord(ch) <= 0x7e:
                if run:
                    out += b'&' + run.encode('utf-7')[1:-1].replace(
                        b'/', b',') + b'-'
                    run = ''
                out += b'&-' if ch == '&' else ch.encode('ascii')
            else:
                run += ch
        assert wire == bytes(out[:-1])


@pytest.mark.asyncio
class TestTabInMailboxName(TestBase):

    async def test_create_list(self, imap_server) -> None:
        transport = self.new_transport(imap_server)
        transport.push_login()
        transport.push_readline(b'a1 CREATE "x\ty"\r\n')
        transport.push_write(b'a1 OK [MAILBOXID (', (br'F[a-f0-9]+', ),
                             b')] CREATE completed.\r\n')
        transport.push_readline(b'a2 LIST "" "x*"\r\n')
        transport.push_write(b'* LIST (\\HasNoChildren) "/" x&AAk-y\r\n'
                             b'a2 OK LIST completed.\r\n')
        transport.push_logout()
        await self.run(transport)

"""C14 (maildir): append() and copy() write the message file first and then
wait for the dovecot-uidlist lock.  If the wait fails -- the command is
cancelled because the client went away, or the lock times out -- the file
stayed in the mailbox without a UID record, and the next reset() adopted it:
a message from an APPEND/COPY that never completed shows up later (and the
MULTIAPPEND rollback cannot remove it, it has no UID yet).

Run: cd /repo && /venv/bin/python -m pytest -c pyproject.toml --timeout=20 \
        /verif/triage/test_c14_maildir_append_undo.py -p no:cacheprovider
"""
import asyncio
import os

from pymap.backend.maildir.layout import MaildirLayout
from pymap.backend.maildir.mailbox import Maildir, MailboxSet
from pymap.parsing.message import AppendMessage

MSG = b'From: a@example.com\r\nSubject: x\r\n\r\nbody\r\n'


def _open(path: str) -> MailboxSet:
    layout = MaildirLayout.get(path, '++', Maildir)
    return MailboxSet(Maildir(path, create=True), layout)


def _files(path: str) -> list[str]:
    return sorted(name for sub in ('new', 'cur')
                  for name in os.listdir(os.path.join(path, sub)))


async def _uids(mbx) -> list[int]:
    return sorted([msg.uid async for msg in mbx.messages()])


async def test_cancelled_append_leaves_nothing(tmp_path) -> None:
    path = str(tmp_path / 'Maildir')
    inbox = await _open(path).get_mailbox('INBOX')
    first = await inbox.append(AppendMessage(MSG))
    lock = os.path.join(path, 'dovecot-uidlist.lock')
    open(lock, 'x').close()              # another process holds the UID list
    task = asyncio.ensure_future(inbox.append(AppendMessage(MSG)))
    await asyncio.sleep(0.2)             # ... the append is waiting for it
    task.cancel()                        # ... and the client goes away
    try:
        await task
    except asyncio.CancelledError:
        pass
    os.unlink(lock)
    assert len(_files(path)) == 1
    again = await _open(path).get_mailbox('INBOX')
    assert await _uids(again) == [first.uid]


async def test_cancelled_copy_leaves_nothing(tmp_path) -> None:
    path = str(tmp_path / 'Maildir')
    mset = _open(path)
    await mset.add_mailbox('Other')
    inbox = await mset.get_mailbox('INBOX')
    other = await mset.get_mailbox('Other')
    first = await inbox.append(AppendMessage(MSG))
    lock = os.path.join(other._path, 'dovecot-uidlist.lock')
    open(lock, 'x').close()
    task = asyncio.ensure_future(inbox.copy(first.uid, other))
    await asyncio.sleep(0.2)
    task.cancel()
    try:
        await task
    except asyncio.CancelledError:
        pass
    os.unlink(lock)
    assert _files(other._path) == []
    again = await _open(path).get_mailbox('Other')
    assert await _uids(again) == []

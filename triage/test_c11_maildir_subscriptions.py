"""C11 (maildir): the subscriptions file holds one name per line and was read
back with line.rstrip().  SUBSCRIBE of a name containing a line break wrote
two lines (LSUB then lists a name that was never subscribed and not the real
one); a name ending in a space lost it.

Run: cd /repo && /venv/bin/python -m pytest -c pyproject.toml --timeout=20 \
        /verif/triage/test_c11_maildir_subscriptions.py -p no:cacheprovider
"""
import pytest

from pymap.backend.maildir.layout import MaildirLayout
from pymap.backend.maildir.mailbox import Maildir, MailboxSet
from pymap.exceptions import NotSupportedError


def _open(path: str) -> MailboxSet:
    layout = MaildirLayout.get(path, '++', Maildir)
    return MailboxSet(Maildir(path, create=True), layout)


async def _lsub(mset) -> set[str]:
    tree = await mset.list_subscribed()
    return {e.name for e in tree.list() if e.exists} - {'INBOX'}


async def test_line_break_in_name(tmp_path) -> None:
    mset = _open(str(tmp_path / 'Maildir'))
    for name in ('a', 'b', 'a\nb'):
        await mset.add_mailbox(name)
    try:
        await mset.set_subscribed('a\nb', True)
    except NotSupportedError:
        pass                     # refusing the name is fine
    assert await _lsub(mset) <= {'a\nb'}


async def test_trailing_space_in_name(tmp_path) -> None:
    mset = _open(str(tmp_path / 'Maildir'))
    for name in ('foo', 'foo '):
        await mset.add_mailbox(name)
    await mset.set_subscribed('foo ', True)
    assert await _lsub(mset) == {'foo '}

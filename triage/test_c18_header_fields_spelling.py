"""C18: BODY[HEADER.FIELDS (...)] kept the WIRE spelling of each header name
(bytes(AString) = '"Subject"' with its quotes, '{7}\\r\\nSubject' for a
literal), so a quoted or literal name never matched a header: the same
command returned the Subject line or nothing depending on how the name was
spelled.

Run: cd /repo && /venv/bin/python -m pytest -c pyproject.toml --timeout=20 \
        /verif/triage/test_c18_header_fields_spelling.py -p no:cacheprovider
"""
import pytest

from pymap.parsing import Params
from pymap.parsing.specials import FetchAttribute

SPELLINGS = [b'BODY[HEADER.FIELDS (Subject)]',
             b'BODY[HEADER.FIELDS ("Subject")]',
             b'BODY[HEADER.FIELDS ({7+}\r\nSubject)]']


def test_same_section_for_every_spelling():
    attrs = [FetchAttribute.parse(memoryview(s), Params())[0]
             for s in SPELLINGS]
    assert {a.section.headers for a in attrs} == {frozenset({b'SUBJECT'})}
    assert len({a.raw for a in attrs}) == 1
    assert len({hash(a) for a in attrs}) == 1


def test_echo_is_well_formed_for_odd_names():
    attr, _ = FetchAttribute.parse(
        memoryview(b'BODY[HEADER.FIELDS ({3+}\r\na\rb "x y")]'), Params())
    assert attr.section.headers == frozenset({b'A\rB', b'X Y'})
    # re-parsing the echoed item gives the same attribute
    again, rest = FetchAttribute.parse(memoryview(attr.raw.replace(
        b'{3}', b'{3+}')), Params())
    assert bytes(rest) == b''
    assert again.section.headers == attr.section.headers
    assert b'"A\rB"' not in attr.raw

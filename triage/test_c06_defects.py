"""Triage demonstrations for C06 (cd /repo && /venv/bin/python -m pytest
-c pyproject.toml --timeout=20 /verif/triage/test_c06_defects.py
-p no:cacheprovider)."""
import pytest
from pymap.parsing import Params
from pymap.parsing.commands import Commands, InvalidCommand
from pymap.parsing.state import ParsingState


def _parse(line: bytes):
    cmd, _ = Commands().parse(memoryview(line), Params(ParsingState()))
    return cmd


@pytest.mark.timeout(10)
def test_modutf7_ampersand_without_dash_terminates() -> None:
    # R6.1: modutf7_decode spun forever on '&' without a closing '-'
    from pymap.parsing.modutf7 import modutf7_decode
    try:
        modutf7_decode(b'abc&xyz')
    except UnicodeError:
        pass      # refusing is fine (the parser maps it to BAD); hanging is not


@pytest.mark.parametrize('line', [
    b'a1 SELECT "&2D3-"\r\n',                       # invalid modified UTF-7
    b'a2 LIST "" "&2D3-"\r\n',
    b'a3 SEARCH CHARSET "\xff" ALL\r\n',            # 8-bit charset name
    b'a4 SEARCH CHARSET UTF-16 ALL\r\n',            # decodes b" " badly
    b'a5 SEARCH SUBJECT "\xff"\r\n',                # 8-bit astring, ascii
    b'a6 SEARCH CHARSET UTF-8 SUBJECT "\xff"\r\n',  # invalid UTF-8
])
def test_parser_answers_bad_instead_of_raising(line) -> None:
    # R6.2: only NotParseable/ParsingInterrupt may leave Commands.parse
    cmd = _parse(line)
    assert isinstance(cmd, InvalidCommand)


def test_thread_subject_with_many_prefixes() -> None:
    # R6.3: ThreadKey._subject recursed once per "Re:" prefix
    from pymap.threads import ThreadKey
    assert ThreadKey._subject('Re: ' * 5000 + 'hello') == 'hello'

"""Triage demonstrations for C11 (cd /repo && /venv/bin/python -m pytest
-c pyproject.toml /verif/triage/test_c11_defects.py -p no:cacheprovider)."""
import os
import tempfile

import pytest
from pymap.listtree import ListTree
from pymap.backend.maildir.layout import MaildirLayout
from pymap.backend.maildir.mailbox import Maildir, MailboxSet


# R11.2 ---------------------------------------------------------------
def test_star_matches_newline() -> None:
    tree = ListTree('/').update('INBOX', 'a\nb')
    names = [e.name for e in tree.list_matching('', '*')]
    assert 'a\nb' in names


def test_exact_name_does_not_match_trailing_newline() -> None:
    tree = ListTree('/').update('INBOX', 'foo\n')
    names = [e.name for e in tree.list_matching('', 'foo')]
    assert names == []


# R11.1 ---------------------------------------------------------------
@pytest.fixture(params=['++', 'fs'])
def mailbox_set(request):
    with tempfile.TemporaryDirectory() as tmp:
        path = os.path.join(tmp, 'store')
        maildir = Maildir(path, create=True)
        layout = MaildirLayout.get(path, request.param, Maildir)
        yield MailboxSet(maildir, layout)


async def test_create_existing_raises_valueerror(mailbox_set) -> None:
    await mailbox_set.add_mailbox('Work')
    with pytest.raises(ValueError):          # interface: ValueError
        await mailbox_set.add_mailbox('Work')


async def test_rename_missing_raises_keyerror(mailbox_set) -> None:
    with pytest.raises(KeyError):            # interface: KeyError
        await mailbox_set.rename_mailbox('Nope', 'Other')


async def test_rename_onto_existing_raises_valueerror(mailbox_set) -> None:
    await mailbox_set.add_mailbox('A')
    await mailbox_set.add_mailbox('B')
    with pytest.raises(ValueError):          # interface: ValueError
        await mailbox_set.rename_mailbox('A', 'B')


async def test_create_below_missing_parent_is_a_response_error(
        mailbox_set) -> None:
    from pymap.exceptions import ResponseError
    with pytest.raises((ResponseError, ValueError, KeyError)):
        await mailbox_set.add_mailbox('no/such/parent/child')

"""C01: the untagged FETCH responses of one command are merged by sequence
number (`* 3 FETCH (UID 103)` + `* 3 FETCH (FLAGS ..)`).  A UID command does
not defer expunges, so its response can contain `* n EXPUNGE` between the
handler's own FETCH lines (numbered before the expunge) and the flag updates
of the snapshot comparison (numbered after it).  The merge ignored that
boundary: the update for the message that is number 3 AFTER the expunge was
folded into the line of the message that was number 3 BEFORE it, and written
before the EXPUNGE:

    * 3 FETCH (UID 104 FLAGS (\\Draft \\Recent))      <- 3 is UID 103 here
    * 4 FETCH (UID 104)
    * 2 EXPUNGE

The client now holds UID 104 for both 3 and 4 and has lost UID 103.

Run: cd /repo && /venv/bin/python -m pytest -c pyproject.toml --timeout=20 \
        /verif/triage/test_c01_fetch_merge_across_expunge.py -p no:cacheprovider
"""
import sys

import pytest

sys.path.insert(0, '/repo/test')
from server.base import TestBase  # noqa: E402

pytestmark = pytest.mark.asyncio


class TestFetchMergeAcrossExpunge(TestBase):

    async def test_uid_fetch(self, imap_server) -> None:
        transport = self.new_transport(imap_server)
        concurrent = self.new_transport(imap_server)
        event1, event2 = self.new_events(2)

        concurrent.push_login()
        concurrent.push_select(b'INBOX', 4, 1, set=event1)
        concurrent.push_readline(
            b'fetch1 UID FETCH 101:104 (UID)\r\n', wait=event2)
        concurrent.push_write(
            b'* 1 FETCH (UID 101)\r\n'
            b'* 2 FETCH (UID 102)\r\n'
            b'* 3 FETCH (UID 103)\r\n'
            b'* 4 FETCH (UID 104)\r\n'
            b'* 2 EXPUNGE\r\n'
            b'* 3 FETCH (FLAGS (\\Draft \\Recent) UID 104)\r\n'
            b'fetch1 OK [EXPUNGEISSUED] UID FETCH completed.\r\n')
        concurrent.push_logout()

        transport.push_login()
        transport.push_select(b'INBOX', 4, 0, wait=event1)
        transport.push_readline(b'store1 STORE 2 +FLAGS (\\Deleted)\r\n')
        transport.push_write(
            b'* 2 FETCH (FLAGS (\\Answered \\Deleted \\Seen))\r\n'
            b'store1 OK STORE completed.\r\n')
        transport.push_readline(b'expunge1 EXPUNGE\r\n')
        transport.push_write(
            b'* 2 EXPUNGE\r\n'
            b'expunge1 OK EXPUNGE completed.\r\n')
        transport.push_readline(
            b'store2 STORE 3 +FLAGS (\\Draft)\r\n', set=event2)
        transport.push_write(
            b'* 3 FETCH (FLAGS (\\Draft))\r\n'
            b'store2 OK STORE completed.\r\n')
        transport.push_logout()
        await self.run(transport, concurrent)

"""Triage demonstration for C12/R12.1 (cd /repo && /venv/bin/python -m pytest
-c pyproject.toml /verif/triage/test_c12_defects.py -p no:cacheprovider)."""
from server.base import TestBase
from pymap.imap import IMAPServer


class TestC12(TestBase):

    async def test_move_from_examine_refused(
            self, imap_server: IMAPServer) -> None:
        transport = self.new_transport(imap_server)
        transport.push_login()
        transport.push_select(b'INBOX', 4, 1, examine=True)
        transport.push_readline(b'move1 MOVE 1 Sent\r\n')
        transport.push_write(
            b'move1 NO [READ-ONLY] Mailbox is read-only.\r\n')
        transport.push_select(b'INBOX', 4, 1)
        transport.push_logout()
        await self.run(transport)

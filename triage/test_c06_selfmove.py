"""Triage demonstration for C06/R6.8: maildir MOVE into the selected mailbox
itself (cd /repo && /venv/bin/python -m pytest -c pyproject.toml --timeout=20
/verif/triage/test_c06_selfmove.py -p no:cacheprovider)."""
import asyncio
import os
import tempfile
from datetime import datetime

from pymap.backend.maildir.mailbox import Maildir, MailboxData
from pymap.parsing.message import AppendMessage
from pymap.parsing.specials import ObjectId


async def test_move_into_the_same_mailbox_is_answered() -> None:
    with tempfile.TemporaryDirectory() as tmp:
        path = os.path.join(tmp, 'm')
        mbx = MailboxData(ObjectId.random_mailbox_id(),
                          Maildir(path, create=True), path)
        await mbx.reset()
        msg = await mbx.append(AppendMessage(
            b'Subject: x\r\n\r\nhi\r\n', datetime.now(), frozenset()))
        new_uid = await asyncio.wait_for(mbx.move(msg.uid, mbx), 3)
        assert new_uid is not None and new_uid != msg.uid
        uids = [m.uid async for m in mbx.messages()]
        assert uids == [new_uid]

"""C03 (KNOWN FINDING, not repaired): the octet count announced for a part in
BODY/BODYSTRUCTURE is len(<whole part, MIME header included>), while BODY[n]
returns the part's body only.  For a single-part message BODYSTRUCTURE says
RFC822.SIZE, not the size of BODY[1] / BODY[TEXT].

The existing suite pins the wrong numbers (test_fetch.py expects
`"7BIT" 1980 38` next to `RFC822.SIZE 1980`), so a repair cannot pass the
unedited suite; the finding is listed in KNOWN_FINDINGS.txt instead.

This demonstration FAILS on the current tree (that is the point).
Run: cd /repo && /venv/bin/python -m pytest -c pyproject.toml --timeout=20 \
        /verif/triage/test_c03_bodystructure_octets.py -p no:cacheprovider
"""
from pymap.message import BaseLoadedMessage
from pymap.mime import MessageContent

RAW = (b'From: a@example.com\r\nContent-Type: multipart/mixed; boundary=XX\r\n'
       b'\r\n--XX\r\nContent-Type: text/plain\r\n\r\nhello\r\n--XX\r\n'
       b'Content-Type: application/octet-stream\r\n\r\n12345678\r\n--XX--\r\n')


class _Loaded(BaseLoadedMessage):
    pass


def test_announced_octets_equal_returned_octets():
    content = MessageContent.parse(RAW)
    loaded = _Loaded(None, None, content)  # type: ignore
    struct = loaded.get_body_structure()
    for idx, sub in enumerate(struct.parts, 1):
        returned = bytes(loaded.get_body([idx]))
        assert sub.size == len(returned), \
            f'part {idx}: BODYSTRUCTURE says {sub.size} octets, BODY[{idx}] ' \
            f'returns {len(returned)}'

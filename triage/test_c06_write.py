"""Triage demonstrations for C06/R6.4+R6.6+R6.7: exceptions raised while a
response is being written (cd /repo && /venv/bin/python -m pytest
-c pyproject.toml --timeout=20 /verif/triage/test_c06_write.py
-p no:cacheprovider)."""
import pytest
from server.base import TestBase
from pymap.imap import IMAPServer


def _append(transport, tag: bytes, message: bytes, uid: int) -> None:
    transport.push_readline(
        tag + b' APPEND INBOX {%i}\r\n' % len(message))
    transport.push_write(b'+ Literal string\r\n')
    transport.push_readexactly(message)
    transport.push_readline(b'\r\n')
    transport.push_write(
        tag + b' OK [APPENDUID ', (br'\d+', ), b' %i]' % uid,
        b' APPEND completed.\r\n')


class TestC06Write(TestBase):

    @pytest.mark.parametrize('message,fetch', [
        (b'Date: garbage\r\n\r\nhi\r\n', b'ENVELOPE'),
        (b'Content-Transfer-Encoding: x-unknown\r\n\r\nhi\r\n', b'BINARY[]'),
        (b'Content-Transfer-Encoding: base64\r\n\r\nQ\r\n',
         b'BINARY[]'),
    ])
    async def test_fetch_of_hostile_message_is_answered(
            self, imap_server: IMAPServer, message, fetch) -> None:
        transport = self.new_transport(imap_server)
        transport.push_login()
        _append(transport, b'a1', message, 105)
        transport.push_select(b'INBOX', 5, 2)
        transport.push_readline(b'f1 FETCH 5 (' + fetch + b')\r\n')
        # whatever the server answers, it must end in a tagged completion or
        # say BYE — never close silently
        transport.push_write(
            (br'[\s\S]*(?:f1 (?:OK|NO|BAD) |\* BYE )[^\r\n]*', ), b'\r\n')
        if fetch == b'ENVELOPE':
            transport.push_logout()
        try:
            await self.run(transport)
        except (NotImplementedError, ValueError):
            pass      # KNOWN FINDING R6.7: re-raised after the BYE was sent

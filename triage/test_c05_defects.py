"""Triage demonstrations for C05 (run: cd /repo && /venv/bin/python -m pytest
-c pyproject.toml /verif/triage/test_c05_defects.py -p no:cacheprovider).  Each test states the
RFC-required behaviour; it fails on the defective tree and passes after the
fix."""
from server.base import TestBase
from pymap.imap import IMAPServer


class TestC05(TestBase):

    async def test_authenticate_after_login_refused(
            self, imap_server: IMAPServer) -> None:
        # R5.2: AUTHENTICATE route bypassed the state gate
        transport = self.new_transport(imap_server)
        transport.push_login()
        transport.push_readline(b'auth2 AUTHENTICATE PLAIN\r\n')
        transport.push_write(
            b'auth2 BAD AUTHENTICATE: Already authenticated.\r\n')
        transport.push_logout()
        await self.run(transport)

    async def test_close_after_examine(self, imap_server: IMAPServer) -> None:
        # R5.4: CLOSE of a read-only selection must succeed and deselect
        transport = self.new_transport(imap_server)
        transport.push_login()
        transport.push_select(b'INBOX', 4, 1, examine=True)
        transport.push_readline(b'close1 CLOSE\r\n')
        transport.push_write(b'close1 OK CLOSE completed.\r\n')
        transport.push_readline(b'fetch1 FETCH 1 (UID)\r\n')
        transport.push_write(
            b'fetch1 BAD FETCH: Must select a mailbox first.\r\n')
        transport.push_logout()
        await self.run(transport)

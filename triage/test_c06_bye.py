"""Triage demonstration for C06/R6.4 (cd /repo && /venv/bin/python -m pytest
-c pyproject.toml --timeout=20 /verif/triage/test_c06_bye.py
-p no:cacheprovider)."""
from server.base import TestBase
from pymap.imap import IMAPServer


class TestC06Bye(TestBase):

    async def test_too_many_errors_says_bye_before_closing(
            self, imap_server: IMAPServer) -> None:
        transport = self.new_transport(imap_server)
        limit = imap_server._config.bad_command_limit
        assert limit and limit < 20
        transport.push_write(
            b'* OK [CAPABILITY IMAP4rev1',
            (br'(?:\s+[a-zA-Z0-9=+-]+)*', ),
            b'] Server ready ',
            (br'\S+', ), b'\r\n')
        for i in range(limit - 1):
            transport.push_readline(b'x%d BOGUS\r\n' % i)
            transport.push_write(b'x%d BAD BOGUS: Unknown command.\r\n' % i)
        transport.push_readline(b'last BOGUS\r\n')
        transport.push_write(
            b'* BYE Too many errors, disconnecting.\r\n'
            b'last BAD BOGUS: Unknown command.\r\n')
        await self.run(transport)

"""C06: credentials a client can send made the third-party SASL code raise
ValueError, which nothing on the authentication path handled:
* LOGIN "\xff" "\xfe" (or any code point SASLprep prohibits): ValueError from
  the string preparation in UserMetadata.compare_authcid / compare_secret;
* AUTHENTICATE PLAIN with a response that is not valid UTF-8:
  UnicodeDecodeError from the mechanism's server_attempt().
Both were answered with `* BYE [SERVERBUG]` instead of a tagged NO.

Run: cd /repo && /venv/bin/python -m pytest -c pyproject.toml --timeout=20 \
        /verif/triage/test_c06_auth_garbage.py -p no:cacheprovider
"""
import base64
from server.base import TestBase
from pymap.imap import IMAPServer


class TestAuthGarbage(TestBase):

    async def test_login_8bit(self, imap_server: IMAPServer) -> None:
        transport = self.new_transport(imap_server)
        transport.push_write(
            b'* OK [CAPABILITY IMAP4rev1',
            (br'(?:\s+[a-zA-Z0-9=+-]+)*', ),
            b'] Server ready ',
            (br'\S+', ), b'\r\n')
        transport.push_readline(b'a1 LOGIN "\xff" "\xfe"\r\n')
        transport.push_write(b'a1 ', (br'(NO|BAD) [^\r\n]*', ), b'\r\n')
        transport.push_logout()
        await self.run(transport)

    async def test_auth_plain_bad_utf8(self, imap_server: IMAPServer) -> None:
        transport = self.new_transport(imap_server)
        transport.push_write(
            b'* OK [CAPABILITY IMAP4rev1',
            (br'(?:\s+[a-zA-Z0-9=+-]+)*', ),
            b'] Server ready ',
            (br'\S+', ), b'\r\n')
        transport.push_readline(b'a1 AUTHENTICATE PLAIN\r\n')
        transport.push_write(b'+ \r\n')
        transport.push_readexactly(b'')
        transport.push_readline(base64.b64encode(b'\x00\xff\xfe\x00\xfd') + b'\r\n')
        transport.push_write(b'a1 ', (br'(NO|BAD) [^\r\n]*', ), b'\r\n')
        transport.push_logout()
        await self.run(transport)

    async def test_login_prohibited_password(
            self, imap_server: IMAPServer) -> None:
        transport = self.new_transport(imap_server)
        transport.push_write(
            b'* OK [CAPABILITY IMAP4rev1',
            (br'(?:\s+[a-zA-Z0-9=+-]+)*', ),
            b'] Server ready ',
            (br'\S+', ), b'\r\n')
        transport.push_readline(b'a1 LOGIN testuser {1+}\r\n\x07\r\n')
        transport.push_write(b'a1 ', (br'(NO|BAD) [^\r\n]*', ), b'\r\n')
        transport.push_logout()
        await self.run(transport)

"""C16/C01: a command that is refused (NO) after do_store/do_fetch/do_search
already set `hide_expunged` (or silenced flags) leaves those marks on the
SelectedMailbox, because the selection is only forked -- and the marks only
reset -- when the handler returns normally.  The NEXT command then hides
EXPUNGE responses although it is a NOOP.

Run: cd /repo && /venv/bin/python -m pytest -c pyproject.toml --timeout=20 \
        /verif/triage/test_c16_failed_command_state.py -p no:cacheprovider
"""
from server.base import TestBase

from pymap.imap import IMAPServer


class TestFailedCommandState(TestBase):

    async def test_noop_after_refused_store_reports_expunge(
            self, imap_server: IMAPServer) -> None:
        reader = self.new_transport(imap_server)
        writer = self.new_transport(imap_server)
        event1, event2 = self.new_events(2)

        reader.push_login()
        reader.push_select(b'INBOX', 4, 1, examine=True)
        reader.push_readline(
            b'store1 STORE 1 +FLAGS (\\Flagged)\r\n')
        reader.push_write(
            b'store1 NO [READ-ONLY] Mailbox is read-only.\r\n',
            set=event1)
        reader.push_readline(
            b'noop1 NOOP\r\n', wait=event2)
        reader.push_write(
            b'* 4 EXPUNGE\r\n', (br'(\* \d+ RECENT\r\n)?', ),
            b'noop1 OK NOOP completed.\r\n')
        reader.push_logout()

        writer.push_login()
        writer.push_select(b'INBOX', wait=event1)
        writer.push_readline(
            b'store1 STORE 4 +FLAGS.SILENT (\\Deleted)\r\n')
        writer.push_write(
            b'store1 OK STORE completed.\r\n')
        writer.push_readline(
            b'expunge1 EXPUNGE\r\n')
        writer.push_write(
            b'* 4 EXPUNGE\r\n', (br'(\* \d+ RECENT\r\n)?', ),
            b'expunge1 OK EXPUNGE completed.\r\n', set=event2)
        writer.push_logout()

        await self.run(reader, writer)

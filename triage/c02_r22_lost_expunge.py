import asyncio
from datetime import datetime
from pymap.backend.dict.mailbox import MailboxData, _ContentCache, _ThreadCache
from pymap.parsing.message import AppendMessage
from pymap.selected import SelectedMailbox
from pymap.flags import PermanentFlags, SessionFlags, FlagOp
from pymap.parsing.specials.flag import Seen
from pymap.context import subsystem
async def main():
    mbx = MailboxData(_ContentCache(), _ThreadCache())
    for i in range(3):
        await mbx.append(AppendMessage(b'Subject: x\r\n\r\nbody%d\r\n' % i, datetime.now(), frozenset()))
    def sel():
        return SelectedMailbox(mbx.mailbox_id, False, PermanentFlags(mbx.permanent_flags), SessionFlags(mbx.session_flags), mbx.selected_set)
    A = await mbx.update_selected(sel()); B = await mbx.update_selected(sel())
    C = await mbx.update_selected(sel())
    uids = sorted(A.messages._uids); print('uids', uids)
    await mbx.delete([uids[1]])                       # A expunges 102
    cached = B.messages.get(uids[1])
    await mbx.update(uids[1], cached, frozenset({Seen}), FlagOp.ADD)   # B stores a flag on the expunged uid
    C = await mbx.update_selected(C)
    print('C view after NOOP:', sorted(C.messages._uids), 'actual:', sorted(mbx._messages))
    assert sorted(C.messages._uids) == sorted(mbx._messages), 'LOST EXPUNGE'
asyncio.run(main())

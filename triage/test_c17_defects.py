"""Triage demonstrations for C17 (cd /repo && /venv/bin/python -m pytest
-c pyproject.toml /verif/triage/test_c17_defects.py -p no:cacheprovider)."""
import os
import tempfile

from server.base import TestBase
from pymap.imap import IMAPServer


class TestC17(TestBase):

    async def test_examine_session_does_not_consume_recent(
            self, imap_server: IMAPServer) -> None:
        # R17.5: APPEND by a session that EXAMINEs the target mailbox
        transport = self.new_transport(imap_server)
        message = b'test message\r\n'
        transport.push_login()
        transport.push_select(b'Sent', 2, 0, examine=True)
        transport.push_readline(
            b'append1 APPEND Sent {%i}\r\n' % len(message))
        transport.push_write(b'+ Literal string\r\n')
        transport.push_readexactly(message)
        transport.push_readline(b'\r\n')
        transport.push_write(
            b'* 3 EXISTS\r\n'
            b'* 3 FETCH (FLAGS ())\r\n'
            b'append1 OK [APPENDUID ', (br'\d+', ), b' 103]'
            b' APPEND completed.\r\n')
        # the next read-write SELECT must be told about the recent message
        transport.push_select(b'Sent', 3, 1)
        transport.push_logout()
        await self.run(transport)


async def test_maildir_claim_recent_reports_all_new_messages(
        monkeypatch) -> None:
    # R17.7: maildir claim_recent matched against a one-shot generator.
    # os.listdir order is arbitrary; make it deterministic: ascending while
    # UIDs are assigned, descending when new/ is claimed.
    real_listdir = os.listdir
    order = {'reverse': False}
    monkeypatch.setattr(os, 'listdir', lambda p='.': sorted(
        real_listdir(p), reverse=order['reverse']))
    from pymap.backend.maildir.mailbox import Maildir, MailboxData
    from pymap.parsing.specials import ObjectId
    from pymap.selected import SelectedMailbox
    from pymap.flags import PermanentFlags, SessionFlags
    with tempfile.TemporaryDirectory() as tmp:
        path = os.path.join(tmp, 'mbx')
        maildir = Maildir(path, create=True)
        for i in range(6):
            with open(os.path.join(path, 'new', f'100{i}.M{i}.host'),
                      'wb') as fh:
                fh.write(b'Subject: %d\r\n\r\nbody\r\n' % i)
        mbx = MailboxData(ObjectId.random_mailbox_id(), maildir, path)
        await mbx.reset()
        selected = SelectedMailbox(mbx.mailbox_id, False,
                                   PermanentFlags(mbx.permanent_flags),
                                   SessionFlags(mbx.session_flags))
        order['reverse'] = True
        await mbx.claim_recent(selected)
        order['reverse'] = False
        assert len(os.listdir(os.path.join(path, 'new'))) == 0
        assert selected.session_flags.recent == 6

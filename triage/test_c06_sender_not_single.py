"""C06/C07: email.headerregistry.SingleAddressHeader.address raises
ValueError unless the header holds exactly one address.  The ENVELOPE writer
read it for every Sender header, while the FETCH line was being written:
a stored message with `Sender: a@b, c@d` (or an empty group) turned every
FETCH ENVELOPE of it into `* 5 FETCH (ENVELOPE * BYE [SERVERBUG] ...`.

Run: cd /repo && /venv/bin/python -m pytest -c pyproject.toml --timeout=20 \
        /verif/triage/test_c06_sender_not_single.py -p no:cacheprovider
"""
import sys

import pytest

sys.path.insert(0, '/repo/test')
from server.base import TestBase  # noqa: E402

from pymap.message import BaseLoadedMessage  # noqa: E402
from pymap.mime import MessageContent  # noqa: E402

MSG = b'From: x@y\r\nSender: a@b, c@d\r\nSubject: hello\r\n\r\nbody\r\n'


class _Loaded(BaseLoadedMessage):
    pass


@pytest.mark.parametrize('raw', [MSG, b'Sender: nobody:;\r\n\r\nbody\r\n'])
def test_envelope_renders(raw: bytes) -> None:
    loaded = _Loaded(None, None, MessageContent.parse(raw))  # type: ignore
    out = bytes(loaded.get_envelope_structure())
    assert out.startswith(b'(') and out.endswith(b')')


@pytest.mark.asyncio
class TestSenderNotSingle(TestBase):

    async def test_append_then_fetch_envelope(self, imap_server) -> None:
        transport = self.new_transport(imap_server)
        transport.push_login()
        transport.push_readline(b'a1 APPEND INBOX {%d}\r\n' % len(MSG))
        transport.push_write(b'+ Literal string\r\n')
        transport.push_readexactly(MSG)
        transport.push_readline(b'\r\n')
        transport.push_write(b'a1 OK [APPENDUID ', (br'\d+', ),
                             b' 105] APPEND completed.\r\n')
        transport.push_select(b'INBOX', 5, 2, 106, 3)
        transport.push_readline(b'a2 FETCH 5 (ENVELOPE)\r\n')
        transport.push_write(
            b'* 5 FETCH (ENVELOPE (NIL "hello" (("" NIL "x" "y")) '
            b'(("" NIL "a" "b") ("" NIL "c" "d")) (("" NIL "x" "y")) '
            b'NIL NIL NIL NIL NIL))'
            b'\r\na2 OK FETCH completed.\r\n')
        transport.push_logout()
        await self.run(transport)

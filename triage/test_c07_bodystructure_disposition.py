"""C07: RFC 3501 section 9: body-fld-dsp = "(" string SP body-fld-param ")"
/ nil.  The Content-Disposition header was written into that position as one
quoted string, so FETCH BODYSTRUCTURE of every message with an attachment
(`Content-Disposition: attachment; filename="x"`) did not parse under the
grammar:  ... NIL "attachment; filename=\\"x\\"" NIL NIL)

Run: cd /repo && /venv/bin/python -m pytest -c pyproject.toml --timeout=20 \
        /verif/triage/test_c07_bodystructure_disposition.py -p no:cacheprovider
"""
import pytest

from pymap.message import BaseLoadedMessage
from pymap.mime import MessageContent


class _Loaded(BaseLoadedMessage):
    pass


CASES = [
    (b'Content-Disposition: attachment; filename=x\r\n\r\nb',
     b'("attachment" ("filename" "x"))'),
    (b'Content-Disposition: inline\r\n\r\nb', b'("inline" NIL)'),
    (b'Content-Disposition: ;\r\n\r\nb', b'NIL'),
    (b'Subject: none\r\n\r\nb', b'NIL'),
]


@pytest.mark.parametrize('raw,dsp', CASES)
def test_disposition_position(raw: bytes, dsp: bytes) -> None:
    loaded = _Loaded(None, None, MessageContent.parse(raw))  # type: ignore
    out = bytes(loaded.get_body_structure().extended)
    # ("text" "plain" NIL NIL NIL "7BIT" <size> <lines> <md5> <dsp> <lang> <loc>)
    assert out.endswith(b' NIL ' + dsp + b' NIL NIL)'), out


def test_multipart_disposition() -> None:
    raw = (b'Content-Type: multipart/mixed; boundary=x\r\n'
           b'Content-Disposition: inline\r\n\r\n'
           b'--x\r\nContent-Disposition: attachment; filename="a b"\r\n\r\n'
           b'part\r\n--x--\r\n')
    loaded = _Loaded(None, None, MessageContent.parse(raw))  # type: ignore
    out = bytes(loaded.get_body_structure().extended)
    assert b'("attachment" ("filename" "a b"))' in out
    assert out.endswith(b'"mixed" ("boundary" "x") ("inline" NIL) NIL NIL)')

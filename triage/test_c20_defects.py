"""Triage demonstrations for C20 (cd /repo && /venv/bin/python -m pytest
-c pyproject.toml /verif/triage/test_c20_defects.py -p no:cacheprovider)."""
import asyncio

from pymap.concurrent import ReadWriteLock


async def test_second_reader_waits_for_writer() -> None:
    # R20.1: W in; R1 queued behind W; R2 must not enter while W holds
    lock = ReadWriteLock.for_asyncio()
    log: list[str] = []
    w_release = asyncio.Event()

    async def writer() -> None:
        async with lock.write_lock():
            log.append('W in')
            await w_release.wait()
            log.append('W out')

    async def reader(name: str) -> None:
        async with lock.read_lock():
            log.append(name + ' in')
            await asyncio.sleep(0)
            log.append(name + ' out')

    wt = asyncio.create_task(writer())
    await asyncio.sleep(0)
    r1 = asyncio.create_task(reader('R1'))
    await asyncio.sleep(0)
    await asyncio.sleep(0)
    r2 = asyncio.create_task(reader('R2'))
    for _ in range(5):
        await asyncio.sleep(0)
    w_release.set()
    await asyncio.gather(wt, r1, r2)
    assert log.index('W out') < log.index('R2 in'), log
    assert log.index('W out') < log.index('R1 in'), log


async def test_lock_usable_after_cancelled_reader() -> None:
    # R20.2: a reader cancelled while queued behind a writer leaks the count
    lock = ReadWriteLock.for_asyncio()
    w_release = asyncio.Event()
    log: list[str] = []

    async def writer(name: str, ev: asyncio.Event | None) -> None:
        async with lock.write_lock():
            log.append(name + ' in')
            if ev is not None:
                await ev.wait()
            else:
                await asyncio.sleep(0)
                await asyncio.sleep(0)
            log.append(name + ' out')

    async def reader(name: str) -> None:
        async with lock.read_lock():
            log.append(name + ' in')
            await asyncio.sleep(0)
            log.append(name + ' out')

    w1 = asyncio.create_task(writer('W1', w_release))
    await asyncio.sleep(0)
    r1 = asyncio.create_task(reader('R1'))
    for _ in range(3):
        await asyncio.sleep(0)
    r1.cancel()
    await asyncio.gather(r1, return_exceptions=True)
    w_release.set()
    await w1
    # now a writer and a reader: must exclude each other
    w2 = asyncio.create_task(writer('W2', None))
    await asyncio.sleep(0)
    r2 = asyncio.create_task(reader('R2'))
    await asyncio.gather(w2, r2)
    assert log.index('W2 out') < log.index('R2 in') or \
        log.index('R2 out') < log.index('W2 in'), log

"""Triage demonstration for C07/R7.1 (cd /repo && /venv/bin/python -m pytest
-c pyproject.toml /verif/triage/test_c07_defects.py -p no:cacheprovider)."""
from pymap.parsing import Params
from pymap.parsing.exceptions import NotParseable
from pymap.parsing.primitives import String, QuotedString


def test_build_never_emits_cr_inside_a_quoted_string() -> None:
    built = String.build(b'a\rb')
    wire = bytes(built)
    if isinstance(built, QuotedString):
        # whatever the server writes as a quoted string, its own reader (and
        # every client) must be able to parse
        try:
            QuotedString.parse(memoryview(wire), Params())
        except NotParseable:
            raise AssertionError(f'server wrote unparseable {wire!r}')
    assert b'\r' not in wire.split(b'\r\n', 1)[0] or not wire.startswith(b'"')

"""C06/C18: the LITERAL+ line collectors of both front ends test the
ACCUMULATED buffer instead of the line just read.

1. `a {0+}\r\n` followed by EOF: readexactly(0) and readline() at EOF both
   return b'' without suspending, the buffer still ends in `{0+}\r\n`, and the
   loop never ends and never yields: the whole server process hangs.
2. a literal whose content ends in `{9+}` followed by CRLF is mistaken for a
   second marker: 9 more bytes are swallowed into the command (framing
   depends on literal content).

Run: cd /repo && /venv/bin/python -m pytest -c pyproject.toml --timeout=20 \
        /verif/triage/c06_readline_eof_spin.py -p no:cacheprovider
"""
import asyncio

import pytest

from pymap.imap import IMAPConnection
from pymap.sieve.manage import ManageSieveConnection


class Spin(Exception):
    pass


def _conn(cls, data: bytes):
    reader = asyncio.StreamReader()
    reader.feed_data(data)
    reader.feed_eof()
    calls = 0
    orig = reader.readline

    async def counted():
        nonlocal calls
        calls += 1
        if calls > 1000:
            raise Spin()
        return await orig()
    reader.readline = counted
    conn = cls.__new__(cls)
    conn.reader = reader
    return conn


@pytest.mark.parametrize('cls,meth', [(IMAPConnection, 'readline'),
                                      (ManageSieveConnection, '_read_data')])
def test_zero_literal_then_eof(cls, meth):
    async def main():
        conn = _conn(cls, b'a NOOP {0+}\r\n')
        with pytest.raises(EOFError):
            await getattr(conn, meth)()
    asyncio.run(main())


@pytest.mark.parametrize('cls,meth', [(IMAPConnection, 'readline'),
                                      (ManageSieveConnection, '_read_data')])
def test_literal_tail_is_not_a_marker(cls, meth):
    async def main():
        conn = _conn(cls, b'a X {4+}\r\n{9+}\r\nb NOOP\r\nc NOOP\r\n')
        first = bytes(await getattr(conn, meth)())
        assert first == b'a X {4+}\r\n{9+}\r\n'
        second = bytes(await getattr(conn, meth)())
        assert second == b'b NOOP\r\n'
    asyncio.run(main())

"""C06: LIST/LSUB patterns were translated to a backtracking regular
expression ('*' -> '.*?', '%' -> '[^/]*?').  A pattern with k wildcards
that does not match costs O(n^k) steps: with one mailbox named 'a'*60,
`LIST "" "*a*a*a*a*a*a*a*a*b"` keeps the (single) event loop busy for
minutes -- every connection hangs.

Also a differential check of the replacement matcher against the old regex
translation on every (name, pattern) over a small alphabet.

Run: cd /repo && /venv/bin/python -m pytest -c pyproject.toml --timeout=60 \
        /verif/triage/test_c06_list_wildcards.py -p no:cacheprovider
"""
import itertools
import re
import time

from pymap.listtree import ListTree


def test_many_wildcards_do_not_blow_up():
    tree = ListTree('/')
    tree.update('INBOX', 'a' * 60)
    start = time.time()
    assert list(tree.list_matching('', '*a' * 12 + '*b')) == []
    assert time.time() - start < 2.0


def _old_match(delimiter, query, name):
    parts = []
    for part in re.split(r'([\*\%])', query):
        if part == '*':
            parts.append('.*?')
        elif part == '%':
            parts.append('[^' + re.escape(delimiter) + ']*?')
        else:
            parts.append(re.escape(part))
    pattern = '^' + ''.join(parts) + r'\Z'
    if name == 'INBOX':
        return re.compile(pattern, re.DOTALL | re.I).match(name) is not None
    return re.compile(pattern, re.DOTALL).match(name) is not None


def test_same_answers_as_the_regex_translation():
    alphabet_n = 'ab/\n'
    alphabet_q = 'ab/*%'
    names = [''.join(t) for k in range(1, 5)
             for t in itertools.product(alphabet_n, repeat=k)]
    names = [n for n in names if not n.startswith('/')
             and not n.endswith('/') and '//' not in n] + ['INBOX', 'Inbox']
    queries = [''.join(t) for k in range(0, 6)
               for t in itertools.product(alphabet_q, repeat=k)]
    queries += ['inbox', 'INB%', '%nbox', '*X', 'in*', 'Inbo%']
    tree = ListTree('/')
    tree.update(*names)
    listed = {e.name for e in tree.list()}
    for query in queries:
        got = {e.name for e in tree.list_matching('', query)}
        want = {n for n in listed if _old_match('/', query, n)}
        assert got == want, (query, got ^ want)

"""C06 ("within a bounded number of steps ... never stops serving other
connections"): ThreadKey._pattern was `<[^>]*>`, used with finditer() on the
References / In-Reply-To headers of every appended message.  The class
`[^>]` also contains "<", so on a run of "<" every start position scans to
the end of the header before failing: n*(n+1)/2 steps.  80 000 "<" took 2.5 s
on this machine, 800 000 about four minutes, and APPEND accepts literals up
to max_append_len (default 10**9) -- all on the one event loop that serves
every connection.  `<[^<>]*>` matches the same message ids and is linear.

Run: cd /repo && /venv/bin/python -m pytest -c pyproject.toml --timeout=60 \
        /verif/triage/test_c06_threadkey_quadratic.py -p no:cacheprovider
"""
import time

from pymap.mime import MessageContent
from pymap.threads import ThreadKey


def _keys(raw: bytes):
    return ThreadKey.get_all(MessageContent.parse(raw).header)


def test_run_of_angle_brackets_is_linear() -> None:
    raw = b'References: ' + b'<' * 200000 + b'\r\n\r\nbody\r\n'
    start = time.monotonic()
    _keys(raw)
    assert time.monotonic() - start < 2.0      # quadratic: about 15 s


def test_same_ids_as_before() -> None:
    raw = (b'Message-Id: <m@n>\r\nIn-Reply-To: <p@q>\r\n'
           b'References: <a@b> junk <c@d>\r\n <e@f>\r\n\r\nbody\r\n')
    assert len(_keys(raw)) == 5

"""Make /repo's own `test` package (not the stdlib one) importable for the
triage demonstrations."""
import os
import sys

REPO = os.environ.get('PYMAP_ROOT', '/repo')
sys.path.insert(0, os.path.join(REPO, "test"))
for k in [k for k in sys.modules if k == 'test' or k.startswith('test.')]:
    del sys.modules[k]

"""C02: SelectedMailbox.silence() computed the flags to silence from the
cached message's CURRENT permanent_flags.  On the dict backend the cached
message is the live, shared Message object, so a flag another session has
just set is folded into the silenced value: the .SILENT store also silences
the other session's change and this session is never told about it.

Run: cd /repo && /venv/bin/python -m pytest -c pyproject.toml --timeout=20 \
        /verif/triage/test_c02_silence_live_flags.py -p no:cacheprovider
"""
from server.base import TestBase

from pymap.imap import IMAPServer


class TestSilenceLiveFlags(TestBase):

    async def test_silent_store_still_reports_other_sessions_change(
            self, imap_server: IMAPServer) -> None:
        quiet = self.new_transport(imap_server)
        other = self.new_transport(imap_server)
        event1, event2 = self.new_events(2)

        quiet.push_login()
        quiet.push_select(b'INBOX', 4, 1, set=event1)
        quiet.push_readline(
            b'store1 STORE 1 +FLAGS.SILENT (\\Deleted)\r\n', wait=event2)
        quiet.push_write(
            b'* 1 FETCH (FLAGS (\\Deleted \\Flagged \\Seen))\r\n'
            b'store1 OK STORE completed.\r\n')
        quiet.push_logout()

        other.push_login()
        other.push_select(b'INBOX', wait=event1)
        other.push_readline(
            b'store1 STORE 1 +FLAGS (\\Flagged)\r\n')
        other.push_write(
            b'* 1 FETCH (FLAGS (\\Flagged \\Seen))\r\n'
            b'store1 OK STORE completed.\r\n', set=event2)
        other.push_logout()

        await self.run(quiet, other)

"""L0: parse every module of the package under $PYMAP_ROOT, build module,
class (with MRO) and function tables.  ast only."""
from __future__ import annotations

import ast
import hashlib
import os
from dataclasses import dataclass, field

__all__ = ['Project', 'AnchorError', 'Func', 'Cls', 'txt', 'norm']


class AnchorError(Exception):
    """A construct the rules are anchored at cannot be found: the tree cannot
    be analysed (exit 2), never a silent pass."""


def txt(node: ast.AST | None) -> str:
    return ast.unparse(node) if node is not None else ''


def norm(node: ast.AST | str) -> str:
    """Position-free normalised text of a construct (used in finding keys)."""
    s = node if isinstance(node, str) else ast.unparse(node)
    return ' '.join(s.split())[:160]


@dataclass(eq=False)
class Func:
    module: 'Module'
    qualname: str                      # Class.method or func or outer.inner
    node: ast.FunctionDef | ast.AsyncFunctionDef
    cls: 'Cls | None'

    @property
    def name(self) -> str:
        return self.node.name

    @property
    def is_async(self) -> bool:
        return isinstance(self.node, ast.AsyncFunctionDef)

    @property
    def rel(self) -> str:
        return self.module.rel

    @property
    def fq(self) -> str:
        return f'{self.module.rel}::{self.qualname}'

    @property
    def decorators(self) -> list[str]:
        return [txt(d) for d in self.node.decorator_list]

    def params(self) -> list[str]:
        a = self.node.args
        return [x.arg for x in a.posonlyargs + a.args + a.kwonlyargs]

    def __repr__(self) -> str:
        return f'<Func {self.fq}>'


@dataclass(eq=False)
class Cls:
    module: 'Module'
    name: str
    node: ast.ClassDef
    base_names: list[str]
    bases: list['Cls'] = field(default_factory=list)
    methods: dict[str, list[Func]] = field(default_factory=dict)
    _mro: list['Cls'] | None = None

    @property
    def rel(self) -> str:
        return self.module.rel

    @property
    def fq(self) -> str:
        return f'{self.module.rel}::{self.name}'

    def mro(self) -> list['Cls']:
        if self._mro is None:
            out: list[Cls] = [self]
            for b in self.bases:
                for x in b.mro():
                    if x not in out:
                        out.append(x)
            self._mro = out
        return self._mro

    def is_subclass_of(self, name: str) -> bool:
        return any(c.name == name for c in self.mro()) or \
            any(name in c.base_names for c in self.mro())

    def find_method(self, name: str, *, kind: str | None = None) \
            -> Func | None:
        """First definition of ``name`` along the MRO.  ``kind``: None =
        plain/first, 'setter' = the @x.setter variant."""
        for c in self.mro():
            for f in c.methods.get(name, []):
                is_setter = any(d.endswith('.setter') for d in f.decorators)
                if (kind == 'setter') == is_setter:
                    return f
        return None

    def own_method(self, name: str) -> Func | None:
        for f in self.methods.get(name, []):
            if not any(d.endswith('.setter') for d in f.decorators):
                return f
        return None

    def class_assigns(self) -> dict[str, ast.expr]:
        out: dict[str, ast.expr] = {}
        for b in self.node.body:
            if isinstance(b, ast.Assign) and len(b.targets) == 1 and \
                    isinstance(b.targets[0], ast.Name):
                out[b.targets[0].id] = b.value
            elif isinstance(b, ast.AnnAssign) and b.value is not None and \
                    isinstance(b.target, ast.Name):
                out[b.target.id] = b.value
        return out

    def find_attr(self, name: str) -> tuple['Cls', ast.expr] | None:
        for c in self.mro():
            a = c.class_assigns()
            if name in a:
                return c, a[name]
        return None

    def __repr__(self) -> str:
        return f'<Cls {self.fq}>'


@dataclass(eq=False)
class Module:
    rel: str            # e.g. pymap/selected.py
    path: str
    src: str
    tree: ast.Module
    funcs: dict[str, Func] = field(default_factory=dict)
    classes: dict[str, Cls] = field(default_factory=dict)
    imports: dict[str, tuple[str, str]] = field(default_factory=dict)
    # local name -> (module dotted, original name)

    @property
    def dotted(self) -> str:
        d = self.rel[:-3].replace('/', '.')
        if d.endswith('.__init__'):
            d = d[:-9]
        return d

    def module_assigns(self) -> dict[str, ast.expr]:
        out: dict[str, ast.expr] = {}
        for b in self.tree.body:
            if isinstance(b, ast.Assign) and len(b.targets) == 1 and \
                    isinstance(b.targets[0], ast.Name):
                out[b.targets[0].id] = b.value
            elif isinstance(b, ast.AnnAssign) and b.value is not None and \
                    isinstance(b.target, ast.Name):
                out[b.target.id] = b.value
        return out


class Project:

    def __init__(self, root: str | None = None, package: str = 'pymap'):
        self.root = os.path.abspath(
            root or os.environ.get('PYMAP_ROOT', '/repo'))
        self.package = package
        self.modules: dict[str, Module] = {}
        self._by_dotted: dict[str, Module] = {}
        self.consulted: set[str] = set()
        self.normalize_log: list[str] = []
        self._load()
        if not os.environ.get('SA_NO_NORMALIZE'):
            self._normalize()
        self._link()

    # ------------------------------------------------------------------
    def _load(self) -> None:
        base = os.path.join(self.root, self.package)
        if not os.path.isdir(base):
            raise AnchorError(f'package directory not found: {base}')
        for dirpath, dirnames, filenames in os.walk(base):
            dirnames[:] = sorted(d for d in dirnames if d != '__pycache__')
            for fn in sorted(filenames):
                if not fn.endswith('.py'):
                    continue
                path = os.path.join(dirpath, fn)
                rel = os.path.relpath(path, self.root)
                with open(path, encoding='utf-8') as fh:
                    src = fh.read()
                try:
                    tree = ast.parse(src, filename=path)
                except SyntaxError as exc:
                    raise AnchorError(f'syntax error in {rel}: {exc}')
                mod = Module(rel, path, src, tree)
                self.modules[rel] = mod
                self._by_dotted[mod.dotted] = mod
                self._index(mod)

    def _normalize(self) -> None:
        """Expand names that are new relative to the audited baseline (new
        private helpers, single-assignment pure locals, literal constants):
        see sa/normalize.py.  The unchanged tree is not touched."""
        from .normalize import Normalizer
        nz = Normalizer({rel: m.tree for rel, m in self.modules.items()})
        self.normalize_log = nz.run()
        if not self.normalize_log:
            return
        for mod in self.modules.values():
            mod.funcs.clear()
            mod.classes.clear()
            mod.imports.clear()
            for attr in ('_class_assigns', '_module_assigns'):
                if hasattr(mod, attr):
                    delattr(mod, attr)
            self._index(mod)

    def _index(self, mod: Module) -> None:
        for n in ast.walk(mod.tree):
            if isinstance(n, ast.ImportFrom):
                level = n.level
                if level:
                    pkg = mod.dotted.split('.')
                    if not mod.rel.endswith('__init__.py'):
                        pkg = pkg[:-1]
                    if level > 1:
                        pkg = pkg[:-(level - 1)]
                    src = '.'.join(pkg + ([n.module] if n.module else []))
                else:
                    src = n.module or ''
                for a in n.names:
                    mod.imports[a.asname or a.name] = (src, a.name)
            elif isinstance(n, ast.Import):
                for a in n.names:
                    mod.imports[(a.asname or a.name).split('.')[0]] = \
                        (a.name, '')

        def visit(node: ast.AST, prefix: str, cls: Cls | None) -> None:
            for ch in ast.iter_child_nodes(node):
                if isinstance(ch, ast.ClassDef):
                    bnames = []
                    for b in ch.bases:
                        t = txt(b).split('[')[0]
                        bnames.append(t.split('.')[-1])
                    c = Cls(mod, prefix + ch.name, ch, bnames)
                    mod.classes[c.name] = c
                    visit(ch, prefix + ch.name + '.', c)
                elif isinstance(ch, (ast.FunctionDef, ast.AsyncFunctionDef)):
                    q = prefix + ch.name
                    f = Func(mod, q, ch, cls)
                    if cls is not None and prefix == cls.name + '.':
                        cls.methods.setdefault(ch.name, []).append(f)
                    is_setter = any(txt(d).endswith(('.setter', '.deleter'))
                                    for d in ch.decorator_list)
                    key = q + ('@setter' if is_setter else '')
                    if key in mod.funcs:      # overloads etc.
                        k = 2
                        while f'{key}#{k}' in mod.funcs:
                            k += 1
                        key = f'{key}#{k}'
                    mod.funcs[key] = f
                    visit(ch, q + '.', cls)
                elif isinstance(ch, (ast.If, ast.Try, ast.With)):
                    visit(ch, prefix, cls)
        visit(mod.tree, '', None)

    def _link(self) -> None:
        for mod in self.modules.values():
            for c in mod.classes.values():
                for bn in c.base_names:
                    b = self.resolve_class(mod, bn)
                    if b is not None and b is not c:
                        c.bases.append(b)

    # ------------------------------------------------------------------
    def resolve_class(self, mod: Module, name: str, _depth: int = 0) \
            -> Cls | None:
        if name in mod.classes:
            return mod.classes[name]
        if name in mod.imports and _depth < 6:
            src, orig = mod.imports[name]
            m = self._by_dotted.get(src)
            if m is not None:
                return self.resolve_class(m, orig, _depth + 1)
            # from package import submodule-level re-export
            m = self._by_dotted.get(src + '.' + orig)
        return None

    def resolve_name(self, mod: Module, name: str, _depth: int = 0):
        """Resolve a module-level name to ('class', Cls) / ('func', Func) /
        ('value', Module, expr) across imports."""
        if name in mod.classes:
            return ('class', mod.classes[name])
        if name in mod.funcs and '.' not in name:
            return ('func', mod.funcs[name])
        assigns = mod.module_assigns()
        if name in assigns:
            return ('value', mod, assigns[name])
        if name in mod.imports and _depth < 6:
            src, orig = mod.imports[name]
            m = self._by_dotted.get(src)
            if m is not None and orig:
                return self.resolve_name(m, orig, _depth + 1)
        return None

    # ------------------------------------------------------------------
    def module(self, rel: str) -> Module:
        m = self.modules.get(rel)
        if m is None:
            raise AnchorError(f'module vanished: {rel}')
        self.consulted.add(rel)
        return m

    def has_module(self, rel: str) -> bool:
        return rel in self.modules

    def func(self, rel: str, qualname: str) -> Func:
        m = self.module(rel)
        f = m.funcs.get(qualname)
        if f is None:
            raise AnchorError(f'function vanished: {rel}::{qualname}')
        return f

    def try_func(self, rel: str, qualname: str) -> Func | None:
        m = self.modules.get(rel)
        if m is None:
            return None
        self.consulted.add(rel)
        return m.funcs.get(qualname)

    def cls(self, rel: str, name: str) -> Cls:
        m = self.module(rel)
        c = m.classes.get(name)
        if c is None:
            raise AnchorError(f'class vanished: {rel}::{name}')
        return c

    def all_funcs(self, prefix: str = '') -> list[Func]:
        out = []
        for rel, m in self.modules.items():
            if rel.startswith(prefix):
                self.consulted.add(rel)
                out.extend(m.funcs.values())
        return out

    def all_classes(self, prefix: str = '') -> list[Cls]:
        out = []
        for rel, m in self.modules.items():
            if rel.startswith(prefix):
                self.consulted.add(rel)
                out.extend(m.classes.values())
        return out

    def subclasses(self, base: Cls | str, prefix: str = '') -> list[Cls]:
        out = []
        for c in self.all_classes(prefix):
            if isinstance(base, str):
                if c.name != base and c.is_subclass_of(base):
                    out.append(c)
            elif c is not base and base in c.mro():
                out.append(c)
        return out

    def digest(self, rels: set[str] | None = None) -> str:
        h = hashlib.sha256()
        for rel in sorted(rels if rels is not None else self.modules):
            m = self.modules.get(rel)
            if m is not None:
                h.update(rel.encode())
                h.update(m.src.encode())
        return h.hexdigest()

"""L2: local facts — call/attribute shapes, def-use inside one function,
writers of a field across the package, guard recognition."""
from __future__ import annotations

import ast
from collections.abc import Iterable, Iterator

from .cfg import CFG, Node, walk_local, NORMAL, ALL
from .loader import Func, Project, txt

__all__ = ['call_name', 'call_recv', 'calls_in', 'bind_args', 'targets_of',
           'attr_stores', 'writers_of', 'local_assigns', 'resolve_local',
           'is_raise_only', 'guard_atoms', 'cfg_of', 'names_in',
           'attr_chain', 'const_value', 'contains_call', 'find_calls',
           'mentions', 'stmt_is_raise', 'first_arg', 'kwarg', 'is_name',
           'is_attr', 'enclosing', 'parents_map', 'dominating_tests',
           'strip_await', 'eval_static', 'eval_return']

_cfg_cache: dict[int, CFG] = {}


def cfg_of(f: Func) -> CFG:
    c = _cfg_cache.get(id(f.node))
    if c is None:
        c = CFG(f.node)
        _cfg_cache[id(f.node)] = c
    return c


def strip_await(e: ast.AST) -> ast.AST:
    while isinstance(e, ast.Await):
        e = e.value
    return e


def call_name(c: ast.Call) -> str:
    f = c.func
    if isinstance(f, ast.Attribute):
        return f.attr
    if isinstance(f, ast.Name):
        return f.id
    return ''


def call_recv(c: ast.Call) -> ast.AST | None:
    f = c.func
    if isinstance(f, ast.Attribute):
        return f.value
    return None


def attr_chain(e: ast.AST) -> list[str]:
    """a.b.c -> ['a','b','c']; a.b().c -> ['a','b()','c']"""
    out: list[str] = []
    while True:
        if isinstance(e, ast.Attribute):
            out.append(e.attr)
            e = e.value
        elif isinstance(e, ast.Call):
            if isinstance(e.func, ast.Attribute):
                out.append(e.func.attr + '()')
                e = e.func.value
            elif isinstance(e.func, ast.Name):
                out.append(e.func.id + '()')
                break
            else:
                out.append('?()')
                break
        elif isinstance(e, ast.Name):
            out.append(e.id)
            break
        elif isinstance(e, ast.Await):
            e = e.value
        else:
            out.append('?')
            break
    return list(reversed(out))


def is_name(e: ast.AST | None, name: str) -> bool:
    return isinstance(e, ast.Name) and e.id == name


def is_attr(e: ast.AST | None, attr: str, base: str | None = None) -> bool:
    if not isinstance(e, ast.Attribute) or e.attr != attr:
        return False
    return base is None or is_name(e.value, base)


def calls_in(node: ast.AST | Node, name: str | None = None) \
        -> Iterator[ast.Call]:
    it = node.walk() if isinstance(node, Node) else \
        walk_local(node, into_first=True)
    for n in it:
        if isinstance(n, ast.Call) and (name is None
                                        or call_name(n) == name):
            yield n


def find_calls(f: Func, name: str) -> list[ast.Call]:
    return list(calls_in(f.node, name))


def contains_call(node: ast.AST | Node, name: str) -> bool:
    return next(calls_in(node, name), None) is not None


def names_in(node: ast.AST) -> set[str]:
    return {n.id for n in ast.walk(node) if isinstance(n, ast.Name)}


def mentions(node: ast.AST, text: str) -> bool:
    """Some sub-expression unparses to exactly ``text``."""
    for n in ast.walk(node):
        if isinstance(n, (ast.Attribute, ast.Name, ast.Call, ast.Subscript)):
            if txt(n) == text:
                return True
    return False


def first_arg(c: ast.Call) -> ast.AST | None:
    return c.args[0] if c.args else None


def kwarg(c: ast.Call, name: str) -> ast.AST | None:
    for k in c.keywords:
        if k.arg == name:
            return k.value
    return None


def const_value(e: ast.AST | None):
    """Evaluate literal constants incl. concatenation / unary minus; returns
    (True, value) or (False, None)."""
    if e is None:
        return False, None
    try:
        return True, ast.literal_eval(e)
    except Exception:
        pass
    if isinstance(e, ast.Call) and isinstance(e.func, ast.Name) and \
            e.func.id in ('frozenset', 'tuple', 'set', 'list') and \
            len(e.args) <= 1 and not e.keywords:
        if not e.args:
            return True, {'frozenset': frozenset(), 'tuple': (),
                          'set': set(), 'list': []}[e.func.id]
        ok, v = const_value(e.args[0])
        if ok:
            try:
                return True, {'frozenset': frozenset, 'tuple': tuple,
                              'set': set, 'list': list}[e.func.id](v)
            except Exception:
                return False, None
    if isinstance(e, ast.BinOp) and isinstance(e.op, (ast.Add, ast.Mod)):
        a, av = const_value(e.left)
        b, bv = const_value(e.right)
        if a and b:
            try:
                return True, (av + bv if isinstance(e.op, ast.Add)
                              else av % bv)
            except Exception:
                return False, None
    return False, None


def bind_args(callee: Func, call: ast.Call) -> dict[str, ast.AST]:
    """Map callee parameter names to the argument expressions of ``call``.
    ``self``/``cls`` are skipped for attribute calls and bound methods."""
    a = callee.node.args
    pos = [x.arg for x in a.posonlyargs + a.args]
    is_method = callee.cls is not None and \
        'staticmethod' not in callee.decorators
    if is_method and pos and pos[0] in ('self', 'cls'):
        pos = pos[1:]
    out: dict[str, ast.AST] = {}
    for p, arg in zip(pos, call.args):
        if isinstance(arg, ast.Starred):
            break
        out[p] = arg
    for k in call.keywords:
        if k.arg:
            out[k.arg] = k.value
    # defaults
    defaults = a.defaults
    allpos = [x.arg for x in a.posonlyargs + a.args]
    for p, d in zip(allpos[len(allpos) - len(defaults):], defaults):
        out.setdefault(p, d)
    for p, d in zip(a.kwonlyargs, a.kw_defaults):
        if d is not None:
            out.setdefault(p.arg, d)
    return out


def targets_of(s: ast.AST) -> list[ast.AST]:
    """Flattened store targets of a statement."""
    tg: list[ast.AST] = []
    if isinstance(s, ast.Assign):
        tg = list(s.targets)
    elif isinstance(s, (ast.AugAssign, ast.AnnAssign)):
        tg = [s.target]
    elif isinstance(s, ast.Delete):
        tg = list(s.targets)
    elif isinstance(s, (ast.For, ast.AsyncFor)):
        tg = [s.target]
    elif isinstance(s, (ast.With, ast.AsyncWith)):
        tg = [i.optional_vars for i in s.items if i.optional_vars is not None]
    elif isinstance(s, ast.NamedExpr):
        tg = [s.target]
    out: list[ast.AST] = []
    stack = tg[::-1]
    while stack:
        t = stack.pop()
        if isinstance(t, (ast.Tuple, ast.List)):
            stack.extend(reversed(t.elts))
        elif isinstance(t, ast.Starred):
            stack.append(t.value)
        else:
            out.append(t)
    return out


def attr_stores(root: ast.AST, attr: str) -> list[tuple[ast.AST, ast.AST]]:
    """(statement, target) pairs storing to ``<anything>.attr`` (assignment,
    augmented assignment, deletion, for/with targets) under ``root``."""
    out = []
    for s in walk_local(root):
        for t in targets_of(s):
            if isinstance(t, ast.Attribute) and t.attr == attr:
                out.append((s, t))
    return out


def writers_of(proj: Project, attr: str, prefix: str = 'pymap/') \
        -> list[tuple[Func | None, ast.AST, ast.AST, str]]:
    """All stores to ``X.attr`` in the package: (func, stmt, target, rel).
    Includes ``setattr(X, 'attr', …)`` calls and stores at module/class
    level (func None)."""
    out: list[tuple[Func | None, ast.AST, ast.AST, str]] = []
    for rel, m in proj.modules.items():
        if not rel.startswith(prefix):
            continue
        if attr not in m.src:
            continue
        proj.consulted.add(rel)
        owner: dict[int, Func] = {}
        for f in m.funcs.values():
            for n in walk_local(f.node):
                owner.setdefault(id(n), f)
        # innermost function wins: process longer qualnames last
        for f in sorted(m.funcs.values(), key=lambda f: f.qualname.count('.')):
            for n in walk_local(f.node):
                owner[id(n)] = f
        for s in ast.walk(m.tree):
            for t in targets_of(s):
                if isinstance(t, ast.Attribute) and t.attr == attr:
                    out.append((owner.get(id(s)), s, t, rel))
            if isinstance(s, ast.Call) and call_name(s) == 'setattr' and \
                    len(s.args) >= 2:
                ok, v = const_value(s.args[1])
                if ok and v == attr:
                    out.append((owner.get(id(s)), s, s.args[0], rel))
    return out


def local_assigns(f: Func, name: str) -> list[tuple[ast.AST, ast.AST | None]]:
    """(statement, value-or-None) for every binding of local ``name``.  For
    tuple unpacking the value is the whole RHS (None when it cannot be
    attributed)."""
    out: list[tuple[ast.AST, ast.AST | None]] = []
    for s in walk_local(f.node):
        if isinstance(s, ast.Assign):
            for t in s.targets:
                if is_name(t, name):
                    out.append((s, s.value))
                elif isinstance(t, (ast.Tuple, ast.List)):
                    for idx, el in enumerate(t.elts):
                        if is_name(el, name):
                            v = strip_await(s.value)
                            if isinstance(v, (ast.Tuple, ast.List)) and \
                                    len(v.elts) == len(t.elts):
                                out.append((s, v.elts[idx]))
                            else:
                                out.append((s, ast.Subscript(
                                    value=s.value,
                                    slice=ast.Constant(idx),
                                    ctx=ast.Load())))
        elif isinstance(s, ast.AnnAssign) and is_name(s.target, name):
            if s.value is not None:
                out.append((s, s.value))
        elif isinstance(s, ast.AugAssign) and is_name(s.target, name):
            out.append((s, s))
        elif isinstance(s, ast.NamedExpr) and is_name(s.target, name):
            out.append((s, s.value))
        elif isinstance(s, (ast.For, ast.AsyncFor, ast.comprehension)):
            for t in targets_of(s) if not isinstance(s, ast.comprehension) \
                    else [s.target]:
                for el in ast.walk(t):
                    if is_name(el, name):
                        out.append((s, None))
        elif isinstance(s, (ast.With, ast.AsyncWith)):
            for i in s.items:
                if i.optional_vars is not None and \
                        any(is_name(el, name)
                            for el in ast.walk(i.optional_vars)):
                    out.append((s, i.context_expr))
    return out


def resolve_local(f: Func, e: ast.AST, depth: int = 4) -> list[ast.AST]:
    """Expand a local Name to the expression(s) it was assigned from
    (single-assignment chains only); other expressions are returned as is."""
    e = strip_await(e)
    if depth and isinstance(e, ast.IfExp):
        # `a if c else b` denotes either value (as two guarded assignments)
        return resolve_local(f, e.body, depth - 1) + \
            resolve_local(f, e.orelse, depth - 1)
    if depth and isinstance(e, ast.Name) and e.id not in f.params():
        defs = local_assigns(f, e.id)
        vals = [v for _, v in defs if v is not None
                and not isinstance(v, ast.AugAssign)]
        if vals and len(vals) == len(defs):
            out: list[ast.AST] = []
            for v in vals:
                out.extend(resolve_local(f, v, depth - 1))
            return out
    return [e]


def reaching_values(f: Func, use: ast.Name,
                    truthy_only: set | None = None) -> list[ast.AST] | None:
    """Values of the definitions of local `use.id` that REACH this use
    (flow-sensitive: a definition counts when the use is reachable from it
    without passing another definition of the same name).  None when the
    name is a parameter, has no local definition, or a definition has no
    attributable value.  When ``truthy_only`` (a set) is given, the ids of
    the values that reach the use only along paths on which the name has
    been tested truthy are added to it."""
    if use.id in f.params():
        return None
    defs = local_assigns(f, use.id)
    if not defs or any(v is None or isinstance(v, ast.AugAssign)
                       for _, v in defs):
        return None
    cfg = cfg_of(f)
    uses = cfg.node_containing(use)
    if not uses:
        return None
    dnodes = []
    for st, v in defs:
        ns = [n for n in cfg.nodes if n.stmt is st] or \
            cfg.node_containing(v)
        if not ns:
            return None
        dnodes.append((ns[0], v))
    out = []
    # edges after which the name is known to be truthy: a path that avoids
    # all of them may still carry a falsy value
    falsy = []
    if truthy_only is not None:
        for t in cfg.nodes:
            if t.kind == 'test' and getattr(t.stmt, 'test', None) is not None:
                at = guard_atoms(t.stmt.test)
                if len(at) == 1 and at[0][0] == use.id:
                    falsy.append((t, 't' if at[0][1] else 'f'))
    for dn, v in dnodes:
        others = [n for n, _ in dnodes if n is not dn]
        r = cfg.reach([dn], avoid=others)
        if any(u in r or u is dn for u in uses):
            out.append(v)
            if truthy_only is not None and falsy:
                r2 = cfg.reach([dn], avoid=others, skip_edges=falsy)
                if not any(u in r2 for u in uses):
                    truthy_only.add(id(v))
    return out or None


def stmt_is_raise(s: ast.AST) -> bool:
    return isinstance(s, ast.Raise)


def is_raise_only(body: list[ast.stmt]) -> bool:
    """The suite always ends in raise (possibly after simple statements)."""
    return bool(body) and isinstance(body[-1], ast.Raise)


def guard_atoms(test: ast.AST) -> list[tuple[str, bool]]:
    """Top-level conjuncts of a test as (text, polarity)."""
    out: list[tuple[str, bool]] = []

    def go(e: ast.AST, pol: bool) -> None:
        if isinstance(e, ast.BoolOp) and isinstance(e.op, ast.And) and pol:
            for v in e.values:
                go(v, pol)
        elif isinstance(e, ast.BoolOp) and isinstance(e.op, ast.Or) \
                and not pol:
            for v in e.values:
                go(v, pol)
        elif isinstance(e, ast.UnaryOp) and isinstance(e.op, ast.Not):
            go(e.operand, not pol)
        elif isinstance(e, ast.Compare) and len(e.ops) == 1 and \
                isinstance(e.ops[0], (ast.Is, ast.IsNot, ast.Eq, ast.NotEq)) \
                and isinstance(e.comparators[0], ast.Constant) and \
                e.comparators[0].value is None:
            neg = isinstance(e.ops[0], (ast.Is, ast.Eq))
            out.append((txt(e.left), pol != neg))
        elif isinstance(e, ast.Compare) and len(e.ops) == 1 and \
                isinstance(e.ops[0], ast.IsNot):
            out.append((f'{txt(e.left)} is {txt(e.comparators[0])}',
                        not pol))
        elif isinstance(e, ast.Compare) and len(e.ops) == 1 and \
                isinstance(e.ops[0], ast.NotEq):
            out.append((f'{txt(e.left)} == {txt(e.comparators[0])}',
                        not pol))
        elif isinstance(e, ast.Compare) and len(e.ops) == 1 and \
                isinstance(e.ops[0], ast.NotIn):
            out.append((f'{txt(e.left)} in {txt(e.comparators[0])}',
                        not pol))
        elif isinstance(e, ast.Call) and isinstance(e.func, ast.Name) and \
                e.func.id == 'bool' and len(e.args) == 1:
            go(e.args[0], pol)
        else:
            out.append((txt(e), pol))
    go(test, True)
    return out


def runs_only_when(cfg, n, atom: str, value: bool) -> bool:
    """Node n is control-dependent on a test that fixes ``atom`` (text as
    produced by guard_atoms) to ``value``: a conjunct on the true edge, or a
    conjunct of the negation on the false edge -- so `if not x: return` and
    `if x: ... else: return` are the same fact about the return."""
    for t in cfg.nodes:
        if t.kind != 'test':
            continue
        test = getattr(t.stmt, 'test', None)
        if test is None:
            continue
        for a, pol in guard_atoms(test):
            if a == atom and pol == value and cfg.controlled_by(n, t, 't'):
                return True
        neg = guard_atoms(ast.UnaryOp(ast.Not(), test))
        for a, pol in neg:
            if a == atom and pol == value and cfg.controlled_by(n, t, 'f'):
                return True
    return False


def built_sequence(f, e: ast.AST):
    """Describe how a list/sequence value is produced, whichever way it is
    written: a comprehension `[elt for tgt in it if c]`, or a local that
    starts as `[]` and is filled by `.append(elt)` inside (async) for loops.
    Returns [{'iter', 'target', 'elt', 'ifs', 'site'}] (one entry per
    producing site) or None when the shape is something else."""
    e = strip_await(e)
    if isinstance(e, (ast.ListComp, ast.GeneratorExp, ast.SetComp)):
        if len(e.generators) != 1:
            return None
        g = e.generators[0]
        return [{'iter': g.iter, 'target': g.target, 'elt': e.elt,
                 'ifs': list(g.ifs), 'site': e}]
    if isinstance(e, ast.Call) and call_name(e) in ('list', 'tuple',
                                                    'frozenset', 'sorted') \
            and len(e.args) == 1:
        return built_sequence(f, e.args[0])
    if isinstance(e, ast.Name) and e.id not in f.params():
        defs = [v for _, v in local_assigns(f, e.id)]
        if not defs:
            return None
        if len(defs) == 1 and defs[0] is not None and not (
                isinstance(defs[0], ast.List) and not defs[0].elts):
            return built_sequence(f, defs[0])
        if not all(isinstance(d, ast.List) and not d.elts for d in defs):
            return None
        out = []
        for c in calls_in(f.node):
            if not (isinstance(c.func, ast.Attribute)
                    and is_name(c.func.value, e.id)):
                continue
            if c.func.attr != 'append' or len(c.args) != 1:
                if c.func.attr in ('extend', 'insert', 'remove', 'pop',
                                   'clear', 'sort', 'reverse'):
                    return None
                continue
            loops = enclosing(f.node, c, (ast.For, ast.AsyncFor))
            if len(loops) != 1:
                return None
            conds = [t.test for t in enclosing(f.node, c, (ast.If,))
                     if any(t is x for x in ast.walk(loops[0]))]
            out.append({'iter': loops[0].iter, 'target': loops[0].target,
                        'elt': c.args[0], 'ifs': conds, 'site': c,
                        'loop': loops[0]})
        return out or None
    return None


def truth_table(fn: ast.AST, atoms: list[str]):
    """The boolean function a small function body computes, as a table over
    the given atom expressions (matched by source text): statements may be
    if / return / pass / docstring, values are and / or / not / True / False
    / atoms.  None when something else occurs.  (Enumeration of a finite
    boolean function over syntactic atoms: a truth table, not an execution
    of the program.)"""
    import itertools

    class Unknown(Exception):
        pass

    def ev(e, env):
        t = txt(e)
        if t in env:
            return env[t]
        if isinstance(e, ast.Constant) and isinstance(e.value, bool):
            return e.value
        if isinstance(e, ast.UnaryOp) and isinstance(e.op, ast.Not):
            return not ev(e.operand, env)
        if isinstance(e, ast.BoolOp):
            vals = [ev(v, env) for v in e.values]
            return all(vals) if isinstance(e.op, ast.And) else any(vals)
        if isinstance(e, ast.IfExp):
            return ev(e.body, env) if ev(e.test, env) else ev(e.orelse, env)
        if isinstance(e, ast.Call) and isinstance(e.func, ast.Name) and \
                e.func.id == 'bool' and len(e.args) == 1:
            return ev(e.args[0], env)
        raise Unknown(t)

    def run(stmts, env):
        for s in stmts:
            if isinstance(s, ast.Expr) and isinstance(s.value, ast.Constant):
                continue
            if isinstance(s, ast.Pass):
                continue
            if isinstance(s, ast.Return):
                if s.value is None:
                    raise Unknown('return None')
                return ev(s.value, env)
            if isinstance(s, ast.If):
                r = run(s.body if ev(s.test, env) else s.orelse, env)
                if r is not None:
                    return r
                continue
            raise Unknown(txt(s))
        return None
    table = {}
    try:
        for vals in itertools.product((False, True), repeat=len(atoms)):
            env = dict(zip(atoms, vals))
            r = run(fn.body, env)
            if r is None:
                return None
            table[vals] = r
    except Unknown:
        return None
    return table


def parents_map(root: ast.AST) -> dict[int, ast.AST]:
    pm: dict[int, ast.AST] = {}
    for n in ast.walk(root):
        for c in ast.iter_child_nodes(n):
            pm[id(c)] = n
    return pm


def enclosing(root: ast.AST, node: ast.AST, kinds: tuple) -> list[ast.AST]:
    """Ancestors of ``node`` under ``root`` of the given kinds, innermost
    first."""
    pm = parents_map(root)
    out = []
    cur = pm.get(id(node))
    while cur is not None:
        if isinstance(cur, kinds):
            out.append(cur)
        cur = pm.get(id(cur))
    return out


def dominating_tests(cfg: CFG, n: Node, labels=ALL) \
        -> list[tuple[Node, str]]:
    """(test node, branch) pairs that control ``n``: n is reachable only via
    that branch of the test."""
    out = []
    for t in cfg.nodes:
        if t.kind == 'test' and t is not n:
            for br in ('t', 'f'):
                if any(lab == br for _, lab in t.succ) and \
                        cfg.controlled_by(n, t, br, labels):
                    out.append((t, br))
    return out


def eval_static(e: ast.AST, env: dict):
    """Evaluate a side-effect-free expression over a finite environment
    (text of a sub-expression -> value).  Supports constants, names/attributes
    found in ``env``, ==, !=, in, not in, is (not) None, and/or/not, tuples.
    Returns the value, or raises ValueError when outside this fragment.  This
    is constant folding over a table, not execution of repository code."""
    t = txt(e)
    if t in env:
        return env[t]
    ok, v = const_value(e)
    if ok:
        return v
    if isinstance(e, ast.BoolOp):
        if isinstance(e.op, ast.And):
            r = True
            for x in e.values:
                r = eval_static(x, env)
                if not r:
                    return r
            return r
        r = False
        for x in e.values:
            r = eval_static(x, env)
            if r:
                return r
        return r
    if isinstance(e, ast.UnaryOp) and isinstance(e.op, ast.Not):
        return not eval_static(e.operand, env)
    if isinstance(e, ast.Compare) and len(e.ops) == 1:
        a = eval_static(e.left, env)
        b = eval_static(e.comparators[0], env)
        op = e.ops[0]
        if isinstance(op, ast.Eq):
            return a == b
        if isinstance(op, ast.NotEq):
            return a != b
        if isinstance(op, ast.In):
            return a in b
        if isinstance(op, ast.NotIn):
            return a not in b
        if isinstance(op, ast.Is):
            return a is b
        if isinstance(op, ast.IsNot):
            return a is not b
    if isinstance(e, ast.Call) and isinstance(e.func, ast.Name) and \
            e.func.id == 'bool' and len(e.args) == 1 and not e.keywords:
        return bool(eval_static(e.args[0], env))
    if isinstance(e, (ast.Tuple, ast.List, ast.Set)):
        return tuple(eval_static(x, env) for x in e.elts)
    if isinstance(e, ast.IfExp):
        return eval_static(e.body if eval_static(e.test, env) else e.orelse,
                           env)
    raise ValueError(f'outside the static fragment: {t}')


def eval_return(fn: ast.AST, env: dict):
    """Result of an if/elif/return chain function over ``env`` (see
    eval_static)."""
    def run(stmts):
        for s in stmts:
            if isinstance(s, ast.Return):
                return True, eval_static(s.value, env) \
                    if s.value is not None else None
            if isinstance(s, ast.If):
                br = s.body if eval_static(s.test, env) else s.orelse
                done, v = run(br)
                if done:
                    return True, v
            elif isinstance(s, ast.Expr) and isinstance(s.value,
                                                        ast.Constant):
                continue
            elif isinstance(s, ast.Assign) and len(s.targets) == 1 and \
                    isinstance(s.targets[0], ast.Name):
                env[s.targets[0].id] = eval_static(s.value, env)
            else:
                raise ValueError(f'outside the static fragment: '
                                 f'{txt(s)[:40]}')
        return False, None
    done, v = run(fn.body)
    if not done:
        return None
    return v

"""Family C support: which suspension points can REALLY suspend.

Under asyncio a task is switched out or cancelled only where it really
suspends.  ``await coro()`` of a coroutine that never reaches a primitive
suspension is not a scheduler step; ``async with lock`` of a lock that is
never held across a real suspension never blocks.  The model is a least
fixpoint over a *group* of modules (one backend), name-resolved:

  real(await E)     E is a primitive (sleep, Event.wait, executor, stream I/O,
                    a bare future) or an unresolved callee (assumed real), or
                    a group coroutine whose body contains a real suspension
  real(async with)  acquisition of a read/write lock attribute that may be
                    contended, or an (async) context manager that may suspend
  contended(L)      some critical section of lock attribute L in the group
                    contains a real suspension (incl. consumer loop bodies of
                    async generators that yield while holding L)
"""
from __future__ import annotations

import ast

from .cfg import walk_local, Node
from .facts import call_name, strip_await, attr_chain
from .loader import Func, Project, txt

PRIMITIVE = {'sleep', 'wait', 'wait_for', 'gather', 'shield',
             'run_in_executor', 'to_thread', 'drain', 'read', 'readline',
             'readuntil', 'readexactly', 'open_connection', 'start_tls',
             'wait_closed', 'acquire', 'execute', 'join', 'get_event_loop',
             'create_subprocess_exec', 'sock_recv', 'sock_sendall'}
LOCK_CALLS = {'read_lock', 'write_lock'}


class SuspModel:

    def __init__(self, proj: Project, group: list[str]) -> None:
        self.proj = proj
        self.group = [proj.module(r) for r in group]
        self.funcs: list[Func] = [f for m in self.group
                                  for f in m.funcs.values()]
        self.by_name: dict[str, list[Func]] = {}
        for f in self.funcs:
            self.by_name.setdefault(f.name, []).append(f)
        self.contended: dict[str, bool] = {}
        self.why: dict[str, str] = {}
        self._memo: dict[int, bool] = {}
        self._solve()

    # ------------------------------------------------------------------
    @staticmethod
    def lock_attr(e: ast.AST) -> str | None:
        """X.<attr>.read_lock() / write_lock() -> normalised lock name."""
        e = strip_await(e)
        if isinstance(e, ast.Call) and call_name(e) in LOCK_CALLS and \
                isinstance(e.func, ast.Attribute) and \
                isinstance(e.func.value, ast.Attribute):
            return e.func.value.attr.lstrip('_')
        return None

    def _resolve(self, f: Func, c: ast.Call) -> list[Func] | None:
        nm = call_name(c)
        fn = c.func
        if isinstance(fn, ast.Attribute):
            if isinstance(fn.value, ast.Name) and \
                    fn.value.id in ('self', 'cls') and f.cls is not None:
                m = f.cls.find_method(nm)
                if m is not None:
                    return [m]
            cands = [g for g in self.by_name.get(nm, []) if g.cls is not None]
            return cands or None
        if isinstance(fn, ast.Name):
            cands = [g for g in self.by_name.get(nm, []) if g.cls is None]
            return cands or None
        return None

    def _call_real(self, f: Func, c: ast.AST, stack: tuple) -> bool:
        c = strip_await(c)
        if not isinstance(c, ast.Call):
            return True                     # await <future/task>
        nm = call_name(c)
        cands = self._resolve(f, c)
        if cands:
            return any(self.may_suspend(g, stack) for g in cands)
        if nm in PRIMITIVE:
            return True
        return True                          # unknown callee: assume real

    def real_asts(self, f: Func, stack: tuple = ()) -> list[ast.AST]:
        """Syntax nodes of ``f`` that are real suspension points."""
        out: list[ast.AST] = []
        for n in walk_local(f.node):
            if isinstance(n, ast.Await):
                if self._call_real(f, n.value, stack):
                    out.append(n)
            elif isinstance(n, ast.AsyncWith):
                for item in n.items:
                    la = self.lock_attr(item.context_expr)
                    if la is not None:
                        if self.contended.get(la, False):
                            out.append(n)
                    elif self._call_real(f, item.context_expr, stack):
                        out.append(n)
            elif isinstance(n, ast.AsyncFor):
                if self._call_real(f, n.iter, stack):
                    out.append(n)
            elif isinstance(n, ast.comprehension) and n.is_async:
                if self._call_real(f, n.iter, stack):
                    out.append(n)
        return out

    def may_suspend(self, f: Func, stack: tuple = ()) -> bool:
        k = id(f.node)
        if k in self._memo:
            return self._memo[k]
        if k in stack:
            return False
        r = bool(self.real_asts(f, stack + (k,)))
        if not stack:
            self._memo[k] = r
        return r

    # ------------------------------------------------------------------
    def _sections(self) -> list[tuple[str, Func, ast.AsyncWith]]:
        out = []
        for f in self.funcs:
            for n in walk_local(f.node):
                if isinstance(n, ast.AsyncWith):
                    for item in n.items:
                        la = self.lock_attr(item.context_expr)
                        if la is not None:
                            out.append((la, f, n))
        return out

    def _solve(self) -> None:
        secs = self._sections()
        for la, _, _ in secs:
            self.contended.setdefault(la, False)
        changed = True
        while changed:
            changed = False
            self._memo.clear()
            for la, f, w in secs:
                if self.contended[la]:
                    continue
                real = {id(x) for x in self.real_asts(f)}
                inner = [x for s in w.body for x in ast.walk(s)]
                hit = next((x for x in inner if id(x) in real), None)
                if hit is None:
                    # async generator yielding while holding the lock:
                    # consumers' loop bodies run inside the section
                    if any(isinstance(x, (ast.Yield, ast.YieldFrom))
                           for x in inner):
                        hit = self._consumer_real(f)
                if hit is not None:
                    self.contended[la] = True
                    self.why[la] = (f'{f.fq}: real suspension at line '
                                    f'{getattr(hit, "lineno", "?")} inside a '
                                    f'critical section of {la}')
                    changed = True
        self._memo.clear()

    def _consumer_real(self, gen: Func) -> ast.AST | None:
        for g in self.funcs:
            real = None
            for n in walk_local(g.node):
                it = None
                body: list[ast.AST] = []
                if isinstance(n, ast.AsyncFor):
                    it, body = n.iter, [x for s in n.body
                                        for x in ast.walk(s)]
                if it is not None and isinstance(it, ast.Call) and \
                        call_name(it) == gen.name:
                    if real is None:
                        real = {id(x) for x in self.real_asts(g)}
                    for x in body:
                        if id(x) in real:
                            return x
        return None

    # ------------------------------------------------------------------
    def node_real(self, f: Func, n: Node, real_ids: set[int] | None = None) \
            -> bool:
        if real_ids is None:
            real_ids = {id(x) for x in self.real_asts(f)}
        if n.kind == 'with_enter' and id(n.stmt) in real_ids:
            return True
        if n.kind == 'with_exit':
            # releasing a lock does not suspend; other async context managers
            # may (their __aexit__ is modelled like their __aenter__)
            if isinstance(n.stmt, ast.AsyncWith) and id(n.stmt) in real_ids \
                    and not all(self.lock_attr(i.context_expr)
                                for i in n.stmt.items):
                return True
            return False
        if n.kind == 'for_iter' and id(n.stmt) in real_ids:
            return True
        for x in n.walk():
            if id(x) in real_ids:
                return True
        return False

    def real_nodes(self, f: Func, cfg) -> set[Node]:
        real_ids = {id(x) for x in self.real_asts(f)}
        return {n for n in cfg.nodes if self.node_real(f, n, real_ids)}

    def describe(self) -> str:
        return '; '.join(f'{k}: ' + ('may be contended (' + self.why[k] + ')'
                                     if v else 'never held across a real '
                                     'suspension')
                         for k, v in sorted(self.contended.items()))

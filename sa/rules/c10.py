"""C10 — message commands vs the reference model: R10.1-R10.8 (tables and
dataflow only)."""
from __future__ import annotations

import ast

from ..cfg import NORMAL, ALL, walk_local
from ..facts import (runs_only_when, cfg_of, call_name, calls_in, targets_of, guard_atoms,
                     is_attr, is_name, enclosing, local_assigns, kwarg,
                     const_value, strip_await, resolve_local, bind_args,
                     eval_return, eval_static)
from ..loader import txt, AnchorError
from .. import tables

FLAGS = 'pymap/flags.py'
SELECTCMD = 'pymap/parsing/command/select.py'
SESS = 'pymap/backend/session.py'
BMBX = 'pymap/backend/mailbox.py'
DICT = 'pymap/backend/dict/mailbox.py'
MAILDIR = 'pymap/backend/maildir/mailbox.py'
FATTR = 'pymap/parsing/specials/fetchattr.py'
SEL = 'pymap/selected.py'
STATE = 'pymap/imap/state.py'


def check(ctx) -> None:
    ctx.explanation = (
        'Static decision of structural necessary conditions of C10 (tables '
        'and dataflow): FlagOp.apply implements ADD/DELETE/REPLACE as '
        'union/difference/operand and STORE maps ""/+/- to '
        'REPLACE/ADD/DELETE; the flag set given to the backend is the '
        'permitted intersection; each message loop iterates exactly the '
        'command\'s own sequence set resolved against the session view; '
        'EXPUNGE deletes find_deleted(set or all) and find_deleted filters '
        'on \\Deleted; COPY forwards date, flags, ids and content '
        'field-for-field and APPEND uses the given flags and date; the '
        'implicit-\\Seen table equals RFC 3501 6.4.5 / RFC 3516 and the '
        'fetch path adds exactly {\\Seen}; "*" resolves against EXISTS for '
        'sequence sets and the highest UID for UID sets; MOVE and COPY '
        'differ only in the backend call.')
    ctx.not_decided = ('equivalence with a reference model over all '
                       'programs; SequenceSet range arithmetic on values '
                       '(reversed / out-of-range).')
    r101(ctx)
    r102(ctx)
    r103(ctx)
    r104(ctx)
    r105(ctx)
    r106(ctx)
    r107(ctx)
    r108(ctx)
    r109(ctx)
    r1010(ctx)


def r101(ctx) -> None:
    R = ctx.rule('R10.1', 'STORE mode table', 6, 'RFC 3501 6.4.6')
    fo = ctx.proj.cls(FLAGS, 'FlagOp')
    ap = fo.own_method('apply')
    if ap is None:
        raise AnchorError('FlagOp.apply vanished')
    p = ap.params()
    fs, operand = p[1], p[2]
    want = {'ADD': 'union', 'DELETE': 'difference', 'REPLACE': 'operand'}

    def kind(e):
        e = strip_await(e)
        if isinstance(e, ast.Call) and call_name(e) in ('frozenset', 'set') \
                and e.args:
            return kind(e.args[0])
        if isinstance(e, ast.BinOp):
            l, r = txt(e.left), txt(e.right)
            if isinstance(e.op, ast.BitOr) and {l, r} == {fs, operand}:
                return 'union'
            if isinstance(e.op, ast.Sub) and (l, r) == (fs, operand):
                return 'difference'
        if isinstance(e, ast.Call) and isinstance(e.func, ast.Attribute):
            rv = e.func.value
            while isinstance(rv, ast.Call) and call_name(rv) in (
                    'frozenset', 'set') and rv.args:
                rv = rv.args[0]
            e = ast.Call(func=ast.Attribute(value=rv, attr=e.func.attr,
                                            ctx=ast.Load()),
                         args=e.args, keywords=e.keywords)
            if e.func.attr == 'union' and {txt(e.func.value)} | \
                    {txt(a) for a in e.args} == {fs, operand}:
                return 'union'
            if e.func.attr == 'difference' and txt(e.func.value) == fs and \
                    [txt(a) for a in e.args] == [operand]:
                return 'difference'
        if txt(e) == operand:
            return 'operand'
        return f'? ({txt(e)})'
    found = {}
    for name in want:
        try:
            # evaluate the if-chain with self bound to that member
            env = {'self': name}
            for m in want:
                env[f'FlagOp.{m}'] = m
                env[f'self.{m}'] = m
                env[f'cls.{m}'] = m
            v = _chain_return(ap.node, env)
            found[name] = kind(v) if v is not None else 'no return'
        except ValueError as exc:
            found[name] = f'? ({exc})'
    for name, k in want.items():
        R.check(found.get(name) == k, ap, ap.node,
                f'FlagOp.{name}.apply = {k}',
                f'FlagOp.{name} is implemented as {found.get(name)}; '
                f'STORE {"+" if name == "ADD" else "-" if name == "DELETE" else ""}'
                f'FLAGS must compute the {k}')
    sc = ctx.proj.cls(SELECTCMD, 'StoreCommand')
    modes = sc.find_attr('_modes')
    if modes is None or not isinstance(modes[1], ast.Dict):
        raise AnchorError('StoreCommand._modes dict literal vanished')
    tab = {}
    for k, v in zip(modes[1].keys, modes[1].values):
        ok, kv = const_value(k)
        if ok:
            tab[kv] = txt(v).split('.')[-1]
    wantm = {b'': 'REPLACE', b'+': 'ADD', b'-': 'DELETE'}
    from ..report import Site
    st = Site(sc.rel, modes[1].lineno, 'StoreCommand')
    for k, v in wantm.items():
        R.check(tab.get(k) == v, st, None,
                f'STORE prefix {k.decode() or "(none)"} -> {v}',
                f'prefix {k!r} maps to {tab.get(k)}')
    # the parsed prefix is what indexes the table
    psi = sc.own_method('_parse_store_info')
    ok = any(isinstance(s, ast.Subscript) and txt(s.value) in
             ('cls._modes', 'self._modes') and 'group(1)' in txt(s.slice)
             for s in walk_local(psi.node))
    pat = sc.find_attr('_info_pattern')
    okp = False
    if pat is not None and isinstance(pat[1], ast.Call) and pat[1].args:
        c, v = const_value(pat[1].args[0])
        okp = c and v.startswith(b'^([+-]?)FLAGS')
    R.check(ok and okp, psi, psi.node, 'STORE mode = _modes[prefix group]',
            'the mode is not looked up from the +/- prefix captured by the '
            'item-name pattern')


def _chain_return(fn, env):
    """Return-expression AST selected by an if/elif chain under env."""
    def run(stmts):
        for s in stmts:
            if isinstance(s, ast.Return):
                return s.value
            if isinstance(s, ast.If):
                br = s.body if eval_static(s.test, env) else s.orelse
                v = run(br)
                if v is not None:
                    return v
            elif isinstance(s, ast.Expr) and isinstance(s.value,
                                                        ast.Constant):
                continue
            elif isinstance(s, ast.Assert):
                # an assertion that holds under env changes nothing; one
                # that fails means this member never gets here
                if not eval_static(s.test, env):
                    raise ValueError(f'assertion {txt(s.test)[:30]} fails')
                continue
            elif isinstance(s, ast.Pass):
                continue
            else:
                raise ValueError(f'unexpected statement {txt(s)[:30]}')
        return None
    return run(fn.body)


def r102(ctx) -> None:
    R = ctx.rule('R10.2', 'only permitted flags reach the backend', 1)
    bs = ctx.proj.cls(SESS, 'BaseSession')
    f = bs.own_method('update_flags')
    if f is None:
        raise AnchorError('update_flags vanished')
    p = f.params()
    fl = 'flag_set' if 'flag_set' in p else p[3]
    for c in calls_in(f.node, 'update'):
        if not (isinstance(c.func.value, ast.Name) and len(c.args) >= 4):
            continue
        arg = c.args[2]
        ok = False
        for v in resolve_local(f, arg):
            if isinstance(v, ast.BinOp) and isinstance(v.op, ast.BitAnd) and \
                    {txt(v.left), txt(v.right)} == \
                    {'selected.permanent_flags', fl}:
                ok = True
            if isinstance(v, ast.Call) and call_name(v) == 'intersect' and \
                    txt(v.func.value) == 'selected.permanent_flags' and \
                    [txt(a) for a in v.args] == [fl]:
                ok = True
        R.check(ok, f, c, 'update_flags passes permanent_flags & flag_set',
                f'the backend update receives {txt(arg)}, not the '
                f'intersection of the command\'s flags with the permitted '
                f'permanent flags: unpermitted flags (or \\Recent) are '
                f'stored')
        R.check(txt(c.args[3]) in ('mode',) and txt(c.args[0]) in
                ('uid', 'cached_msg.uid'), f, c,
                'update_flags passes the command mode and the message UID',
                'mode or UID argument is not the command\'s')


def r103(ctx) -> None:
    R = ctx.rule('R10.3', 'loops iterate exactly the addressed messages', 4)
    bs = ctx.proj.cls(SESS, 'BaseSession')
    for name in ('update_flags', 'fetch_messages', 'copy_messages',
                 'move_messages'):
        f = bs.own_method(name)
        if f is None:
            raise AnchorError(f'{name} vanished')
        loops = [l for l in walk_local(f.node)
                 if isinstance(l, (ast.For, ast.AsyncFor))]
        good = False
        why = 'no message loop'
        for l in loops:
            for v in resolve_local(f, l.iter):
                if isinstance(v, ast.Call) and \
                        call_name(v) in ('get_all', 'get_uids') and \
                        txt(v.func.value) == 'selected.messages' and \
                        [txt(a) for a in v.args] == ['sequence_set']:
                    good = True
                elif isinstance(v, ast.Call) and call_name(v) in (
                        'get_all', 'get_uids'):
                    why = f'iterates {txt(v)}'
        R.check(good, f, f.node, f'{name}: iterates '
                f'selected.messages.get_*(sequence_set)',
                f'{why}: the command acts on messages other than those its '
                f'sequence set addresses in the session view')
        if name == 'update_flags':
            # STORE reaches the backend for EVERY addressed message: FLAGS
            # () / FLAGS (\Recent) in replace mode clears the flags
            cfg = cfg_of(f)
            ups = cfg.find(lambda n: any(call_name(c) == 'update'
                                         and txt(c.func.value) == 'mbx'
                                         for c in n.calls()))
            cond = []
            for u in ups:
                for t in cfg.nodes:
                    if t.kind == 'test' and isinstance(t.stmt, (ast.If,)) \
                            and (cfg.controlled_by(u, t, 't')
                                 or cfg.controlled_by(u, t, 'f')):
                        inside = any(any(t.stmt is x for x in ast.walk(l))
                                     for l in loops)
                        if inside:
                            cond.append(txt(t.stmt.test))
            R.check(bool(ups) and not cond, f, f.node,
                    'update_flags: mbx.update() runs for every addressed '
                    'message',
                    f'the backend update is skipped when `{cond}`: in '
                    f'replace mode an empty permitted set MEANS "clear all '
                    f'flags" — STORE n FLAGS () / FLAGS (\\Recent) answers '
                    f'OK and leaves the old flags, so a message whose '
                    f'\\Deleted was "cleared" is still expunged')


def r104(ctx) -> None:
    R = ctx.rule('R10.4', 'EXPUNGE = delete(find_deleted(set or all))', 2)
    bs = ctx.proj.cls(SESS, 'BaseSession')
    f = bs.own_method('expunge_mailbox')
    if f is None:
        raise AnchorError('expunge_mailbox vanished')
    ok = False
    fdcalls = []
    for c in calls_in(f.node, 'delete'):
        for v in resolve_local(f, c.args[0]) if c.args else []:
            v = strip_await(v)
            if isinstance(v, ast.Call) and call_name(v) == 'find_deleted' \
                    and len(v.args) >= 2 and txt(v.args[1]) == 'selected':
                fdcalls.append(v)
                ok = True
    # the set handed to find_deleted is the command's UID set, or "all" when
    # (and only when) none was given
    cfg = cfg_of(f)
    okd = bool(fdcalls)
    why = 'find_deleted call not found'
    for v in fdcalls:
        a0 = v.args[0]
        defs = [(st, val) for st, val in local_assigns(f, a0.id)] \
            if isinstance(a0, ast.Name) else []
        vals = []
        if isinstance(a0, ast.Name) and a0.id in f.params():
            vals.append((None, a0))              # the parameter itself
        for st, val in defs:
            vals.append((st, val))
        if not vals:
            vals = [(None, a0)]
        seen_all = False
        for st, val in vals:
            if val is None:
                okd, why = False, f'{txt(a0)} is bound by {txt(st)}'
                continue
            if isinstance(val, ast.Name) and val.id == 'uid_set':
                if st is not None and st is not None and any(
                        runs_only_when(cfg, n, 'uid_set', False)
                        for n in cfg.nodes_of(st)):
                    okd, why = False, 'the given set is used when it is None'
                continue
            if isinstance(val, ast.Call) and txt(val.func) == \
                    'SequenceSet.all' and const_value(kwarg(val, 'uid')) == (
                        True, True):
                seen_all = True
                if st is None or not all(
                        runs_only_when(cfg, n, 'uid_set', False)
                        for n in cfg.nodes_of(st)):
                    okd, why = False, ('"all" replaces the set although one '
                                       'was given')
                continue
            okd, why = False, f'UID set is {txt(val)}'
        if not seen_all:
            okd, why = False, 'no default "all messages" set'
    R.check(ok and okd, f, f.node, 'expunge_mailbox deletes '
            'find_deleted(<given set, or all when none>, selected)',
            f'EXPUNGE does not delete exactly the \\Deleted messages of its '
            f'UID set ({why}): messages outside the set can be removed, or '
            f'plain EXPUNGE does not cover the whole mailbox')
    mdi = ctx.proj.cls(BMBX, 'MailboxDataInterface')
    fd = mdi.own_method('find_deleted')
    if fd is None:
        raise AnchorError('find_deleted vanished')
    okf = False
    for n in walk_local(fd.node):
        if isinstance(n, (ast.ListComp, ast.GeneratorExp)):
            conds = [txt(i) for g in n.generators for i in g.ifs]
            src = [txt(g.iter) for g in n.generators]
            if any(c.startswith('Deleted in ') and 'get_flags' in c
                   for c in conds) and any('self.find(seq_set, selected)'
                                           in s for s in src) and \
                    txt(n.elt).endswith('.uid'):
                okf = True
    if not okf:
        for l in [x for x in walk_local(fd.node)
                  if isinstance(x, (ast.For, ast.AsyncFor))]:
            if 'self.find(seq_set, selected)' in txt(l.iter) and any(
                    isinstance(s, ast.If) and 'Deleted in' in txt(s.test)
                    for s in l.body):
                okf = True
    R.check(okf, fd, fd.node, 'find_deleted filters find(seq_set) on '
            '\\Deleted', 'find_deleted does not return exactly the UIDs of '
            'find(seq_set, selected) whose flags contain \\Deleted')


def r105(ctx) -> None:
    R = ctx.rule('R10.5', 'COPY/APPEND preserve fields', 8)
    m = ctx.proj.cls(DICT, 'Message')
    f = m.own_method('copy')
    if f is None:
        raise AnchorError('dict Message.copy vanished')
    src = f.params()[1]
    init = m.own_method('__init__')
    want = {'internal_date': f'{src}.internal_date',
            'permanent_flags': f'{src}.permanent_flags',
            'email_id': f'{src}.email_id', 'thread_id': f'{src}.thread_id',
            'content': (f'{src}._content', f'{src}.content')}
    for c in calls_in(f.node, 'cls'):
        b = bind_args(init, c)
        for fld, w in want.items():
            got = txt(b.get(fld)) if b.get(fld) is not None else '<missing>'
            ws = w if isinstance(w, tuple) else (w,)
            R.check(got in ws, f, c, f'Message.copy forwards {fld}',
                    f'the copy is built with {fld}={got} instead of '
                    f'{ws[0]}: COPY/MOVE does not duplicate the '
                    f'message\'s {fld}')
    cls = ctx.proj.cls(DICT, 'MailboxData')
    ap = cls.own_method('append')
    am = ap.params()[1]
    for c in calls_in(ap.node, 'Message'):
        b = bind_args(init, c)
        fl = txt(b.get('permanent_flags'))
        R.check(fl == f'{am}.flag_set', ap, c,
                'append stores the flags given with APPEND',
                f'the appended message gets flags {fl}')
        dt = b.get('internal_date')
        okd = False
        for v in resolve_local(ap, dt) if dt is not None else []:
            if isinstance(v, ast.BoolOp) and isinstance(v.op, ast.Or) and \
                    txt(v.values[0]) == f'{am}.when' and \
                    'now' in txt(v.values[1]):
                okd = True
        R.check(okd, ap, c, 'append stores the given date or now',
                f'the appended message gets date {txt(dt)}')
        ct = b.get('content')
        okc = False
        for v in resolve_local(ap, ct) if ct is not None else []:
            if isinstance(v, ast.Call) and call_name(v) == 'parse' and \
                    [txt(a) for a in v.args] == [f'{am}.literal']:
                okc = True
        R.check(okc, ap, c, 'append stores the content parsed from the '
                'literal', f'content is {txt(ct)}')
    # copy/move insert the Message.copy of the message read from the source
    for name in ('copy', 'move'):
        g = cls.own_method(name)
        ok = False
        for c in calls_in(g.node, 'copy'):
            if txt(c.func.value) == 'Message' and c.args:
                for v in resolve_local(g, c.args[0]):
                    if '_messages' in txt(v) and ('uid' in txt(v)):
                        ok = True
        R.check(ok, g, g.node, f'dict {name}: the inserted message is a '
                f'copy of the source message',
                f'{name} does not insert Message.copy(<the source message '
                f'looked up by uid>)')


def r106(ctx) -> None:
    R = ctx.rule('R10.6', 'implicit \\Seen table', 12,
                 'RFC 3501 6.4.5, RFC 3516')
    fa = ctx.proj.cls(FATTR, 'FetchAttribute')
    p = fa.own_method('set_seen')
    if p is None:
        raise AnchorError('FetchAttribute.set_seen vanished')
    # as parsed: which attributes carry a section (FetchAttribute.parse)
    cases = []
    for a in sorted(tables.SET_SEEN_TRUE):
        cases.append((a, True, True))
    cases.append((b'BODY', False, False))        # BODY without section
    for a in sorted(tables.SET_SEEN_FALSE):
        has_sec = a.endswith(b'.PEEK') or a in (b'RFC822.HEADER',
                                                b'BINARY.SIZE')
        cases.append((a, has_sec, False))
    for a, sec, want in cases:
        env = {'self.value': a, 'self.attribute': a,
               'self.section': object() if sec else None}
        try:
            got = bool(eval_return(p.node, dict(env)))
        except ValueError as exc:
            R.undecided(p, p.node, f'set_seen({a.decode()}'
                        f'{"[…]" if sec else ""})', str(exc))
            continue
        R.check(got == want, p, p.node,
                f'set_seen({a.decode()}{"[…]" if sec else ""}) is {want}',
                f'FETCH {a.decode()}{"[]" if sec else ""} '
                f'{"does not set" if want else "sets"} \\Seen '
                f'(RFC 3501 6.4.5: {"must" if want else "must not"})')
    bs = ctx.proj.cls(SESS, 'BaseSession')
    f = bs.own_method('fetch_messages')
    ok = False
    for c in calls_in(f.node, 'update'):
        if len(c.args) >= 4:
            fs = txt(c.args[2]).replace(' ', '')
            if fs in ('frozenset({Seen})', '{Seen}', 'frozenset([Seen])') \
                    and txt(c.args[3]) == 'FlagOp.ADD':
                ok = True
    cfgf = cfg_of(f)
    for n in cfgf.find(lambda n: any(call_name(c) == 'update'
                                     and len(c.args) >= 4
                                     for c in n.calls())):
        conds = [t for t in cfgf.nodes if t.kind == 'test'
                 and cfgf.controlled_by(n, t, 't')
                 and isinstance(t.stmt, ast.If)]
        exact = bool(conds) and all(
            guard_atoms(t.stmt.test) == [('set_seen', True)] for t in conds)
        R.check(exact, f, n.stmt, 'fetch: the \\Seen update is controlled by '
                'set_seen alone',
                f'the implicit \\Seen update is guarded by '
                f'{[txt(t.stmt.test) for t in conds]}: deciding from the '
                f'session\'s CACHED flags skips the update when another '
                f'session (or maildir client) cleared \\Seen meanwhile')
    R.check(ok, f, f.node, 'fetch adds exactly {\\Seen}',
            'the implicit flag change of a body fetch is not '
            'update(…, {Seen}, FlagOp.ADD)')
    cs = ctx.proj.cls(STATE, 'ConnectionState')
    df = cs.own_method('do_fetch')
    # set_seen becomes true only because some fetched attribute asks for
    # it: any(a.set_seen for a in cmd.attributes), or the loop spelling
    ok = False
    bad_def = []
    dcfg = cfg_of(df)
    for st, v in local_assigns(df, 'set_seen'):
        if v is None:
            bad_def.append(txt(st))
            continue
        tv = txt(v)
        if const_value(v) == (True, False):
            continue
        if 'any(' in tv and '.set_seen' in tv and 'cmd.attributes' in tv:
            ok = True
            continue
        if const_value(v) == (True, True):
            loops = [l for l in enclosing(df.node, st, (ast.For,))
                     if txt(l.iter) == 'cmd.attributes']
            if loops and any(runs_only_when(
                    dcfg, nd, f'{txt(loops[0].target)}.set_seen', True)
                    for nd in dcfg.nodes_of(st)):
                ok = True
                continue
        bad_def.append(tv)
    ok = ok and not bad_def
    R.check(ok, df, df.node, 'do_fetch: set_seen = any(attribute.set_seen)',
            'do_fetch does not derive set_seen from the fetched attributes')


def r107(ctx) -> None:
    R = ctx.rule('R10.7', '"*" resolves against EXISTS / highest UID', 2)
    sm = ctx.proj.cls(SEL, 'SynchronizedMessages')
    for name in ('get_uids', 'get_all'):
        f = sm.own_method(name)
        if f is None:
            raise AnchorError(f'{name} vanished')
        cfg = cfg_of(f)
        good = {'uid': False, 'seq': False}
        bad = []
        # one enumerator may be written in terms of the other
        sib = [c for c in calls_in(f.node) if call_name(c) in (
            'get_uids', 'get_all') and call_name(c) != name
            and is_name(c.func.value, 'self')
            and [txt(a) for a in c.args] == [f.params()[1]]]
        if sib and not any(call_name(c) == 'flatten'
                           for c in calls_in(f.node)):
            R.ok(f, f.node, f'{name}: * = max_uid for UID sets, exists for '
                 f'sequence sets', f'delegates to self.{call_name(sib[0])}'
                 f'({f.params()[1]}), checked there')
            continue
        for n in cfg.stmt_nodes():
            for c in n.calls():
                if call_name(c) != 'flatten' or not c.args:
                    continue
                arg = txt(c.args[0])
                br = None
                for t in cfg.nodes:
                    if t.kind == 'test':
                        for a, pol in guard_atoms(t.stmt.test):
                            if a.endswith('.uid'):
                                if cfg.controlled_by(n, t, 't'):
                                    br = 'uid' if pol else 'seq'
                                elif cfg.controlled_by(n, t, 'f'):
                                    br = 'seq' if pol else 'uid'
                if br == 'uid':
                    if arg == 'self.max_uid':
                        good['uid'] = True
                    else:
                        bad.append(f'UID set flattened against {arg}')
                elif br == 'seq':
                    if arg == 'self.exists':
                        good['seq'] = True
                    else:
                        bad.append(f'sequence set flattened against {arg}')
        R.check(all(good.values()) and not bad, f, f.node,
                f'{name}: * = max_uid for UID sets, exists for sequence sets',
                '; '.join(bad) or 'flatten calls not found under a `.uid` '
                'test')


def r108(ctx) -> None:
    R = ctx.rule('R10.8', 'MOVE and COPY loops are siblings', 1)
    bs = ctx.proj.cls(SESS, 'BaseSession')
    c, m = bs.own_method('copy_messages'), bs.own_method('move_messages')

    def norm(f, op):
        """Order-insensitive structural summary: called names (the backend
        call abstracted), loop sources, refusal conditions."""
        calls = sorted({'OP' if call_name(x) == op else call_name(x)
                        for x in calls_in(f.node)})
        loops = sorted(txt(l.iter) for l in walk_local(f.node)
                       if isinstance(l, (ast.For, ast.AsyncFor)))
        raises = sorted(
            txt(t.test) for t in walk_local(f.node)
            if isinstance(t, ast.If) and any(isinstance(b, ast.Raise)
                                             for b in t.body)
            and not (op == 'move' and txt(t.test) == 'selected.readonly'))
        return calls, loops, raises
    a, b = norm(c, 'copy'), norm(m, 'move')
    diff = [f'{n}: {x} vs {y}' for n, x, y in
            zip(('calls', 'loops', 'refusals'), a, b) if x != y]
    R.check(not diff, m, m.node, 'move_messages ~ copy_messages modulo the '
            'backend call',
            'MOVE and COPY diverge in more than the backend call (and the '
            'read-only-source refusal): ' + '; '.join(diff)[:300])


def r109(ctx) -> None:
    R = ctx.rule('R10.9', '"*" and flag arithmetic use CURRENT state', 4)
    sm = ctx.proj.cls(SEL, 'SynchronizedMessages')
    up, rm = sm.own_method('_update'), sm.own_method('_remove')
    if up is None or rm is None:
        raise AnchorError('SynchronizedMessages._update/_remove vanished')

    def written(f) -> set[str]:
        out = set()
        for x in walk_local(f.node):
            tg = []
            if isinstance(x, (ast.Assign, ast.AugAssign, ast.AnnAssign,
                              ast.Delete)):
                tg = targets_of(x)
            for t in tg:
                while isinstance(t, ast.Subscript):
                    t = t.value
                if isinstance(t, ast.Attribute) and is_name(t.value, 'self'):
                    out.add(t.attr)
            if isinstance(x, ast.Call) and isinstance(x.func, ast.Attribute) \
                    and isinstance(x.func.value, ast.Attribute) and \
                    is_name(x.func.value.value, 'self') and x.func.attr in (
                        'add', 'remove', 'discard', 'insert', 'append',
                        'update', 'clear', 'pop', 'extend'):
                out.add(x.func.value.attr)
        return out
    wu, wr = written(up), written(rm)
    only_add = sorted(wu - wr)
    R.check(not only_add, up, up.node,
            'every membership field maintained on insertion is maintained '
            'on removal',
            f'{only_add} is written by _update (arrival) but never by '
            f'_remove (expunge): a high-water mark instead of the current '
            f'maximum — after the highest-UID message is expunged "*" in a '
            f'UID set still names the expunged UID, so UID STORE/FETCH/COPY '
            f'* addresses nothing instead of the last message',
            f'_update writes {sorted(wu)}, _remove writes {sorted(wr)}')
    for prop, src in (('max_uid', '_sorted'), ('exists', None)):
        g = sm.find_method(prop, kind='getter') if hasattr(
            sm, 'find_method') else None
        g = g or sm.own_method(prop)
        if g is None:
            raise AnchorError(f'SynchronizedMessages.{prop} vanished')
        reads = {x.attr for x in walk_local(g.node)
                 if isinstance(x, ast.Attribute) and is_name(x.value, 'self')}
        R.check(bool(reads) and reads <= wr, g, g.node,
                f'{prop} is computed from fields that removal maintains',
                f'{prop} reads {sorted(reads - wr)}, which _remove never '
                f'updates: stale after an expunge')
    # STORE arithmetic: mode.apply(<flags read from the store NOW>, operand)
    n = 0
    for rel, cn in ((DICT, 'MailboxData'), (MAILDIR, 'MailboxData')):
        f = ctx.proj.cls(rel, cn).own_method('update')
        if f is None:
            raise AnchorError(f'{rel} update vanished')
        params = set(f.params())
        for c in calls_in(f.node, 'apply'):
            if not c.args:
                continue
            n += 1
            used = set()
            for v in resolve_local(f, c.args[0]):
                used |= {x.id for x in ast.walk(v) if isinstance(x, ast.Name)}
            stale = sorted(used & (params - {'self'}))
            R.check(not stale, f, c,
                    f'{rel.split("/")[2]} update: new flags = apply(flags '
                    f'stored now, operand)',
                    f'the old flags given to `{txt(c)}` come from the '
                    f'caller\'s cached copy ({stale}), not from the store: '
                    f'flag changes made by another session since this '
                    f'session last synchronised are overwritten (+FLAGS '
                    f'(\\Draft) drops a \\Deleted another session just '
                    f'set)')
    if n < 2:
        raise AnchorError(f'only {n} mode.apply() call(s) found in update()')


def r1010(ctx) -> None:
    """RFC 3501 9 (seq-range): "2:4 and 4:2 are equivalent", and "*" is the
    largest number in use.  A range is therefore empty only when its LOWER
    end is above the maximum; a test of one written end (`left > max`)
    drops `500:103`, `UIDNEXT:*` and `9:2`, which address the last
    messages."""
    R = ctx.rule('R10.10', 'a sequence range is refused as empty only by its '
                 'lower end', 1)
    ss = ctx.proj.cls('pymap/parsing/specials/sequenceset.py', 'SequenceSet')
    f = ss.own_method('_get_range')
    if f is None:
        raise AnchorError('SequenceSet._get_range vanished')
    cfg = cfg_of(f)
    # the two ends of a range element
    ends = set()
    for st in walk_local(f.node):
        if isinstance(st, ast.Assign) and isinstance(st.targets[0],
                                                     ast.Tuple) and \
                len(st.targets[0].elts) == 2 and all(
                    isinstance(t, ast.Name) for t in st.targets[0].elts) \
                and isinstance(st.value, ast.Name) and \
                st.value.id in f.params():
            ends = {t.id for t in st.targets[0].elts}
    if len(ends) != 2:
        R.undecided(f, f.node, 'range ends', 'no `left, right = elem` found')
        return
    empties = [n for n in cfg.find(lambda n: isinstance(n.stmt, ast.Return))
               if isinstance(n.stmt.value, ast.Tuple)
               and not n.stmt.value.elts]
    n_ = 0
    for node in empties:
        for t in cfg.nodes:
            if t.kind != 'test' or not isinstance(t.stmt.test, ast.Compare):
                continue
            if not (cfg.controlled_by(node, t, 't')
                    or cfg.controlled_by(node, t, 'f')):
                continue
            c = t.stmt.test
            sides = [c.left] + c.comparators
            if not any(txt(x) == 'max_value' for x in sides):
                continue
            other = [x for x in sides if txt(x) != 'max_value'][0]
            # does the compared value depend on the range ends at all?
            def tdeps(e, depth=0) -> set:
                out = {x.id for x in ast.walk(e) if isinstance(x, ast.Name)}
                if depth < 4:
                    for x in list(out):
                        for _, v in local_assigns(f, x):
                            if v is not None and not isinstance(
                                    v, ast.AugAssign):
                                out |= tdeps(v, depth + 1)
                return out
            deps = tdeps(other)
            if not (deps & ends):
                continue             # the single-number branch
            n_ += 1
            low = any(isinstance(v, ast.Call) and call_name(v) == 'min'
                      and len(v.args) == 2
                      and ends <= (tdeps(v.args[0]) | tdeps(v.args[1]))
                      and tdeps(v.args[0]) & ends != tdeps(v.args[1]) & ends
                      for v in resolve_local(f, other))
            R.check(low, f, t.stmt,
                    '_get_range: the emptiness test of a range is on '
                    'min(left, right)',
                    f'`{txt(c)}` decides that a range is empty from '
                    f'`{txt(other)}`, which is not the lower of the two '
                    f'ends: a range whose first-written end is above the '
                    f'maximum (`UID FETCH 105:*` with highest UID 104, '
                    f'`500:103`, `COPY 9:2`) addresses nothing, though it '
                    f'covers the last messages', 'min(left, right)')
    if n_ == 0:
        R.undecided(f, f.node, 'range emptiness test',
                    'no comparison of a range end with max_value controls '
                    'an empty return')

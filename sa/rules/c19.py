"""C19 — ManageSieve: R19.1-R19.6."""
from __future__ import annotations

import ast

from ..cfg import NORMAL, ALL, walk_local
from ..facts import (cfg_of, call_name, calls_in, targets_of, guard_atoms,
                     is_attr, is_name, enclosing, local_assigns, kwarg,
                     const_value, strip_await, resolve_local, writers_of)
from ..loader import txt, AnchorError
from .. import tables

SIEVE = 'pymap/sieve/manage/__init__.py'
SSTATE = 'pymap/sieve/manage/state.py'
SCMD = 'pymap/sieve/manage/command.py'
SRESP = 'pymap/sieve/manage/response.py'
DFILTER = 'pymap/backend/dict/filter.py'
DICTINIT = 'pymap/backend/dict/__init__.py'


def sieve_commands(ctx):
    c = ctx.proj.cls(SCMD, 'Command')
    f = c.own_method('_all_commands')
    if f is None:
        raise AnchorError('sieve Command._all_commands vanished')
    for r in walk_local(f.node):
        if isinstance(r, ast.Return) and isinstance(r.value, (ast.List,
                                                              ast.Tuple)):
            out = []
            for e in r.value.elts:
                k = ctx.proj.resolve_class(c.module, txt(e))
                if k is None:
                    raise AnchorError(f'sieve command {txt(e)} unresolved')
                out.append(k)
            return out
    raise AnchorError('sieve command list literal not found')


def _isinstance_cls(test: ast.AST) -> list[str]:
    out = []
    for a, pol in guard_atoms(test):
        if pol and a.startswith('isinstance(cmd, ') and a.endswith(')'):
            out.append(a[len('isinstance(cmd, '):-1])
    return out


def check(ctx) -> None:
    ctx.explanation = (
        'Static decision of structural necessary conditions of C19: in the '
        'ManageSieve command loop every script operation (FilterState.run, '
        'any filter_set access) is control-dependent on `_state is not '
        'None`; the branch taken before authentication dispatches only '
        'AUTHENTICATE and STARTTLS, and only NOOP/LOGOUT/CAPABILITY precede '
        'the test (RFC 5804 s2); every registered command class is '
        'dispatched somewhere; the dict script store refuses to delete the '
        'active script before removing anything, rename carries the active '
        'marker, put stores and get returns the bytes unchanged and '
        'GETSCRIPT writes them as a literal; script stores are keyed per '
        'identity.')
    ctx.not_decided = 'map semantics over all command programs.'
    r191(ctx)
    r193(ctx)
    r194(ctx)
    r195(ctx)
    r196(ctx)
    r197(ctx)


def r191(ctx) -> None:
    R = ctx.rule('R19.1', 'no script access before authentication', 4,
                 'RFC 5804 section 2')
    conn = ctx.proj.cls(SIEVE, 'ManageSieveConnection')
    f = conn.own_method('run')
    if f is None:
        raise AnchorError('ManageSieveConnection.run vanished')
    cfg = cfg_of(f)
    gate = [t for t in cfg.nodes if t.kind == 'test'
            and guard_atoms(t.stmt.test) in ([('self._state', False)],
                                             [('self._state', True)])]
    if not gate:
        R.fail(f, f.node, 'run: `_state is None` test exists',
               'the command loop has no test of the authentication state')
        return
    g = gate[0]
    pol = guard_atoms(g.stmt.test)[0][1]       # True: test is "is not None"
    authed_br = 't' if pol else 'f'
    unauth_br = 'f' if pol else 't'
    # every use of self._state.<x> / filter_set on the authenticated branch
    uses = cfg.find(lambda n: any(
        isinstance(x, ast.Attribute) and isinstance(x.value, ast.Attribute)
        and is_attr(x.value, '_state', 'self') for x in n.walk())
        or any('filter_set' in txt(c.func) for c in n.calls()))
    for u in uses:
        R.check(cfg.controlled_by(u, g, authed_br), f, u.stmt,
                f'run: `{txt(u.stmt)[:50]}` only when authenticated',
                'a script operation is reachable while `_state is None`: '
                'script commands have an effect before authentication')
    if not uses:
        R.fail(f, f.node, 'run: script dispatch present',
               'no dispatch to the authenticated state object found')
    # tests on the unauthenticated branch dispatch only the allowed classes
    cmds = {c.name: const_value(c.find_attr('command')[1])[1]
            for c in sieve_commands(ctx) if c.find_attr('command')}
    pre = []
    for t in cfg.nodes:
        if t.kind == 'test' and t is not g:
            for k in _isinstance_cls(t.stmt.test):
                if cfg.controlled_by(t, g, unauth_br):
                    pre.append((k, t, 'unauth'))
                elif not cfg.controlled_by(t, g, authed_br):
                    pre.append((k, t, 'before'))
    allowed_un = {b'AUTHENTICATE', b'STARTTLS'}
    allowed_before = {b'NOOP', b'LOGOUT', b'CAPABILITY'}
    for k, t, where in pre:
        name = cmds.get(k)
        allowed = allowed_un if where == 'unauth' else allowed_before
        R.check(name in allowed, f, t.stmt,
                f'run: {k} handled {"before authentication" if where == "unauth" else "ahead of the state test"}',
                f'{k} ({name!r}) is dispatched '
                f'{"on the not-authenticated branch" if where == "unauth" else "before the authentication test"}; '
                f'RFC 5804 allows only {sorted(allowed)} there')
    # the unauthenticated fall-through refuses
    firsts = [m for m, lab in g.succ if lab == unauth_br]
    region = cfg.reach(firsts, labels=NORMAL, first_labels=NORMAL,
                       include_starts=True) | set(firsts)
    state_calls = [n for n in region if any(
        call_name(c) == 'run' and '_state' in txt(c.func) for c in n.calls())
        and cfg.controlled_by(n, g, unauth_br)]
    R.check(not state_calls, f, f.node,
            'run: unauthenticated branch never reaches FilterState.run',
            'FilterState.run is called on the not-authenticated branch')


def r193(ctx) -> None:
    R = ctx.rule('R19.3', 'every registered command is dispatched', 14)
    conn = ctx.proj.cls(SIEVE, 'ManageSieveConnection')
    fs = ctx.proj.cls(SSTATE, 'FilterState')
    run1, run2 = conn.own_method('run'), fs.own_method('run')
    if run1 is None or run2 is None:
        raise AnchorError('sieve run methods vanished')
    handled = set()
    for f in (run1, run2):
        for t in walk_local(f.node):
            if isinstance(t, ast.If):
                handled |= set(_isinstance_cls(t.test))
        # dict dispatch idiom: {Cls: handler}
        for d in walk_local(f.node):
            if isinstance(d, ast.Dict):
                handled |= {txt(k) for k in d.keys if k is not None}
    from ..report import Site
    for c in sieve_commands(ctx):
        R.check(c.name in handled, Site(c.rel, c.node.lineno, c.name), None,
                f'{c.name} is dispatched',
                f'{c.name} is registered (parsed) but no branch of the '
                f'connection loop or FilterState.run handles it: the '
                f'command is answered "Bad command"')
    # script commands are dispatched in FilterState.run, not pre-auth
    script = {'HaveSpaceCommand', 'PutScriptCommand', 'ListScriptsCommand',
              'SetActiveCommand', 'GetScriptCommand', 'DeleteScriptCommand',
              'RenameScriptCommand', 'CheckScriptCommand'}
    in_conn = set()
    for t in walk_local(run1.node):
        if isinstance(t, ast.If):
            in_conn |= set(_isinstance_cls(t.test))
    R.check(not (script & in_conn), run1, run1.node,
            'script commands are dispatched only by FilterState.run',
            f'{sorted(script & in_conn)} dispatched directly in the '
            f'connection loop')


def _filter_cls(ctx):
    m = ctx.proj.module(DFILTER)
    for c in m.classes.values():
        if c.own_method('put') and c.own_method('delete'):
            return c
    raise AnchorError('dict FilterSet class not found')


def r194(ctx) -> None:
    R = ctx.rule('R19.4', 'active script cannot be deleted; rename carries '
                 'active', 3)
    c = _filter_cls(ctx)
    d = c.own_method('delete')
    cfg = cfg_of(d)
    dels = cfg.find(lambda n: isinstance(n.stmt, ast.Delete)
                    or any(call_name(x) == 'pop' for x in n.calls()))
    tests = [t for t in cfg.nodes if t.kind == 'test'
             and '_active' in txt(t.stmt.test)]
    ok = bool(dels) and bool(tests)
    for t in tests:
        atoms = guard_atoms(t.stmt.test)
        if len(atoms) != 1:
            ok = False
            continue
        a, pol = atoms[0]
        eq = isinstance(t.stmt.test, ast.Compare) and \
            isinstance(t.stmt.test.ops[0], (ast.Eq, ast.Is))
        act_branch = 't' if (eq == pol) else 'f'
        firsts = [m for m, lab in t.succ if lab == act_branch]
        reach = cfg.reach(firsts, labels=NORMAL, first_labels=NORMAL,
                          include_starts=True) | set(firsts)
        if any(x in reach for x in dels):
            ok = False
        if not any(isinstance(x.stmt, ast.Raise) for x in reach):
            ok = False
    ok = ok and all(cfg.dominated_by(x, tests) for x in dels)
    R.check(ok, d, d.node, 'delete: active test raises before removal',
            'the active script can be deleted (test missing, after the '
            'removal, or not raising)')
    r = c.own_method('rename')
    rcfg = cfg_of(r)
    stores = rcfg.find(lambda n: n.kind == 'stmt' and any(
        is_attr(t, '_active', 'self') for t in targets_of(n.stmt)))
    p = r.params()
    ok = False
    for s in stores:
        if txt(s.stmt.value) == p[2]:
            for t in rcfg.nodes:
                if t.kind == 'test' and rcfg.controlled_by(s, t, 't') and \
                        '_active' in txt(t.stmt.test) and \
                        p[1] in txt(t.stmt.test):
                    ok = True
    R.check(ok, r, r.node, 'rename: active marker follows the script',
            'renaming the active script does not move the active marker '
            'to the new name')
    moves = [s for s in walk_local(r.node) if isinstance(s, ast.Assign)
             and any(isinstance(t, ast.Subscript)
                     and is_attr(t.value, '_filters', 'self')
                     and txt(t.slice) == p[2] for t in s.targets)]
    def old_value(v) -> str | None:
        """'index' for self._filters[old], 'pop' for self._filters.pop(old)"""
        if isinstance(v, ast.Subscript) and is_attr(
                v.value, '_filters', 'self') and txt(v.slice) == p[1]:
            return 'index'
        if isinstance(v, ast.Call) and call_name(v) == 'pop' and is_attr(
                v.func.value, '_filters', 'self') and len(v.args) == 1 \
                and txt(v.args[0]) == p[1]:
            return 'pop'
        return None
    ok = bool(moves) and all(old_value(s.value) for s in moves)
    pop_form = bool(moves) and all(old_value(s.value) == 'pop'
                                   for s in moves)
    R.check(ok, r, r.node, 'rename: content is carried over unchanged',
            'rename does not store the old script bytes under the new name')
    # store-then-delete loses the script when both names are equal: that
    # case must never reach the delete.  `after in _filters` (unweakened)
    # refuses it, since `before in _filters` holds there.
    dels = rcfg.find(lambda n: isinstance(n.stmt, ast.Delete) and any(
        isinstance(t, ast.Subscript) and is_attr(t.value, '_filters', 'self')
        and txt(t.slice) == p[1] for t in n.stmt.targets))
    refuse = []
    for t in rcfg.nodes:
        if t.kind != 'test':
            continue
        at = guard_atoms(t.stmt.test)
        raises = any(isinstance(m.stmt, ast.Raise) for m, lab in t.succ
                     if lab == 't')
        # exactly `after in self._filters` (a disjunction only widens it)
        if raises and (at == [(f'{p[2]} in self._filters', True)] or (
                isinstance(t.stmt.test, ast.BoolOp) and isinstance(
                    t.stmt.test.op, ast.Or)
                and f'{p[2]} in self._filters' in [txt(v) for v in
                                                   t.stmt.test.values])):
            refuse.append(t)
        # or an explicit early exit for the self-rename
        if len(at) == 1 and at[0][0] in (f'{p[1]} == {p[2]}',
                                         f'{p[2]} == {p[1]}') and any(
                isinstance(m.stmt, (ast.Raise, ast.Return))
                for m, lab in t.succ if lab == ('t' if at[0][1] else 'f')):
            refuse.append(t)
    # `_filters[new] = _filters.pop(old)` takes the value out BEFORE it
    # stores it: with old == new the script is put back, nothing is lost
    R.check(pop_form or (bool(dels) and bool(refuse) and all(
        rcfg.dominated_by(d_, refuse) for d_ in dels)), r, r.node,
        'rename: old == new never reaches the delete',
        'the "target exists" refusal is weakened (extra conjunct) or '
        'missing and nothing else stops a rename onto the same name: '
        '`_filters[new] = _filters[old]; del _filters[old]` then DELETES '
        'the script — RENAMESCRIPT "x" "x" answers OK, LISTSCRIPTS is '
        'empty and the active marker points at nothing')


def r195(ctx) -> None:
    R = ctx.rule('R19.5', 'verbatim put/get', 3)
    c = _filter_cls(ctx)
    put, get = c.own_method('put'), c.own_method('get')
    p = put.params()
    st = [s for s in walk_local(put.node) if isinstance(s, ast.Assign)
          and any(isinstance(t, ast.Subscript)
                  and is_attr(t.value, '_filters', 'self')
                  for t in s.targets)]
    ok = bool(st) and all(is_name(s.value, p[2]) and any(
        txt(t.slice) == p[1] for t in s.targets
        if isinstance(t, ast.Subscript)) for s in st)
    R.check(ok, put, put.node, 'put stores its argument unchanged under '
            'its name', 'put transforms the script bytes or the name '
            'before storing')
    g = get.params()
    rets = [r for r in walk_local(get.node) if isinstance(r, ast.Return)]
    ok = bool(rets) and all(
        isinstance(r.value, ast.Subscript)
        and is_attr(r.value.value, '_filters', 'self')
        and txt(r.value.slice) == g[1] for r in rets)
    R.check(ok, get, get.node, 'get returns the stored value',
            'get does not return self._filters[name] unchanged')
    fs = ctx.proj.cls(SSTATE, 'FilterState')
    ps = fs.own_method('_do_put_script')
    gs = fs.own_method('_do_get_script')
    ok1 = any(call_name(x) == 'put' and [txt(a) for a in x.args] ==
              ['cmd.script_name', 'cmd.script_data']
              for x in calls_in(ps.node))
    ok2 = False
    for x in calls_in(gs.node, 'GetScriptResponse'):
        if x.args:
            for v in resolve_local(gs, x.args[0]):
                v = strip_await(v)
                if isinstance(v, ast.Call) and call_name(v) == 'get' and \
                        [txt(a) for a in v.args] == ['cmd.script_name']:
                    ok2 = True
    R.check(ok1 and ok2, ps, ps.node,
            'PUTSCRIPT/GETSCRIPT pass name and bytes through unchanged',
            'the ManageSieve handlers transform the script name or bytes '
            'between the command and the store')
    gr = ctx.proj.cls(SRESP, 'GetScriptResponse')
    w = gr.own_method('write')
    ok = any(call_name(x) == 'LiteralString' and x.args
             and txt(x.args[0]) == 'self.script_data'
             for x in calls_in(w.node))
    R.check(ok, w, w.node, 'GETSCRIPT writes the bytes as a literal',
            'GetScriptResponse does not emit LiteralString(self.script_data)')


def r196(ctx) -> None:
    R = ctx.rule('R19.6', 'per-identity script store (dict)', 2)
    m = ctx.proj.module(DICTINIT)
    ident = m.classes.get('Identity')
    if ident is None:
        raise AnchorError('dict Identity class vanished')
    f = ident.own_method('new_session')
    if f is None:
        raise AnchorError('dict Identity.new_session vanished')
    keys = []
    for n in walk_local(f.node):
        if isinstance(n, ast.Subscript) and 'set_cache' in txt(n.value):
            keys.append((n, n.slice))
        if isinstance(n, ast.Call) and call_name(n) in ('get', 'pop',
                                                        'setdefault') and \
                'set_cache' in txt(n.func.value) and n.args:
            keys.append((n, n.args[0]))
    if not keys:
        raise AnchorError('new_session: set_cache accesses not found')
    for n, k in keys:
        vals = {txt(v) for v in resolve_local(f, k)} | {txt(k)}
        R.check('self.name' in vals or 'self._name' in vals, f, n,
                f'new_session: set_cache keyed by the identity ({txt(k)})',
                f'the per-user store cache is keyed by {sorted(vals)}, not '
                f'by the session\'s own identity name: users share (or '
                f'swap) mailboxes and scripts')
    # the objects handed to Session are the ones read from / stored into it
    ok = False
    for c in calls_in(f.node, 'Session'):
        args = [txt(a) for a in c.args]
        stored = [s for s in walk_local(f.node) if isinstance(s, ast.Assign)
                  and any(isinstance(t, ast.Subscript)
                          and 'set_cache' in txt(t.value)
                          for t in s.targets)]
        if stored and all(isinstance(s.value, ast.Tuple) and
                          all(txt(e) in args for e in s.value.elts)
                          for s in stored):
            ok = True
    R.check(ok, f, f.node, 'new_session: the cached sets are the ones given '
            'to the Session', 'the Session is built from objects other '
            'than those cached for this identity')


def r197(ctx) -> None:
    R = ctx.rule('R19.7', 'the sieve state is built only from verified '
                 'credentials', 1)
    from .c09 import login_dominated
    conn = ctx.proj.cls(SIEVE, 'ManageSieveConnection')
    f = conn.own_method('_login')
    if f is None:
        raise AnchorError('ManageSieveConnection._login vanished')
    login_dominated(ctx, R, f, 'sieve')

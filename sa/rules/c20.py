"""C20 — lock primitives: R20.1-R20.6."""
from __future__ import annotations

import ast

from ..cfg import NORMAL, ALL, walk_local
from ..facts import (cfg_of, call_name, calls_in, targets_of, guard_atoms,
                     is_attr, is_name, enclosing, const_value, kwarg,
                     parents_map, strip_await)
from ..loader import txt, AnchorError

CONC = 'pymap/concurrent.py'
IO = 'pymap/backend/maildir/io.py'


def rw_classes(ctx):
    """Role: classes with read_lock/write_lock context managers and an
    integer reader counter."""
    out = []
    for c in ctx.proj.module(CONC).classes.values():
        if c.own_method('read_lock') and c.own_method('write_lock'):
            init = c.own_method('__init__')
            counters = []
            if init is not None:
                for s in walk_local(init.node):
                    for t in targets_of(s):
                        if isinstance(t, ast.Attribute) and \
                                is_name(t.value, 'self') and \
                                const_value(getattr(s, 'value', None)) == \
                                (True, 0):
                            counters.append(t.attr)
            if counters:
                out.append((c, counters[0]))
    return out


def _writer_mutex(c) -> str | None:
    w = c.own_method('write_lock')
    for n in walk_local(w.node):
        if isinstance(n, (ast.With, ast.AsyncWith)):
            for i in n.items:
                if isinstance(i.context_expr, ast.Attribute) and \
                        is_name(i.context_expr.value, 'self'):
                    return i.context_expr.attr
    for c2 in calls_in(w.node, 'acquire'):
        if isinstance(c2.func.value, ast.Attribute) and \
                is_name(c2.func.value.value, 'self'):
            return c2.func.value.attr
    return None


def _helpers(c, f, depth=2):
    """f plus same-class helpers it calls (depth-limited)."""
    out = [f]
    if depth:
        for cc in calls_in(f.node):
            if isinstance(cc.func, ast.Attribute) and \
                    is_name(cc.func.value, 'self'):
                h = c.own_method(cc.func.attr)
                if h is not None and h not in out:
                    for x in _helpers(c, h, depth - 1):
                        if x not in out:
                            out.append(x)
    return out


def _counter_stores(f, counter, op):
    return [s for s in walk_local(f.node)
            if isinstance(s, ast.AugAssign) and isinstance(s.op, op)
            and is_attr(s.target, counter, 'self')]


def _yield_split(f):
    """Helpers reachable before / after the yield of a context manager."""
    before, after = [], []
    ys = [n for n in walk_local(f.node)
          if isinstance(n, (ast.Yield, ast.YieldFrom))]
    return ys


def check(ctx) -> None:
    ctx.explanation = (
        'Static decision of structural necessary conditions of C20: in each '
        'read-write lock the first reader takes the writer mutex while the '
        'reader-count mutex is still held; no suspension point lies between '
        'a reader-count increment and the protection that undoes it; every '
        'lock context manager releases what it acquired on all exits; the '
        'file lock is created exclusively and removed in a finally; every '
        'use of read_lock()/write_lock() in the package is an `async with` '
        'item (one audited manual use); the asyncio and threading variants '
        'agree.')
    ctx.not_decided = ('exclusion and deadlock freedom over all schedules; '
                       'the lock-file expiry policy (documented design '
                       'choice).')
    classes = rw_classes(ctx)
    if len(classes) < 2:
        raise AnchorError('expected the asyncio and threading read-write '
                          'lock classes in pymap/concurrent.py')
    r201(ctx, classes)
    r202(ctx, classes)
    r203(ctx)
    r204(ctx)
    r205(ctx)
    r206(ctx, classes)


def r201(ctx, classes) -> None:
    R = ctx.rule('R20.1', 'first reader takes the writer mutex inside the '
                 'count mutex', 2)
    for c, counter in classes:
        wm = _writer_mutex(c)
        rl = c.own_method('read_lock')
        if wm is None:
            raise AnchorError(f'{c.name}: writer mutex not identified')
        # the count mutex: the lock under which the counter is incremented
        acq = []
        count_mutexes = set()
        for f in _helpers(c, rl):
            for s in _counter_stores(f, counter, ast.Add):
                for w in enclosing(f.node, s, (ast.With, ast.AsyncWith)):
                    for i in w.items:
                        if isinstance(i.context_expr, ast.Attribute):
                            count_mutexes.add(i.context_expr.attr)
            for cc in calls_in(f.node, 'acquire'):
                if is_attr(cc.func.value, wm, 'self'):
                    acq.append((f, cc))
            for w in walk_local(f.node):
                if isinstance(w, (ast.With, ast.AsyncWith)) and f is not \
                        c.own_method('write_lock'):
                    for i in w.items:
                        if is_attr(i.context_expr, wm, 'self'):
                            acq.append((f, w))
        key = f'{c.name}: reader-side acquisition of {wm} inside the count ' \
              f'mutex'
        if not acq:
            R.fail(rl, rl.node, key, 'readers never take the writer mutex: '
                   'no exclusion against writers at all')
            continue
        if not count_mutexes:
            R.fail(rl, rl.node, key, 'the reader counter is modified outside '
                   'any mutex')
            continue
        for f, cc in acq:
            inside = any(
                isinstance(i.context_expr, ast.Attribute)
                and i.context_expr.attr in count_mutexes
                for w in enclosing(f.node, cc, (ast.With, ast.AsyncWith))
                for i in w.items)
            R.check(inside, f, cc, key,
                    f'the first reader releases the count mutex '
                    f'({sorted(count_mutexes)}) BEFORE waiting for {wm}: a '
                    f'second reader arriving meanwhile sees counter > 1 and '
                    f'enters while the writer still holds the lock (W in, '
                    f'R1 queued, R2 in, W out)', 'textbook form')


def r202(ctx, classes) -> None:
    R = ctx.rule('R20.2', 'reader count is undone on cancellation', 2)
    for c, counter in classes:
        rl = c.own_method('read_lock')
        cfg = cfg_of(rl)
        ys = cfg.find(lambda n: any(isinstance(x, (ast.Yield, ast.YieldFrom))
                                    for x in n.walk()))
        if not ys:
            raise AnchorError(f'{c.name}.read_lock has no yield')
        # nodes of read_lock that (through a helper) increment the counter
        incs = []
        helper_bad = []
        for n in cfg.stmt_nodes():
            hit = any(isinstance(n.stmt, ast.AugAssign)
                      and is_attr(n.stmt.target, counter, 'self')
                      and isinstance(n.stmt.op, ast.Add)
                      for _ in [0]) if n.kind == 'stmt' else False
            for cc in n.calls():
                if isinstance(cc.func, ast.Attribute) and \
                        is_name(cc.func.value, 'self'):
                    h = c.own_method(cc.func.attr)
                    if h is not None and _counter_stores(h, counter, ast.Add):
                        hit = True
                        # inside the helper: no suspension after the increment
                        hcfg = cfg_of(h)
                        for s in _counter_stores(h, counter, ast.Add):
                            for sn in hcfg.nodes_of(s):
                                later = hcfg.reach([sn], labels=NORMAL)
                                helper_bad += [
                                    (h.qualname, x.lineno) for x in later
                                    if x.suspends and x.kind != 'with_exit']
            if hit:
                incs.append(n)
        key = f'{c.name}: no suspension between count increment and the ' \
              f'protected region'
        if not incs:
            R.fail(rl, rl.node, key, 'reader counter is never incremented')
            continue
        # the yield must sit in a try/finally (or the region right after)
        mid = cfg.between(incs, ys)
        bad = sorted({x.lineno for x in mid
                      if x.suspends and x.kind != 'with_exit'
                      and x not in incs and x not in ys})
        R.check(not bad and not helper_bad, rl, rl.node, key,
                f'a task cancelled while suspended at line(s) '
                f'{bad or helper_bad} has already incremented the reader '
                f'count and is outside the try/finally that decrements it: '
                f'the count stays > 0 forever, later readers never take the '
                f'writer mutex and overlap writers',
                'increment is immediately followed by the try/finally')
        # and the yield is covered by a finally that decrements
        for y in ys:
            tries = [t for t in enclosing(rl.node, y.stmt, (ast.Try,))
                     if t.finalbody]
            dec = False
            for t in tries:
                for s in t.finalbody:
                    for cc in calls_in(s):
                        if isinstance(cc.func, ast.Attribute) and \
                                is_name(cc.func.value, 'self'):
                            h = c.own_method(cc.func.attr)
                            if h is not None and \
                                    _counter_stores(h, counter, ast.Sub):
                                dec = True
                    if any(isinstance(x, ast.AugAssign)
                           and isinstance(x.op, ast.Sub)
                           and is_attr(x.target, counter, 'self')
                           for x in ast.walk(s)):
                        dec = True
            R.check(dec, rl, y.stmt, f'{c.name}: reader count decremented '
                    f'in a finally around the yield',
                    'the reader count is not decremented when the critical '
                    'section raises or is cancelled')


ACQ = {'acquire': 'release', '_try_lock': '_unlock',
       '_acquire_read': '_release_read'}


def r203(ctx) -> None:
    R = ctx.rule('R20.3', 'release on all exits', 5)
    m = ctx.proj.module(CONC)
    for f in m.funcs.values():
        if not any('asynccontextmanager' in d or 'contextmanager' in d
                   for d in f.decorators):
            continue
        if f.cls is None or not (f.name in ('read_lock', 'write_lock')):
            continue
        cfg = cfg_of(f)
        for y in cfg.find(lambda n: any(
                isinstance(x, (ast.Yield, ast.YieldFrom))
                for x in n.walk())):
            # what was acquired on the way here?
            held = []
            for n in cfg.nodes:
                if n.kind not in ('stmt', 'test'):
                    continue
                for cc in n.calls():
                    nm = call_name(cc)
                    if nm in ACQ and cfg.dominated_by(y, [n]) or (
                            nm in ACQ and n.kind == 'test'
                            and cfg.controlled_by(y, n, 't')):
                        held.append((nm, txt(cc.func.value)
                                     if isinstance(cc.func, ast.Attribute)
                                     else ''))
            key = f'{f.qualname}: yield@{_ordinal(cfg, y)} releases ' \
                  f'{sorted(set(h[0] for h in held)) or "nothing"}'
            if not held:
                # holding through `with`/`async with` is release-by-construct
                R.ok(f, y.stmt, key, 'nothing acquired manually on this '
                     'path (with-statement or no lock held)')
                continue
            tries = [t for t in enclosing(f.node, y.stmt, (ast.Try,))
                     if t.finalbody]
            missing = []
            for nm, recv in set(held):
                rel = ACQ[nm]
                found = any(call_name(cc) == rel and (
                    not recv or not isinstance(cc.func, ast.Attribute)
                    or txt(cc.func.value) == recv)
                    for t in tries for s in t.finalbody
                    for cc in calls_in(s))
                if not found:
                    missing.append(f'{recv}.{rel}()')
            R.check(not missing, f, y.stmt, key,
                    f'the critical section is not inside a try/finally that '
                    f'calls {missing}: an exception (or cancellation) in the '
                    f'holder leaves the lock taken forever',
                    'released in a finally')


def _ordinal(cfg, y) -> int:
    ys = sorted(n.lineno for n in cfg.nodes if any(
        isinstance(x, (ast.Yield, ast.YieldFrom)) for x in n.walk()))
    return ys.index(y.lineno) + 1


def r204(ctx) -> None:
    R = ctx.rule('R20.4', 'lock file is created exclusively', 2)
    fl = ctx.proj.cls(CONC, 'FileLock')
    tl = fl.own_method('_try_lock')
    if tl is None:
        raise AnchorError('FileLock._try_lock vanished')
    excl = False
    for c in calls_in(tl.node):
        if call_name(c) == 'open' and isinstance(c.func, ast.Name):
            mode = c.args[1] if len(c.args) > 1 else kwarg(c, 'mode')
            cst, v = const_value(mode)
            if cst and isinstance(v, str) and 'x' in v:
                excl = True
        if call_name(c) == 'open' and isinstance(c.func, ast.Attribute) and \
                'O_EXCL' in txt(c) and 'O_CREAT' in txt(c):
            excl = True
    R.check(excl, tl, tl.node, 'FileLock._try_lock uses exclusive create',
            'the lock file is not opened with exclusive-create semantics '
            "(mode 'x' / O_CREAT|O_EXCL): two writers can both \"create\" "
            'it and hold the lock at once')
    # a failed exclusive create must report failure
    cfg = cfg_of(tl)
    hs = [h for h in walk_local(tl.node) if isinstance(h, ast.ExceptHandler)
          and h.type is not None and 'FileExistsError' in txt(h.type)]
    ok = bool(hs) and all(
        any(isinstance(s, ast.Return) and const_value(s.value) ==
            (True, False) for s in h.body) for h in hs)
    R.check(ok, tl, tl.node, 'FileLock._try_lock: FileExistsError -> False',
            'an existing lock file is not reported as "not acquired"')
    wl = fl.own_method('write_lock')

    def got_edges(cfg_):
        """Successors on the true edge of a `self._try_lock()` test."""
        ts = [t for t in cfg_.nodes if t.kind == 'test' and any(
            pol and a.endswith('._try_lock()') and a.count('(') == 1
            for a, pol in guard_atoms(t.stmt.test))]
        return [m for t in ts for m, lab in t.succ if lab == 't']
    # wrappers: a method of FileLock ACQUIRES when every normal return is
    # reached only through a successful _try_lock() (all other exits raise)
    acquirers = set()
    for fs in fl.methods.values():
        for g in fs:
            if g is wl or g.name in ('_try_lock', 'read_lock'):
                continue
            gcfg = cfg_of(g)
            got = got_edges(gcfg)
            rets = gcfg.find(lambda n: isinstance(n.stmt, ast.Return))
            falls = gcfg.exit in gcfg.reach([gcfg.entry], avoid=rets,
                                            labels=NORMAL,
                                            first_labels=NORMAL)
            if got and not any(isinstance(x, (ast.Yield, ast.YieldFrom))
                               for x in walk_local(g.node)) and all(
                    gcfg.dominated_by(r, got, labels=ALL) for r in rets) \
                    and (rets or falls) and not (falls and not
                                                 gcfg.dominated_by(
                                                     gcfg.exit, got,
                                                     labels=NORMAL)):
                acquirers.add(g.name)
    # _try_lock result must control the yield
    wcfg = cfg_of(wl)
    acq_after = [m for n in wcfg.nodes for c in n.calls()
                 if call_name(c) in acquirers
                 for m, lab in n.succ if lab in NORMAL]
    ys = wcfg.find(lambda n: any(isinstance(x, (ast.Yield, ast.YieldFrom))
                                 for x in n.walk()))
    bad = []
    for y in ys:
        ok = any(t.kind == 'test' and any(call_name(c) == '_try_lock'
                                          for c in t.calls())
                 and wcfg.controlled_by(y, t, 't')
                 and any(pol and a.endswith('._try_lock()')
                         and a.count('(') == 1
                         for a, pol in guard_atoms(t.stmt.test))
                 for t in wcfg.nodes) or (
            bool(acq_after) and wcfg.dominated_by(y, acq_after, labels=ALL))
        if not ok:
            bad.append(y.lineno)
    R.check(bool(ys) and not bad, wl, wl.node,
            'FileLock.write_lock enters only after _try_lock() succeeded',
            f'yield at line(s) {bad} is reachable without a successful '
            f'_try_lock(): the write critical section runs without holding '
            f'the lock file')


    # ... and removes the lock file only when it created it
    tl_tests = [t for t in wcfg.nodes if t.kind == 'test' and any(
        pol and a.endswith('._try_lock()') and a.count('(') == 1
        for a, pol in guard_atoms(t.stmt.test))]
    got = [m for t in tl_tests for m, lab in t.succ if lab == 't'] + \
        acq_after
    uns = wcfg.find(lambda n: any(call_name(c) == '_unlock'
                                  for c in n.calls()))
    badu = sorted({u.lineno for u in uns
                   if not wcfg.dominated_by(u, got, labels=ALL)})
    R.check(bool(uns) and bool(got) and not badu, wl, wl.node,
            'FileLock.write_lock unlinks the lock file only after its own '
            '_try_lock() succeeded',
            f'_unlock() at line(s) {badu} also runs on paths where this '
            f'waiter never created the lock file (retry delays exhausted -> '
            f'TimeoutError, or cancelled during the sleep): it deletes the '
            f'CURRENT HOLDER\'s lock file, so the next writer\'s exclusive '
            f'create succeeds while the holder is still inside — two '
            f'writers of dovecot-uidlist at once (duplicate UIDs)')


def r205(ctx) -> None:
    R = ctx.rule('R20.5', 'lock context managers are used via `async with`',
                 15)
    n_manual = 0
    for f in ctx.proj.all_funcs('pymap/'):
        if 'read_lock' not in f.module.src and \
                'write_lock' not in f.module.src:
            continue
        if f.rel.startswith(('pymap/admin/', 'pymap/backend/redis/')):
            continue
        pm = None
        for c in calls_in(f.node):
            if call_name(c) not in ('read_lock', 'write_lock') or \
                    not isinstance(c.func, ast.Attribute):
                continue
            # nested function results belong to the nested def
            pm = pm or parents_map(f.node)
            owner = c
            inner = False
            while id(owner) in pm:
                owner = pm[id(owner)]
                if isinstance(owner, (ast.FunctionDef, ast.AsyncFunctionDef)):
                    inner = owner is not f.node
                    break
            if inner:
                continue
            par = pm.get(id(c))
            key = f'{f.qualname}: {txt(c.func)[:50]}()'
            if isinstance(par, ast.withitem):
                w = pm.get(id(par))
                R.check(isinstance(w, ast.AsyncWith), f, c, key,
                        'an async context manager lock is used in a plain '
                        '`with`')
            elif isinstance(par, ast.Call) and call_name(par) == \
                    'enter_async_context':
                R.ok(f, c, key, 'entered through an AsyncExitStack (released '
                     'when the stack exits)')
            elif isinstance(par, ast.Return):
                R.ok(f, c, key, 'factory: returned to the caller')
            elif isinstance(par, ast.Assign):
                # manual protocol: must be paired with __aexit__ in a finally
                n_manual += 1
                cls = f.cls
                aexit_in_finally = False
                if cls is not None:
                    for gs in cls.methods.values():
                        for g in gs:
                            for t in walk_local(g.node):
                                if isinstance(t, ast.Try) and t.finalbody:
                                    for s in t.finalbody:
                                        for cc in calls_in(s):
                                            h = cls.own_method(call_name(cc))
                                            if call_name(cc) == '__aexit__' \
                                                    or (h is not None and any(
                                                        call_name(x) ==
                                                        '__aexit__' for x in
                                                        calls_in(h.node))):
                                                aexit_in_finally = True
                R.check(aexit_in_finally, f, c, key,
                        'the lock object is entered manually and no '
                        '`finally` of the class calls its __aexit__: the '
                        'lock leaks on exceptions')
            else:
                R.fail(f, c, key, 'the lock context manager is created but '
                       'neither entered with `async with`, returned, nor '
                       'stored for a paired manual release: the critical '
                       'section runs unlocked')
    ctx.notes.append(f'R20.5: {n_manual} manual (non-async-with) use(s)')


def r206(ctx, classes) -> None:
    R = ctx.rule('R20.6', 'asyncio and threading variants agree', 1)
    def shape(c, counter):
        rl = c.own_method('read_lock')
        out = []
        for f in _helpers(c, rl):
            s = []
            for n in walk_local(f.node):
                if isinstance(n, ast.AugAssign) and \
                        is_attr(n.target, counter, 'self'):
                    s.append('inc' if isinstance(n.op, ast.Add) else 'dec')
                elif isinstance(n, ast.Call) and \
                        call_name(n) in ('acquire', 'release'):
                    s.append(call_name(n))
                elif isinstance(n, (ast.With, ast.AsyncWith)):
                    s.append('with')
                elif isinstance(n, ast.Compare):
                    s.append('cmp:' + txt(n).replace('self.', ''))
                elif isinstance(n, (ast.Yield,)):
                    s.append('yield')
                elif isinstance(n, ast.Try):
                    s.append('try')
            out.extend(x for x in s if x not in ('with', 'try'))
        return sorted(out)
    shapes = [(c.name, shape(c, counter)) for c, counter in classes]
    base = shapes[0]
    for nm, sh in shapes[1:]:
        R.check(sh == base[1], classes[0][0].own_method('read_lock'), None,
                f'{base[0]} vs {nm}: same reader protocol',
                f'the two variants order counter updates / mutex '
                f'operations differently: {base[1]} vs {sh}')

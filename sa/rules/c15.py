"""C15 — maildir survives restart and crashes: R15.1-R15.6."""
from __future__ import annotations

import ast

from ..cfg import NORMAL, ALL, walk_local
from ..facts import (cfg_of, call_name, calls_in, targets_of, guard_atoms,
                     is_attr, is_name, enclosing, local_assigns, kwarg,
                     const_value, strip_await, resolve_local, names_in)
from ..loader import txt, AnchorError

IO = 'pymap/backend/maildir/io.py'
MAILDIR = 'pymap/backend/maildir/mailbox.py'
MD = 'pymap/backend/maildir/'


def check(ctx) -> None:
    ctx.explanation = (
        'Static decision of structural necessary conditions of C15: control '
        'files are written only by file_write(), which writes a temporary '
        'file created IN THE TARGET\'S DIRECTORY and renames it over the '
        'target; UID-list / subscription / user-file mutators are called '
        'only on objects bound by with_write(); every mutator of a '
        'FileWriteable marks the object touched (else the write-back is '
        'skipped); in append/copy/move the message file operation precedes '
        'the UID-list block and the return follows the block\'s exit '
        '(acknowledge after write-back); a flag change is one rename; the '
        'write lock is released when entering the write context fails.')
    ctx.not_decided = ('the state after every crash prefix; fsync; the '
                       'behaviour of stdlib mailbox.Maildir.add.')
    r151(ctx)
    r152(ctx)
    r153(ctx)
    r154(ctx)
    r155(ctx)
    r156(ctx)


def r151(ctx) -> None:
    R = ctx.rule('R15.1', 'atomic replace with a same-directory temp file', 3)
    fw_cls = ctx.proj.cls(IO, 'FileWriteable')
    fw = fw_cls.own_method('file_write')
    if fw is None:
        raise AnchorError('FileWriteable.file_write vanished')
    # (a) who opens files for writing in the maildir backend
    for f in ctx.proj.all_funcs(MD):
        for c in calls_in(f.node):
            nm = call_name(c)
            mode = None
            if nm == 'open' and isinstance(c.func, ast.Name):
                mode = c.args[1] if len(c.args) > 1 else kwarg(c, 'mode')
            elif nm in ('NamedTemporaryFile', 'mkstemp', 'TemporaryFile'):
                mode = ast.Constant('w')
            else:
                continue
            cst, v = const_value(mode)
            if mode is None or (cst and isinstance(v, str)
                                and not set(v) & set('wax+')):
                continue
            # scope: control files = files of FileReadable subclasses (their
            # get_file() path); empty exclusive-create markers and the sieve
            # script store are not control files of this property
            in_cls = f.cls is not None and any(
                k.name in ('FileReadable', 'FileWriteable')
                for k in f.cls.mro())
            path_arg = c.args[0] if c.args else None
            via_get_file = path_arg is not None and any(
                'get_file' in txt(v2) for v2 in resolve_local(f, path_arg))
            if not (in_cls or via_get_file):
                ctx.notes.append(
                    f'R15.1 sibling note: {f.fq} line {c.lineno} opens '
                    f'{txt(path_arg)} with mode {txt(mode)} (not a '
                    f'FileWriteable control file; out of scope)')
                continue
            R.check(f is fw, f, c, f'{f.qualname}: opens a file for writing',
                    f'{f.qualname} writes a maildir control file directly, '
                    f'bypassing the temp-file + rename discipline: a crash '
                    f'mid-write leaves the file truncated/unreadable')
    # (b) file_write: temp file, then os.rename(tmp, target), dir= target dir
    cfg = cfg_of(fw)
    tmps = [c for c in calls_in(fw.node)
            if call_name(c) in ('NamedTemporaryFile', 'mkstemp')]
    renames = [c for c in calls_in(fw.node)
               if call_name(c) in ('rename', 'replace')
               and 'os' in txt(c.func)]
    ok = bool(tmps) and bool(renames)
    R.check(ok, fw, fw.node, 'file_write: temp file then os.rename over the '
            'target',
            'file_write does not write a temporary file and rename it over '
            'the target: readers can observe (and a crash can leave) a '
            'half-written control file')
    if ok:
        target = renames[0].args[1] if len(renames[0].args) > 1 else None
        tnames = {txt(target)} | {txt(v) for v in
                                  resolve_local(fw, target)} \
            if target is not None else set()
        for t in tmps:
            d = kwarg(t, 'dir')
            good = False
            if d is not None:
                for v in resolve_local(fw, d):
                    s = txt(v)
                    # os.path.dirname(<target>) / self.path / path of target
                    if any(n in s for n in tnames if n) or \
                            'self.path' in s or 'self._path' in s:
                        good = True
            R.check(good, fw, t, 'file_write: temp file is created in the '
                    'target\'s directory',
                    'the temporary file is created in the system temp '
                    'directory (no dir= derived from the target): when the '
                    'mail store is on another filesystem os.rename fails '
                    'with EXDEV (Invalid cross-device link) and NO control '
                    'file is ever written — UIDs and subscriptions do not '
                    'persist')
        # the write precedes the rename; rename precedes clearing touched
        wnodes = cfg.find(lambda n: any(call_name(c) == 'write'
                                        and is_name(c.func.value, 'self')
                                        for c in n.calls()))
        rnodes = cfg.find(lambda n: any(c in renames for c in n.calls()))
        R.check(bool(wnodes) and all(cfg.dominated_by(r, wnodes)
                                     for r in rnodes), fw, fw.node,
                'file_write: content is written before the rename',
                'the rename can happen before the content is written')
        # ... and the temp file is CLOSED (flushed) before it is renamed
        tmp_withs = [w for w in walk_local(fw.node)
                     if isinstance(w, ast.With) and any(
                         any(x is t for x in ast.walk(i.context_expr))
                         for i in w.items for t in tmps)]
        inside = [r.lineno for r in rnodes for w in tmp_withs
                  if any(x is r.stmt for b in w.body for x in ast.walk(b))]
        closed_manually = any(call_name(c) in ('close', 'flush', 'fsync')
                              for c in calls_in(fw.node))
        R.check((bool(tmp_withs) and not inside) or closed_manually, fw,
                fw.node, 'file_write: the temp file is closed before the '
                'rename',
                f'os.rename at line(s) {inside} runs inside the `with '
                f'NamedTemporaryFile` block, before the buffered content is '
                f'flushed by close(): a crash between the rename and the '
                f'close leaves an EMPTY (or truncated) control file in '
                f'place of the old one')


MUTATOR_NAMES = {'set', 'remove', 'add'}


def r152(ctx) -> None:
    R = ctx.rule('R15.2', 'control-file mutation only under with_write', 8)
    for f in ctx.proj.all_funcs(MD):
        if f.rel == IO:
            continue
        # variables bound by `async with X.with_read/with_write/with_init(...)
        # as v`
        bound: dict[str, list[tuple[str, ast.AsyncWith]]] = {}
        for w in walk_local(f.node):
            if isinstance(w, ast.AsyncWith):
                for i in w.items:
                    if i.optional_vars is not None and \
                            isinstance(i.context_expr, ast.Call) and \
                            call_name(i.context_expr) in (
                                'with_read', 'with_write', 'with_init'):
                        bound.setdefault(txt(i.optional_vars), []).append(
                            (call_name(i.context_expr), w))
        if not bound:
            continue
        for n in walk_local(f.node):
            recv = None
            what = None
            if isinstance(n, ast.Call) and \
                    isinstance(n.func, ast.Attribute) and \
                    isinstance(n.func.value, ast.Name) and \
                    n.func.value.id in bound and \
                    n.func.attr in MUTATOR_NAMES:
                recv, what = n.func.value.id, n.func.attr + '()'
            elif isinstance(n, (ast.Assign, ast.AugAssign)):
                for t in targets_of(n):
                    if isinstance(t, ast.Attribute) and \
                            isinstance(t.value, ast.Name) and \
                            t.value.id in bound:
                        recv, what = t.value.id, '.' + t.attr + ' store'
            if recv is None:
                continue
            ws = [w for w in enclosing(f.node, n, (ast.AsyncWith,))]
            how = None
            for kind, w in bound[recv]:
                if w in ws:
                    how = kind
            key = f'{f.qualname}: {recv}{what if what[0] == "." else "." + what}'
            if how is None:
                R.fail(f, n, key, f'`{recv}` is mutated after its context '
                       f'block has ended: the change is never written back')
            else:
                R.check(how == 'with_write', f, n, key,
                        f'`{recv}` is bound by {how}(): the object is a '
                        f'throw-away copy, the mutation is never written '
                        f'back (and is made without the file lock)',
                        'bound by with_write')


def r153(ctx) -> None:
    R = ctx.rule('R15.3', 'mutate => touch', 6)
    base = ctx.proj.cls(IO, 'FileWriteable')
    for c in ctx.proj.subclasses(base, MD):
        init = c.own_method('__init__')
        fields = set()
        for k in c.mro():
            i = k.own_method('__init__')
            if i is not None and k is not base and k.name != 'FileReadable':
                fields |= {t.attr for s in walk_local(i.node)
                           for t in targets_of(s)
                           if isinstance(t, ast.Attribute)
                           and is_name(t.value, 'self')
                           and isinstance(getattr(s, 'value', None),
                                          (ast.Dict, ast.Set, ast.List,
                                           ast.Call))}
        for name, fs in c.methods.items():
            for f in fs:
                if name in ('__init__', 'read', 'open', 'write') or \
                        any(d in ('classmethod', 'staticmethod', 'property')
                            for d in f.decorators):
                    continue
                cfg = cfg_of(f)
                muts = []
                for n in cfg.stmt_nodes():
                    if n.kind == 'stmt':
                        for t in targets_of(n.stmt):
                            b = t.value if isinstance(t, ast.Subscript) else t
                            if isinstance(b, ast.Attribute) and \
                                    is_name(b.value, 'self') and \
                                    b.attr in fields:
                                muts.append(n)
                    for cc in n.calls():
                        if isinstance(cc.func, ast.Attribute) and \
                                isinstance(cc.func.value, ast.Attribute) and \
                                is_name(cc.func.value.value, 'self') and \
                                cc.func.value.attr in fields and \
                                cc.func.attr in ('pop', 'add', 'discard',
                                                 'remove', 'clear', 'update',
                                                 'append', 'setdefault'):
                            muts.append(n)
                if not muts:
                    continue
                touches = cfg.find(lambda n: any(
                    (call_name(cc) == 'touch' and is_name(cc.func.value,
                                                          'self'))
                    or (isinstance(cc.func, ast.Attribute)
                        and (is_name(cc.func.value, 'self')
                             or txt(cc.func.value) == 'super()')
                        and cc.func.attr != f.name or txt(
                            cc.func.value) == 'super()')
                    and _calls_touch(c, cc, f) for cc in n.calls()))
                # index-only fields (e.g. reverse lookups) are not persisted
                persisted = [m for m in muts if not _index_only(c, m)]
                if not persisted:
                    continue
                ok = all(cfg.always_followed_by(m, touches, labels=NORMAL)
                         or cfg.dominated_by(m, touches) for m in persisted)
                R.check(bool(touches) and ok, f, f.node,
                        f'{c.name}.{name}: mutation is followed by touch()',
                        f'{c.name}.{name} changes persisted state without '
                        f'calling touch(): _FileWriteWith.__aexit__ writes '
                        f'the file back only when touched, so the change is '
                        f'acknowledged but lost on restart')


def _calls_touch(c, cc, f, depth=2) -> bool:
    if call_name(cc) == 'touch':
        return True
    if not depth or not isinstance(cc.func, ast.Attribute):
        return False
    if txt(cc.func.value) == 'super()':
        for k in c.mro()[1:]:
            h = k.own_method(cc.func.attr)
            if h is not None:
                return any(_calls_touch(k, x, h, depth - 1)
                           for x in calls_in(h.node))
        return False
    if is_name(cc.func.value, 'self'):
        h = c.find_method(cc.func.attr)
        if h is not None and h is not f:
            return any(_calls_touch(c, x, h, depth - 1)
                       for x in calls_in(h.node))
    return False


def _index_only(c, node) -> bool:
    s = txt(node.stmt) if node.stmt is not None else ''
    return '_by_user' in s


FILE_OPS = {'add', 'move_message', 'remove', 'update_metadata'}


def r154(ctx) -> None:
    R = ctx.rule('R15.4', 'file before index; acknowledge after write-back',
                 6)
    cls = ctx.proj.cls(MAILDIR, 'MailboxData')
    for name in ('append', 'copy', 'move'):
        f = cls.own_method(name)
        if f is None:
            raise AnchorError(f'maildir {name} vanished')
        cfg = cfg_of(f)
        blocks = [w for w in walk_local(f.node)
                  if isinstance(w, ast.AsyncWith) and any(
                      isinstance(i.context_expr, ast.Call)
                      and call_name(i.context_expr) == 'with_write'
                      for i in w.items)]
        fileops = cfg.find(lambda n: any(
            call_name(c) in FILE_OPS and 'maildir' in txt(c.func.value)
            for c in n.calls()))
        if not blocks or not fileops:
            R.fail(f, f.node, f'{name}: file operation and UID-list block '
                   f'present', 'no message-file operation or no with_write '
                   'block found')
            continue
        for w in blocks:
            ent = [n for n in cfg.nodes if n.kind == 'with_enter'
                   and n.stmt is w]
            ex = [n for n in cfg.nodes if n.kind == 'with_exit'
                  and n.stmt is w]
            R.check(all(cfg.dominated_by(e, fileops, labels=NORMAL)
                        for e in ent), f, w,
                    f'{name}: message file operation precedes the UID-list '
                    f'block',
                    'the UID record can be written before the message file '
                    'exists: a crash in between leaves a UID pointing at '
                    'nothing and the next message re-uses the file name '
                    'slot under a new UID')
            rets = cfg.find(lambda n: isinstance(n.stmt, ast.Return)
                            and n.stmt.value is not None
                            and const_value(n.stmt.value) != (True, None))
            inner = {id(x) for s in w.body for x in ast.walk(s)}
            early = [r.lineno for r in rets if id(r.stmt) in inner]
            late = [r for r in rets if id(r.stmt) not in inner]
            # the block that allocates / records the acknowledged UID must
            # be passed on every path to the return; any other write-back
            # block (e.g. dropping the source record of a MOVE) may be
            # conditional, but once entered it must be exited before the
            # return
            allocates = any(
                (isinstance(x, ast.Call) and call_name(x) == 'set') or
                (isinstance(x, ast.AugAssign) and 'next_uid' in txt(x.target))
                for s_ in w.body for x in ast.walk(s_))
            bypass = cfg.reach(ent, avoid=ex, labels=NORMAL)
            R.check(not early and bool(late) and all(
                (cfg.dominated_by(r, ex, labels=NORMAL) if allocates
                 else r not in bypass) for r in late),
                f, w, f'{name}: the UID is returned only after the block '
                f'exits (write-back done)',
                f'a success return at line(s) {early} sits inside the '
                f'with_write block or can bypass its exit: the command is '
                f'acknowledged before the UID list is written back')


def r155(ctx) -> None:
    R = ctx.rule('R15.5', 'a flag change is one rename', 1)
    md = ctx.proj.cls(MAILDIR, 'Maildir')
    f = md.own_method('update_metadata')
    if f is None:
        raise AnchorError('Maildir.update_metadata vanished')
    renames = [c for c in calls_in(f.node) if call_name(c) in ('rename',
                                                               'replace')]
    others = [c for c in calls_in(f.node)
              if call_name(c) in ('remove', 'unlink', 'copy', 'copyfile',
                                  'copy2', 'link', 'open')]
    R.check(len(renames) == 1 and not others, f, f.node,
            'update_metadata renames atomically',
            'the flag change is not a single os.rename (copy/delete or '
            'rewrite): a crash mid-way loses or duplicates the message')


def r156(ctx) -> None:
    R = ctx.rule('R15.6', 'write lock released when entering fails', 1)
    c = ctx.proj.cls(IO, '_FileWriteWith')
    f = c.own_method('__aenter__')
    if f is None:
        raise AnchorError('_FileWriteWith.__aenter__ vanished')
    cfg = cfg_of(f)
    acq = cfg.find(lambda n: any(
        call_name(cc) in ('_acquire_lock', '__aenter__', 'acquire')
        for cc in n.calls()))
    if not acq:
        R.ok(f, f.node, '__aenter__: no manual acquisition', 'uses async '
             'with')
        return
    reads = cfg.find(lambda n: any(call_name(cc) in ('file_read',
                                                     'file_open',
                                                     'file_exists')
                                   for cc in n.calls()))
    early = [n.lineno for n in reads
             if not cfg.dominated_by(n, acq, labels=NORMAL)]
    R.check(not early, f, f.node, '_FileWriteWith.__aenter__: the file is '
            'read only after the lock is held',
            f'the control file is read at line(s) {early} BEFORE the write '
            f'lock is acquired: the read-modify-replace is no longer one '
            f'critical section, so a writer that waited for the lock writes '
            f'back stale state (two APPENDs are both acknowledged with the '
            f'same UID; the other record is lost)')
    risky = []
    for n in cfg.reach(acq, labels=NORMAL):
        if n.kind in ('stmt', 'test') and any(
                call_name(cc) in ('file_read', 'file_open', 'file_exists',
                                  'read', 'open') for cc in n.calls()):
            risky.append(n)
    bad = []
    for n in risky:
        tries = enclosing(f.node, n.stmt, (ast.Try,))
        rel = False
        for t in tries:
            inbody = any(x is n.stmt for s in t.body for x in ast.walk(s))
            if not inbody:
                continue
            for h in t.handlers:
                broad = h.type is None or 'Exception' in txt(h.type)
                if broad and any(call_name(cc) in ('_release_lock',
                                                   '__aexit__', 'release')
                                 for s in h.body for cc in calls_in(s)) \
                        and any(isinstance(s, ast.Raise) for s in h.body):
                    rel = True
            if t.finalbody and any(call_name(cc) in ('_release_lock',
                                                     '__aexit__', 'release')
                                   for s in t.finalbody
                                   for cc in calls_in(s)):
                rel = True
        if not rel:
            bad.append(n.lineno)
    R.check(not bad, f, f.node,
            '_FileWriteWith.__aenter__: a failing read releases the lock',
            f'after the manual lock acquisition, the file read/parse at '
            f'line(s) {bad} can raise (corrupt header, I/O error) with no '
            f'handler that releases the lock: __aexit__ is not called for a '
            f'failed __aenter__, so the lock file stays for its full expiry '
            f'(600 s) and every writer of that control file times out')

"""C03 — message bytes verbatim: R3.1-R3.7."""
from __future__ import annotations

import ast

from ..cfg import NORMAL, ALL, walk_local
from ..facts import (runs_only_when, cfg_of, call_name, calls_in, targets_of, guard_atoms,
                     is_attr, is_name, enclosing, local_assigns, kwarg,
                     const_value, strip_await, resolve_local, names_in,
                     bind_args)
from ..loader import txt, AnchorError

MIME = 'pymap/mime/__init__.py'
UTIL = 'pymap/mime/_util.py'
MSG = 'pymap/message.py'
FETCH = 'pymap/fetch.py'
PRIM = 'pymap/parsing/primitives.py'
BYTES = 'pymap/bytes/__init__.py'
DICT = 'pymap/backend/dict/mailbox.py'
MAILDIR = 'pymap/backend/maildir/mailbox.py'

TRANSFORMS = {'replace', 'strip', 'rstrip', 'lstrip', 'splitlines', 'decode',
              'encode', 'lower', 'upper', 'translate', 'expandtabs', 'title',
              'swapcase', 'capitalize', 'casefold', 'center', 'ljust',
              'rjust', 'zfill', 'sub', 'subn', 'message_from_bytes',
              'as_bytes', 'as_string', 'flatten'}


def check(ctx) -> None:
    ctx.explanation = (
        'Static decision of structural necessary conditions of C03: from the '
        'APPEND literal to the stored content and from the stored content to '
        'every FETCH literal only identity, bytes()/memoryview(), slicing by '
        'the line index and concatenation touch message bytes (no '
        'transforming call, no re-parse/re-generate through stdlib email); '
        'no slice stop can hold a -1 "to the end" sentinel; every Writeable '
        'that can be a literal payload reports len() over exactly what '
        'write() emits; the header/body split is a partition; BODY[]<o.n> '
        'slices [o:o+n]; RFC822.SIZE and BODY[] are computed from the same '
        'object; the copy inserted by COPY derives from a content-bearing '
        'read of the source.')
    ctx.not_decided = ('byte equality for all inputs; the arithmetic of the '
                       'line index; the octet counts in BODYSTRUCTURE for '
                       'all MIME shapes (R3.8 decides which object they are '
                       'the length of).')
    r31(ctx)
    r32(ctx)
    r33(ctx)
    r34(ctx)
    r35(ctx)
    r36(ctx)
    r37(ctx)
    r38(ctx)
    r39(ctx)


def _transform_calls(f, tainted: set[str]):
    """Transforming calls whose receiver or argument mentions a tainted
    name."""
    out = []
    for c in calls_in(f.node):
        nm = call_name(c)
        if nm not in TRANSFORMS:
            continue
        recv = c.func.value if isinstance(c.func, ast.Attribute) else None
        involved = set()
        if recv is not None:
            involved |= names_in(recv)
        for a in c.args:
            involved |= names_in(a)
        if involved & tainted:
            out.append(c)
    return out


def _taint(f, seeds: set[str]) -> set[str]:
    t = set(seeds)
    changed = True
    while changed:
        changed = False
        for s in walk_local(f.node):
            if isinstance(s, (ast.Assign, ast.AnnAssign)) and \
                    getattr(s, 'value', None) is not None:
                if names_in(s.value) & t:
                    for x in targets_of(s):
                        if isinstance(x, ast.Name) and x.id not in t:
                            t.add(x.id)
                            changed = True
    return t


def r31(ctx) -> None:
    R = ctx.rule('R3.1', 'verbatim provenance append -> store -> fetch', 12)
    # (a) dict append hands the literal itself to the content parser
    cls = ctx.proj.cls(DICT, 'MailboxData')
    ap = cls.own_method('append')
    am = ap.params()[1]
    good = False
    for c in calls_in(ap.node, 'parse'):
        if 'MessageContent' in txt(c.func) and c.args:
            a = c.args[0]
            while isinstance(a, ast.Call) and call_name(a) in (
                    'bytes', 'memoryview') and a.args:
                a = a.args[0]
            good = txt(a) == f'{am}.literal'
            R.check(good, ap, c, 'dict append: content parsed from the '
                    'literal itself',
                    f'the stored content is parsed from {txt(c.args[0])}, '
                    f'not from the APPEND literal unchanged')
    if not good:
        R.fail(ap, ap.node, 'dict append: content parsed from the literal '
               'itself', 'MessageContent.parse(<literal>) not found')
    # the object stored in the message is THAT parse result, nothing else
    minit = ctx.proj.cls(DICT, 'Message').own_method('__init__')
    for c in calls_in(ap.node, 'Message'):
        carg = bind_args(minit, c).get('content')
        if carg is None:
            R.fail(ap, c, 'dict append: stored content is the parsed literal',
                   'the message is stored without content')
            continue
        defs = [v for _, v in local_assigns(ap, txt(carg))] \
            if isinstance(carg, ast.Name) else [carg]
        okd = bool(defs) and all(
            v is not None and isinstance(strip_await(v), ast.Call)
            and call_name(strip_await(v)) == 'parse'
            and 'MessageContent' in txt(strip_await(v).func) for v in defs)
        R.check(okd, ap, c, 'dict append: stored content is the parsed '
                'literal',
                f'`{txt(carg)}` has {len(defs)} definition(s) '
                f'{[txt(v)[:40] for v in defs if v is not None]}: the '
                f'content stored with the message can be an object other '
                f'than the parse of this APPEND\'s literal (e.g. a cached '
                f'content with the same checksum)')
    # (b) mime: `data` flows unchanged; _raw = get_raw(memoryview(data), …)
    m = ctx.proj.module(MIME)
    for f in m.funcs.values():
        if f.cls is None or f.cls.name not in ('MessageContent',
                                               'MessageHeader',
                                               'MessageBody'):
            continue
        if 'data' not in f.params():
            continue
        rebinding = [s for s in walk_local(f.node)
                     if any(is_name(t, 'data') for t in targets_of(s))]
        R.check(not rebinding, f, f.node,
                f'{f.qualname}: `data` is never rebound',
                f'`data` is reassigned in {f.qualname}: what is stored is '
                f'not the bytes that were appended')
        # onward calls receive bare `data` / memoryview(data)
        bad = []
        for c in calls_in(f.node):
            nm = call_name(c)
            if nm in ('cls', '_parse', '_parse_multipart', '_parse_rfc822',
                      'from_json', 'MessageContent', 'MessageHeader',
                      'MessageBody', '_find_parts', '_find_folded',
                      '_find_folds', '_split_lines', '_find_lines',
                      'get_raw', '_get_parsed', '_get_folded'):
                for a in c.args:
                    if 'data' in names_in(a) and txt(a) not in (
                            'data', 'memoryview(data)'):
                        bad.append(txt(a))
        R.check(not bad, f, f.node,
                f'{f.qualname}: `data` is passed on unchanged',
                f'{f.qualname} passes {bad} instead of the bytes themselves')
        if f.name == '__init__':
            st = [s for s in walk_local(f.node) if isinstance(s, ast.Assign)
                  and any(is_attr(t, '_raw', 'self') for t in s.targets)]
            ok = bool(st)
            for s in st:
                v = s.value
                okv = isinstance(v, ast.Call) and call_name(v) == 'get_raw' \
                    and v.args
                if okv:
                    first = {txt(x) for x in resolve_local(f, v.args[0])}
                    okv = bool(first & {'memoryview(data)'})
                ok = ok and bool(okv)
            R.check(ok, f, f.node,
                    f'{f.cls.name}._raw = get_raw(memoryview(data), lines)',
                    f'{f.cls.name}._raw is not a line-index slice of the '
                    f'original bytes')
    # (c) no transforming call on payload-carrying values on the fetch path
    scopes = [(MSG, 'BaseLoadedMessage', ['get_body', 'get_headers',
                                          'get_message_headers',
                                          'get_message_text', '_get_subpart',
                                          '__bytes__'],
               {'msg', 'subpart', 'self'}),
              (FETCH, 'DynamicLoadedFetchValue', ['_get_data',
                                                  '_get_partial'],
               {'data', 'full', 'loaded_msg'}),
              (MIME, 'MessageContent', ['__bytes__', 'write', '__len__'],
               {'self'}),
              (MIME, 'MessageHeader', ['__bytes__', 'write', '__len__'],
               {'self'}),
              (MIME, 'MessageBody', ['__bytes__', 'write', '__len__'],
               {'self'}),
              (UTIL, None, ['get_raw'], {'view'})]
    for rel, cn, names, seeds in scopes:
        mod = ctx.proj.module(rel)
        for n in names:
            f = mod.funcs.get(f'{cn}.{n}' if cn else n)
            if f is None:
                raise AnchorError(f'{rel}: {cn}.{n} vanished')
            if n == 'get_message_headers':
                # HEADER.FIELDS subsets are assembled, not verbatim: only the
                # whole-header return is in scope
                pass
            tc = _transform_calls(f, _taint(f, seeds))
            tc = [c for c in tc if not (n == 'get_message_headers'
                                        and call_name(c) == 'upper')]
            # BINARY fetches decode by design: calls on the `binary` branch
            # are out of scope
            fcfg = cfg_of(f)
            keep = []
            for c in tc:
                nodes = fcfg.node_containing(c)
                on_binary = any(runs_only_when(fcfg, nd, 'binary', True)
                                for nd in nodes)
                if not on_binary:
                    keep.append(c)
            tc = keep
            R.check(not tc, f, tc[0] if tc else f.node,
                    f'{f.qualname}: no transforming call on message bytes',
                    f'{f.qualname} applies '
                    f'{[txt(c.func) for c in tc]} to message bytes on the '
                    f'way to a FETCH literal: what is returned is not what '
                    f'was stored')
    # get_body(None, binary=False) returns the part object itself
    gb = ctx.proj.func(MSG, 'BaseLoadedMessage.get_body')
    cfg = cfg_of(gb)
    rets = cfg.find(lambda n: isinstance(n.stmt, ast.Return))
    nb = []
    for r in rets:
        if runs_only_when(cfg, r, 'binary', False):
            nb.append(txt(r.stmt.value))
    R.check(sorted(nb) == ['msg', 'msg.body'], gb, gb.node,
            'get_body (non-binary) returns the part / its body unchanged',
            f'the non-binary branch of get_body returns {nb}')
    # whole-section getters hand out the stored part object itself (an
    # attribute chain from the sub-part), never something re-assembled
    def chain_only(e) -> bool:
        while isinstance(e, (ast.Attribute, ast.Subscript)):
            e = e.value
        return isinstance(e, ast.Name)

    def is_empty(e) -> bool:
        return isinstance(e, ast.Call) and call_name(e) == 'empty'
    for nm in ('get_headers', 'get_message_text'):
        g = ctx.proj.func(MSG, f'BaseLoadedMessage.{nm}')
        vals = [r.value for r in walk_local(g.node)
                if isinstance(r, ast.Return) and r.value is not None
                and not is_empty(r.value)]
        R.check(bool(vals) and all(chain_only(v) for v in vals), g, g.node,
                f'{nm}: returns the stored part object',
                f'{nm} returns {[txt(v) for v in vals]}: the section is '
                f're-assembled instead of being the stored bytes')
    g = ctx.proj.func(MSG, 'BaseLoadedMessage.get_message_headers')
    gcfg = cfg_of(g)
    tests = [t for t in gcfg.nodes if t.kind == 'test' and
             isinstance(t.stmt.test, ast.Compare) and
             txt(t.stmt.test) == 'subset is None']
    whole = [r for r in gcfg.find(lambda n: isinstance(n.stmt, ast.Return))
             if any(gcfg.controlled_by(r, t, 't') for t in tests)]
    rebound = [t for t in tests for m, lab in t.succ if lab == 't'
               and m.kind == 'stmt' and any(
                   isinstance(x, ast.Name) and x.id in ('subset', 'inverse')
                   for x in targets_of(m.stmt))]
    R.check(bool(tests) and bool(whole) and not rebound and all(
        chain_only(r.stmt.value) for r in whole), g, g.node,
        'get_message_headers: BODY[HEADER] (no field list) returns the '
        'stored header block',
        'with no field list the header is not returned as stored but '
        'falls through to the HEADER.FIELDS assembly (folded fields joined, '
        'fixed CRLF appended): a bare-LF separator gains a CR, a header '
        'line without colon disappears, a header-only message gains a '
        'CRLF — BODY[HEADER] + BODY[TEXT] != b')
    # message/rfc822 is unwrapped only when a part was named: BODY[HEADER] /
    # BODY[TEXT] of the message itself are never the embedded message's
    for nm in ('get_message_headers', 'get_message_text'):
        g = ctx.proj.func(MSG, f'BaseLoadedMessage.{nm}')
        gcfg = cfg_of(g)
        unwraps = gcfg.find(lambda n: isinstance(n.stmt, ast.Assign)
                            and 'nested[0]' in txt(n.stmt.value))
        if not unwraps:
            raise AnchorError(f'{nm}: message/rfc822 unwrapping not found')
        R.check(all(runs_only_when(gcfg, u, 'section', True)
                    for u in unwraps), g, unwraps[0].stmt,
                f'{nm}: the embedded message is used only under `if '
                f'section:`',
                f'{nm} unwraps message/rfc822 even when no part was named: '
                f'for a message whose top-level Content-Type is '
                f'message/rfc822, BODY[HEADER] / RFC822.HEADER / BODY[TEXT] '
                f'return the INNER message\'s header and body — HEADER + '
                f'TEXT != b while BODY[] and RFC822.SIZE still report the '
                f'whole message')
    # (d) the FETCH literal payload is what _get_data returned
    bf = ctx.proj.cls(FETCH, '_BodyFetchValue').own_method('get_value')
    ok = False
    for c in calls_in(bf.node, 'LiteralString'):
        for v in resolve_local(bf, c.args[0]) if c.args else []:
            if isinstance(v, ast.Call) and call_name(v) == '_get_data':
                ok = True
    R.check(ok, bf, bf.node, 'BODY[…] literal payload = _get_data(...)',
            'the literal written for BODY[…] is not the value _get_data '
            'returned')
    # (e) maildir: the literal reaches the file through stdlib mailbox
    mm = ctx.proj.cls(MAILDIR, 'Message')
    tm = mm.own_method('to_maildir')
    for c in calls_in(tm.node, 'MaildirMessage'):
        if c.args and 'literal' in txt(c.args[0]):
            R.fail(tm, c, 'maildir append: literal is re-parsed by stdlib '
                   'mailbox.MaildirMessage',
                   'the APPEND literal is parsed into an email.message '
                   'object and re-generated by mailbox.Maildir.add(): line '
                   'endings are rewritten (CRLF -> LF), so FETCH BODY[] and '
                   'RFC822.SIZE differ from what was appended')
    lc = mm.own_method('load_content')
    for c in calls_in(lc.node, 'parse'):
        if c.args and isinstance(c.args[0], ast.Call) and \
                call_name(c.args[0]) == 'bytes' and \
                'maildir_msg' in txt(c.args[0]):
            R.fail(lc, c, 'maildir fetch: content is re-generated by '
                   'bytes(email message)',
                   'the stored file is parsed by stdlib email and '
                   're-serialised with bytes(): not the file\'s bytes')


def r32(ctx) -> None:
    R = ctx.rule('R3.2', 'no -1 sentinel in a slice stop', 1)
    n = 0
    for rel in (UTIL, MIME, MSG, FETCH, PRIM, 'pymap/mime/parsed.py',
                'pymap/mime/cte.py', BYTES):
        if not ctx.proj.has_module(rel):
            continue
        m = ctx.proj.module(rel)
        for f in m.funcs.values():
            stops = set()
            for s in walk_local(f.node):
                if isinstance(s, ast.Subscript) and \
                        isinstance(s.slice, ast.Slice) and \
                        isinstance(s.slice.upper, ast.Name):
                    stops.add(s.slice.upper.id)
            for nm in sorted(stops):
                n += 1
                neg = [st for st, v in local_assigns(f, nm)
                       if v is not None and const_value(v) == (True, -1)]
                R.check(not neg, f, neg[0] if neg else f.node,
                        f'{f.qualname}: slice stop `{nm}` is never -1',
                        f'`{nm}` is used as a slice stop and can be assigned '
                        f'the constant -1 ("to the end"), which drops the '
                        f'last byte: a message whose body has no lines '
                        f"(b'From: a\\r\\n') is stored as b'From: a\\r'")
    if n == 0:
        # zero-count rule keeps a positive fixture so it cannot pass vacuously
        import os
        from ..report import VERIF
        fx = os.path.join(VERIF, 'fixtures', 'r32_positive.py')
        tree = ast.parse(open(fx).read())
        hit = any(isinstance(x, ast.Assign) and const_value(x.value)
                  == (True, -1) for x in ast.walk(tree))
        R.check(hit, None, None, 'positive fixture still matches',
                'fixture fixtures/r32_positive.py no longer matches the rule')


def r33(ctx) -> None:
    R = ctx.rule('R3.3', 'len/write agreement of payload Writeables', 7)
    wr = ctx.proj.cls(BYTES, 'Writeable')
    classes = [ctx.proj.cls(MIME, n) for n in ('MessageContent',
                                               'MessageHeader',
                                               'MessageBody')]
    classes += [ctx.proj.cls(BYTES, n) for n in ('_WrappedWriteable',
                                                 '_ConcatWriteable',
                                                 '_EmptyWriteable')]

    def fields(f):
        return {x.attr for x in walk_local(f.node)
                if isinstance(x, ast.Attribute) and is_name(x.value, 'self')
                and not isinstance(getattr(x, 'ctx', None), ast.Store)
                and not x.attr.startswith('__')
                and x.attr not in ('write', '_wrap')}
    for c in classes:
        by = c.own_method('__bytes__')
        ln = c.own_method('__len__')
        w = c.own_method('write')
        if by is None:
            R.fail(None, c.node, f'{c.name}: __bytes__ defined', 'missing')
            continue
        fb = fields(by)
        if ln is not None:
            via_bytes = any(call_name(x) == 'bytes' and x.args
                            and is_name(x.args[0], 'self')
                            for x in calls_in(ln.node))
            R.check(via_bytes or fields(ln) == fb, ln, ln.node,
                    f'{c.name}.__len__ measures what __bytes__ returns',
                    f'__len__ reads {sorted(fields(ln))} but __bytes__ reads '
                    f'{sorted(fb)}: the announced literal length (and '
                    f'RFC822.SIZE) differs from the bytes sent')
        else:
            R.ok(by, by.node, f'{c.name}.__len__ inherited (len(bytes(self)))',
                 'default')
        if w is not None:
            via_bytes = any(call_name(x) == 'bytes' and x.args
                            and is_name(x.args[0], 'self')
                            for x in calls_in(w.node))
            empty = c.name == '_EmptyWriteable'
            R.check(via_bytes or fields(w) == fb or empty, w, w.node,
                    f'{c.name}.write emits what __bytes__ returns',
                    f'write reads {sorted(fields(w))} but __bytes__ reads '
                    f'{sorted(fb)}')
    # default implementations
    dl, dw = wr.own_method('__len__'), wr.own_method('write')
    ok = all(any(call_name(x) == 'bytes' and x.args
                 and is_name(x.args[0], 'self') for x in calls_in(g.node))
             for g in (dl, dw))
    R.check(ok, dl, dl.node, 'Writeable defaults are defined through '
            'bytes(self)', 'default __len__/write are not bytes(self)-based')


def r34(ctx) -> None:
    R = ctx.rule('R3.4', 'header/body split is a partition', 1)
    f = ctx.proj.func(MIME, 'MessageContent._split_lines')
    p = f.params()
    seq = p[2] if len(p) > 2 else 'lines'
    rets = [r for r in walk_local(f.node) if isinstance(r, ast.Return)
            and isinstance(r.value, ast.Tuple) and len(r.value.elts) == 2]
    ok = bool(rets)
    why = 'no two-part return'
    for r in rets:
        a, b = r.value.elts
        if isinstance(a, (ast.List, ast.Tuple)) and not a.elts and \
                txt(b) == seq:
            continue
        if isinstance(b, (ast.List, ast.Tuple)) and not b.elts and \
                txt(a) == seq:
            continue
        if isinstance(a, ast.Subscript) and isinstance(b, ast.Subscript) and \
                isinstance(a.slice, ast.Slice) and \
                isinstance(b.slice, ast.Slice) and \
                txt(a.value) == seq == txt(b.value) and \
                txt(a.slice.upper) == txt(b.slice.lower) and \
                (a.slice.lower is None or const_value(a.slice.lower)
                 == (True, 0)) and b.slice.upper is None:
            continue
        ok = False
        why = f'`return {txt(r.value)}` is not s[0:k], s[k:]'
    R.check(ok, f, f.node, '_split_lines returns s[0:k], s[k:]',
            f'{why}: a line is dropped or duplicated between BODY[HEADER] '
            f'and BODY[TEXT]')


def r35(ctx) -> None:
    R = ctx.rule('R3.5', 'partial range is [start : start + length]', 1)
    f = ctx.proj.func(FETCH, 'DynamicLoadedFetchValue._get_partial')
    ok = False
    why = 'slice not found'
    for r in walk_local(f.node):
        if isinstance(r, ast.Return) and r.value is not None:
            for s in ast.walk(r.value):
                if isinstance(s, ast.Subscript) and \
                        isinstance(s.slice, ast.Slice):
                    lo = {txt(v) for v in resolve_local(f, s.slice.lower)} \
                        if s.slice.lower is not None else set()
                    his = [v for v in resolve_local(f, s.slice.upper)] \
                        if s.slice.upper is not None else []
                    starts = {'start', 'partial.start'}
                    okhi = bool(his)
                    for h in his:
                        t = txt(h).replace(' ', '')
                        if t in ('start+length', 'partial.start+partial.'
                                 'length', 'length+start'):
                            continue
                        if t in ('len(full)', 'len(data)'):
                            continue
                        okhi = False
                        why = f'stop is {txt(h)}'
                    ok = bool(lo & starts) and okhi
                    if not lo & starts:
                        why = f'start is {sorted(lo)}'
    R.check(ok, f, f.node, '_get_partial slices [start : start+length | len]',
            f'{why}: BODY[]<o.n> does not return b[o:o+n]')
    # the only unsliced return is for "no partial at all"
    cfg = cfg_of(f)
    for n in cfg.find(lambda n: isinstance(n.stmt, ast.Return)):
        v = n.stmt.value
        if v is None or any(isinstance(x, ast.Subscript)
                            and isinstance(x.slice, ast.Slice)
                            for x in ast.walk(v)):
            continue
        conds = [(t, br) for t in cfg.nodes if t.kind == 'test'
                 for br in ('t', 'f') if cfg.controlled_by(n, t, br)]
        okc = bool(conds) and all(
            guard_atoms(t.stmt.test) in ([('partial', False)],
                                         [('partial', True)])
            for t, _ in conds)
        R.check(okc, f, n.stmt, '_get_partial: unsliced return only when '
                'there is no partial',
                f'`return {txt(v)}` is taken under '
                f'{[txt(t.stmt.test) for t, _ in conds]}: a partial with a '
                f'non-zero start offset (BODY[]<40.65536>) returns the '
                f'whole section instead of b[o:o+n]')
    # start/length come from the FetchPartial
    src = {txt(v) for nm in ('start', 'length')
           for _, v in local_assigns(f, nm) if v is not None}
    R.check(any('partial.start' in s for s in src) and
            any('partial.length' in s for s in src), f, f.node,
            'start and length come from the FetchPartial',
            f'start/length are assigned from {sorted(src)}')


def r36(ctx) -> None:
    R = ctx.rule('R3.6', 'RFC822.SIZE and BODY[] use the same object', 1)
    gs = ctx.proj.func(MSG, 'BaseLoadedMessage.get_size')
    gb = ctx.proj.func(MSG, 'BaseLoadedMessage.get_body')

    def src(f):
        out = set()
        for _, v in local_assigns(f, 'msg'):
            if v is not None:
                out.add(txt(v))
        return out
    rets = [r for r in walk_local(gs.node) if isinstance(r, ast.Return)
            and r.value is not None and const_value(r.value) != (True, 0)]
    ok = src(gs) == src(gb) == {'self._get_subpart(section)'} and \
        bool(rets) and all(txt(r.value) == 'len(msg)' for r in rets)
    R.check(ok, gs, gs.node, 'get_size = len(the object get_body returns)',
            f'get_size measures {[txt(r.value) for r in rets]} of '
            f'{sorted(src(gs))}, get_body returns {sorted(src(gb))}: '
            f'RFC822.SIZE differs from len(BODY[])')
    sz = ctx.proj.cls(FETCH, '_RFC822SizeFetchValue').own_method('get_value')
    ok = any(call_name(c) == 'get_size' and not c.args
             for c in calls_in(sz.node))
    R.check(ok, sz, sz.node, 'RFC822.SIZE = loaded_msg.get_size()',
            'RFC822.SIZE is not get_size() of the whole message')


def r37(ctx) -> None:
    R = ctx.rule('R3.7', 'COPY payload derives from a content-bearing read',
                 2)
    m = ctx.proj.cls(DICT, 'Message')
    f = m.own_method('copy')
    init = m.own_method('__init__')
    src = f.params()[1]
    for c in calls_in(f.node, 'cls'):
        got = txt(bind_args(init, c).get('content'))
        R.check(got in (f'{src}._content', f'{src}.content'), f, c,
                'dict copy shares the source content object',
                f'the copy\'s content is {got}')
    cls = ctx.proj.cls(MAILDIR, 'MailboxData')
    cp = cls.own_method('copy')
    adds = [c for c in calls_in(cp.node, 'add')
            if 'maildir' in txt(c.func.value)]
    if not adds:
        R.fail(cp, cp.node, 'maildir copy adds a message to the destination',
               'no maildir.add call')
        return
    for a in adds:
        ok = False
        why = 'source not recognised'
        for v in resolve_local(cp, a.args[0]) if a.args else []:
            v = strip_await(v)
            srcs = [v]
            if isinstance(v, ast.Call) and call_name(v) == 'MaildirMessage' \
                    and v.args:
                srcs = [strip_await(x) for x in resolve_local(cp, v.args[0])]
            for s_ in srcs:
                t = txt(s_)
                if 'get_message(' in t or 'get_bytes(' in t or \
                        'get_file(' in t:
                    ok = True
                elif '_get_maildir_msg' in t or 'get_message_metadata' in t:
                    why = ('the copy is built from the metadata-only object '
                           'returned by get_message_metadata() (whose '
                           'docstring says the contents are not read)')
        R.check(ok, cp, a, 'maildir copy: inserted message derives from '
                'get_message() / the file',
                f'{why}: COPY creates an EMPTY message in the destination')


def r38(ctx) -> None:
    R = ctx.rule('R3.8', 'BODYSTRUCTURE octet counts are the length of what '
                 'BODY[part] returns', 3)
    f = ctx.proj.func(MSG, 'BaseLoadedMessage._get_body_structure')
    if 'msg' not in f.params():
        raise AnchorError('_get_body_structure(cls, msg) signature changed')
    # what BODY[n] hands out for a part: get_body (non-binary, with section)
    gb = ctx.proj.func(MSG, 'BaseLoadedMessage.get_body')
    gcfg = cfg_of(gb)
    part_obj = set()
    for r in gcfg.find(lambda n: isinstance(n.stmt, ast.Return)):
        if runs_only_when(gcfg, r, 'section', True):
            part_obj.add(txt(r.stmt.value))
    part_obj.discard('decoded')
    if part_obj != {'msg.body'}:
        raise AnchorError(f'get_body returns {part_obj} for a part')
    helper = ctx.proj.func(MSG, 'BaseLoadedMessage._get_size_with_lines')
    hret = [txt(r.value) for r in walk_local(helper.node)
            if isinstance(r, ast.Return)] if helper else []
    n = 0
    for c in calls_in(f.node):
        nm = call_name(c)
        if nm not in ('TextBodyStructure', 'ContentBodyStructure',
                      'MessageBodyStructure'):
            continue
        n += 1
        sizes = [a for a in c.args if isinstance(a, ast.Name)
                 and a.id == 'size']
        measured = set()
        srcs = []
        for a in sizes:
            for st, v in local_assigns(f, a.id):
                v = v if v is not None else getattr(st, 'value', None)
                srcs.append(txt(v))
                if isinstance(v, ast.Call) and call_name(v) == 'len' and \
                        v.args:
                    measured.add(txt(v.args[0]))
                elif isinstance(v, ast.Call) and call_name(v) == \
                        '_get_size_with_lines' and v.args and helper:
                    hp = [p_ for p_ in helper.params() if p_ != 'cls']
                    for r in walk_local(helper.node):
                        if isinstance(r, ast.Return) and isinstance(
                                r.value, ast.Tuple) and isinstance(
                                r.value.elts[0], ast.Call) and call_name(
                                r.value.elts[0]) == 'len':
                            inner = txt(r.value.elts[0].args[0])
                            if hp and inner.split('.')[0] == hp[0]:
                                inner = txt(v.args[0]) + inner[len(hp[0]):]
                            measured.add(inner)
        R.check(bool(measured) and measured <= {'msg.body'}, f, c,
                f'_get_body_structure: {nm} size = len(msg.body)',
                f'the octet count given to {nm} is the length of '
                f'{sorted(measured) or srcs} — the whole part, MIME header '
                f'included — while BODY[n] returns msg.body: for a part '
                f'"Content-Type: text/plain\\r\\n\\r\\nhello\\r\\n" '
                f'BODYSTRUCTURE announces 35 octets and BODY[1] returns 7 '
                f'(RFC 3501 7.4.2: the size of the body in its transfer '
                f'encoding); the line count has the same origin')
    if n < 3:
        raise AnchorError(f'only {n} single-part structure constructors '
                          f'found in _get_body_structure')


def r39(ctx) -> None:
    """The maildir backend reads the message file only when the combined
    requirement of the FETCH items has a content bit.  An item whose value is
    computed from the loaded message (the `_loaded_attrs` table of fetch.py)
    but which declares METADATA is answered from nothing: RFC822.SIZE 0,
    empty bodies."""
    R = ctx.rule('R3.9', 'fetch items answered from the loaded message never '
                 'declare a metadata-only requirement', 1)
    fa = ctx.proj.cls('pymap/parsing/specials/fetchattr.py', 'FetchAttribute')
    req = fa.own_method('requirement')
    if req is None:
        raise AnchorError('FetchAttribute.requirement vanished')
    ma = ctx.proj.cls('pymap/fetch.py', 'MessageAttributes')
    tables = {}
    for nm, v in ma.class_assigns().items():
        if isinstance(v, ast.Dict) and v.keys and all(
                isinstance(k, ast.Constant) and isinstance(k.value, bytes)
                for k in v.keys):
            tables[nm] = {k.value for k in v.keys}
    loaded = set()
    for nm, ks in tables.items():
        if 'loaded' in nm:
            loaded |= ks
    if len(loaded) < 8:
        raise AnchorError(f'fetch.py: table of loaded-message items not '
                          f'found (tables {sorted(tables)})')
    cfg = cfg_of(req)
    meta = set()
    n = 0
    for node in cfg.find(lambda n_: isinstance(n_.stmt, ast.Return)):
        if 'METADATA' not in txt(node.stmt.value):
            continue
        n += 1
        # attribute names under which this return runs
        for t in cfg.nodes:
            if t.kind != 'test' or not cfg.controlled_by(node, t, 't'):
                continue
            for c in ast.walk(t.stmt.test):
                if isinstance(c, ast.Compare) and len(c.ops) == 1 and \
                        isinstance(c.ops[0], (ast.In, ast.Eq)):
                    ok, v = const_value(c.comparators[0])
                    if ok:
                        meta |= set(v) if isinstance(
                            v, (tuple, list, set, frozenset)) else {v}
    if n == 0:
        R.ok(req, req.node, 'no metadata-only branch', 'nothing to check')
        return
    bad = sorted(x.decode() for x in meta & loaded)
    R.check(not bad, req, req.node,
            'requirement: METADATA only for items computed without content',
            f'{bad} are answered from the loaded message (fetch.py '
            f'_loaded_attrs) but declare FetchRequirement.METADATA: on the '
            f'maildir backend `FETCH 1 (UID RFC822.SIZE)` does not read the '
            f'file and answers RFC822.SIZE 0 while BODY[] returns all '
            f'octets', f'metadata-only: {sorted(x.decode() for x in meta)}')

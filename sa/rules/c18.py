"""C18 — spelling independence: R18.1-R18.4."""
from __future__ import annotations

import ast
import re

from ..cfg import NORMAL, ALL, walk_local
from ..facts import (cfg_of, call_name, calls_in, targets_of, guard_atoms,
                     is_attr, is_name, enclosing, local_assigns, kwarg,
                     const_value, strip_await, resolve_local, bind_args)
from ..loader import txt, AnchorError

PRIM = 'pymap/parsing/primitives.py'
CMDS = 'pymap/parsing/commands.py'
SCMD = 'pymap/sieve/manage/command.py'
DT = 'pymap/parsing/specials/datetime_.py'
SEQ = 'pymap/parsing/specials/sequenceset.py'


def check(ctx) -> None:
    ctx.explanation = (
        'Static decision of structural necessary conditions of C18: wherever '
        'a parser caches the raw spelling of what it consumed, the cached '
        'slice ends exactly where the returned remainder begins; the '
        'synchronizing and non-synchronizing literal branches extract the '
        'value and the remainder with the same expressions; the command '
        'word is upper-cased before the registry lookup and every '
        'registered command name is upper-case; writer and reader agree on '
        'the date-time format, the literal prefix and the sequence-set '
        'punctuation.')
    ctx.not_decided = ('round-trip equality for all values; that modified '
                       'UTF-7 decoding inverts encoding.')
    r181(ctx)
    r182(ctx)
    r183(ctx)
    r184(ctx)
    r186(ctx)
    r187(ctx)
    r188(ctx)
    r189(ctx)


def _unwrap_bytes(e):
    e = strip_await(e)
    while isinstance(e, ast.Call) and call_name(e) in ('bytes', 'memoryview',
                                                      'bytearray') and \
            len(e.args) == 1:
        e = e.args[0]
    return e


def r181(ctx) -> None:
    R = ctx.rule('R18.1', 'cached raw form = consumed span', 3)
    for c in ctx.proj.all_classes('pymap/parsing/'):
        init = c.own_method('__init__')
        if init is None or 'raw' not in init.params():
            continue
        for fs in c.methods.values():
            for f in fs:
                if 'classmethod' not in f.decorators:
                    continue
                for r in walk_local(f.node):
                    if not (isinstance(r, ast.Return)
                            and isinstance(r.value, ast.Tuple)
                            and len(r.value.elts) == 2
                            and isinstance(r.value.elts[0], ast.Call)
                            and call_name(r.value.elts[0]) in ('cls',
                                                               c.name)):
                        continue
                    call = r.value.elts[0]
                    raw = bind_args(init, call).get('raw')
                    if raw is None or const_value(raw) == (True, None):
                        continue
                    rem = r.value.elts[1]
                    key = f'{c.name}.{f.name}: raw={txt(raw)[:30]} vs ' \
                          f'remainder'
                    verdict = None
                    why = ''
                    cands = []
                    for rv in resolve_local(f, _unwrap_bytes(raw)):
                        for rv2 in resolve_local(f, _unwrap_bytes(rv)):
                            cands.append(_unwrap_bytes(rv2))
                    for rv in cands:
                        if isinstance(rv, ast.Subscript) and \
                                isinstance(rv.slice, ast.Slice):
                            stop = rv.slice.upper
                            rems = [_unwrap_bytes(x)
                                    for x in resolve_local(f, rem)]
                            for rm in rems:
                                if isinstance(rm, ast.Subscript) and \
                                        isinstance(rm.slice, ast.Slice) and \
                                        txt(rm.value) == txt(rv.value):
                                    start2 = rm.slice.lower
                                    a = {txt(x) for x in
                                         resolve_local(f, stop)} | {txt(stop)}
                                    b = {txt(x) for x in
                                         resolve_local(f, start2)} | \
                                        {txt(start2)}
                                    if a & b:
                                        verdict = True
                                    else:
                                        verdict = False
                                        why = (f'raw form is '
                                               f'{txt(rv)} but the '
                                               f'remainder starts at '
                                               f'{txt(start2)}')
                        elif isinstance(rv, ast.Call) and \
                                call_name(rv) == 'group':
                            m = txt(rv.func.value)
                            ok_ = any(f'{m}.end(' in txt(x)
                                      for x in resolve_local(f, rem)) or \
                                any(f'{m}.end(' in txt(v2) for nm in
                                    [txt(rem)] for _, v2 in
                                    local_assigns(f, nm) if v2 is not None)
                            verdict = ok_ if verdict is None else verdict
                            why = 'match group vs remainder of another match'
                        else:
                            # delegated: raw comes from a sub-parser's result
                            verdict = True if verdict is None else verdict
                    if verdict is None:
                        R.undecided(f, r, key, 'unrecognised raw form')
                    else:
                        R.check(verdict, f, r, key,
                                f'{why}: the cached spelling contains a byte '
                                f'that was NOT consumed (or misses one), so '
                                f're-serialising the parsed value emits a '
                                f'different spelling (e.g. QuotedString '
                                f'b\'"abc" \')', 'same boundary')


def r182(ctx) -> None:
    R = ctx.rule('R18.2', 'literal branches converge', 2)
    ls = ctx.proj.cls(PRIM, 'LiteralString')
    f = ls.own_method('parse')
    if f is None:
        raise AnchorError('LiteralString.parse vanished')
    lits = [v for _, v in local_assigns(f, 'literal') if v is not None]
    forms = {txt(v) for v in lits}
    R.check(len(lits) >= 1 and len(forms) == 1, f, f.node,
            'both literal branches extract the value identically',
            f'the {{n+}} and {{n}} branches extract the literal with '
            f'different expressions {sorted(forms)}: the same bytes parse to '
            f'different values depending on the literal form')
    rets = [r for r in walk_local(f.node) if isinstance(r, ast.Return)]
    one = len(rets) == 1 and isinstance(rets[0].value, ast.Tuple)
    ok = False
    if one and forms:
        rem = rets[0].value.elts[1]
        m = re.match(r'bytes\(buf\[0:(\w+)\]\)', next(iter(forms)))
        ok = bool(m) and txt(rem) == f'buf[{m.group(1)}:]'
    R.check(ok, f, f.node, 'single return; remainder starts where the '
            'literal ends',
            'the remainder after a literal does not start at the literal '
            'length in a return shared by both branches')
    # the length is checked against what was actually received
    tests = [t for t in walk_local(f.node) if isinstance(t, ast.If)
             and 'len(literal)' in txt(t.test)]
    R.check(bool(tests), f, f.node, 'short literal is refused',
            'a literal shorter than announced is not refused')


def r183(ctx) -> None:
    R = ctx.rule('R18.3', 'command word normalisation', 30)
    cm = ctx.proj.cls(CMDS, 'Commands')
    f = cm.own_method('parse')
    if f is None:
        raise AnchorError('Commands.parse vanished')
    # every look-up of the command table: .get(k), table[k], k in table
    keys = []
    for x in walk_local(f.node):
        if isinstance(x, ast.Call) and call_name(x) == 'get' and \
                'commands' in txt(x.func.value) and x.args:
            keys.append(x.args[0])
        elif isinstance(x, ast.Subscript) and 'commands' in txt(x.value) \
                and isinstance(x.ctx, ast.Load):
            keys.append(x.slice)
        elif isinstance(x, ast.Compare) and len(x.ops) == 1 and isinstance(
                x.ops[0], (ast.In, ast.NotIn)) and \
                'commands' in txt(x.comparators[0]):
            keys.append(x.left)
    def uppered(k) -> bool:
        for v in resolve_local(f, k):
            if isinstance(v, ast.Call) and call_name(v) == 'upper':
                return True                      # X.upper()
            if isinstance(v, ast.Call) and call_name(v) == 'join' and \
                    v.args and isinstance(v.args[0], ast.Name):
                # b' '.join(parts): every part appended is <atom>.upper()
                lst = v.args[0].id
                apps = [c for c in calls_in(f.node, 'append')
                        if is_name(c.func.value, lst) and c.args]
                if apps and all(
                        any(isinstance(a, ast.Call)
                            and call_name(a) == 'upper'
                            for a in resolve_local(f, c.args[0]))
                        for c in apps):
                    return True
        return False
    ok = bool(keys) and all(uppered(k) for k in keys)
    # ... and the name handed on to the argument parsers (they compare
    # params.command_name with upper-case constants) is the upper-cased one
    named = [kwarg(c, 'command_name') for c in calls_in(f.node, 'copy')
             if kwarg(c, 'command_name') is not None]
    R.check(bool(named) and all(uppered(k) for k in named), f, f.node,
            'IMAP: params.command_name is the upper-cased command word',
            'the command name stored in the parsing parameters keeps the '
            'client\'s spelling: LiteralString._check_too_big compares it '
            'with b"APPEND", so "append" gets the 4096-byte literal limit '
            'while "APPEND" gets the append limit — the same command means '
            'different things in different letter case')
    R.check(ok, f, f.node, 'IMAP: lookup key is built from upper-cased atoms',
            'the command word is looked up without upper-casing: "noop" and '
            '"NOOP" are different commands')
    from .c05 import registered_commands, cmd_const
    from ..report import Site
    for c in registered_commands(ctx):
        cst, name = const_value(cmd_const(c, 'command'))
        R.check(cst and isinstance(name, bytes) and name == name.upper(),
                Site(c.rel, c.node.lineno, c.name), None,
                f'{c.name}.command is upper-case',
                f'registered name {name!r} is not upper-case: it can never '
                f'match the upper-cased command word')
    sc = ctx.proj.cls(SCMD, 'Command')
    g = sc.own_method('parse')
    ok = any(isinstance(s, ast.Subscript) and 'upper()' in txt(s.slice)
             and 'commands' in txt(s.value) for s in walk_local(g.node))
    R.check(ok, g, g.node, 'sieve: lookup key is upper-cased',
            'the ManageSieve command word is looked up without upper-casing')
    reg = cm.own_method('register')
    ok = any(isinstance(s, ast.Assign) and any(
        isinstance(t, ast.Subscript) and txt(t.slice).endswith('.command')
        for t in s.targets) for s in walk_local(reg.node))
    R.check(ok, reg, reg.node, 'register keys by the class command constant',
            'commands are not registered under their command constant')


def r184(ctx) -> None:
    R = ctx.rule('R18.4', 'writer/reader format agreement', 4)
    dt = ctx.proj.cls(DT, 'DateTime')
    rd = [c for c in calls_in(dt.own_method('parse').node, 'strptime')]
    wr = [c for c in calls_in(dt.own_method('__bytes__').node, 'strftime')]
    rf = {const_value(c.args[1])[1] for c in rd if len(c.args) > 1}
    wf = {const_value(c.args[0])[1] for c in wr if c.args}
    # %X and %H:%M:%S are the same thing in the C locale
    def canon(s):
        return s.replace('%X', '%H:%M:%S') if isinstance(s, str) else s
    R.check(bool(rf) and {canon(x) for x in rf} == {canon(x) for x in wf},
            dt.own_method('parse'), dt.own_method('parse').node,
            'DateTime: strptime format == strftime format',
            f'reader format {sorted(map(str, rf))} differs from writer '
            f'format {sorted(map(str, wf))}: a serialised date-time does '
            f'not parse back')
    # quoted on both sides
    okq = any(call_name(c) == 'parse' and txt(c.func.value) ==
              'QuotedString' for c in calls_in(dt.own_method('parse').node))
    okw = any(const_value(x)[1] == b'"%b"' for x in
              walk_local(dt.own_method('__bytes__').node)
              if isinstance(x, ast.Constant))
    R.check(okq and okw, dt.own_method('__bytes__'),
            dt.own_method('__bytes__').node,
            'DateTime: parsed from and written as a quoted string',
            'date-time is not quoted symmetrically')
    ls = ctx.proj.cls(PRIM, 'LiteralString')
    pat = ls.find_attr('_literal_pattern')
    pre = ls.own_method('_prefix')
    ok = False
    if pat is not None and isinstance(pat[1], ast.Call) and pre is not None:
        cst, src = const_value(pat[1].args[0])
        fmts = [const_value(x)[1] for x in walk_local(pre.node)
                if isinstance(x, ast.Constant) and isinstance(x.value, bytes)
                and b'{' in x.value]
        if cst and fmts:
            rx = re.compile(src)
            ok = all(rx.fullmatch(fm % (bp, 5)) for fm in fmts
                     for bp in (b'', b'~'))
    R.check(ok, pre, getattr(pre, 'node', None),
            'literal prefix written by _prefix is accepted by '
            '_literal_pattern',
            'the literal prefix format the writer emits does not match the '
            'pattern the reader accepts')
    sq = ctx.proj.cls(SEQ, 'SequenceSet')
    wb = sq.own_method('__bytes__')
    eb = sq.own_method('_elem_bytes')
    pp = sq.own_method('_parse_part')
    ps = sq.own_method('parse')
    wconst = {x.value for g in (wb, eb) for x in walk_local(g.node)
              if isinstance(x, ast.Constant) and isinstance(x.value, bytes)}
    rconst = {x.value for g in (pp, ps) for x in walk_local(g.node)
              if isinstance(x, ast.Constant) and isinstance(x.value, int)}
    ok = {b'*', b',', b'%b:%b'} <= wconst and {0x2a, 0x3a, 0x2c} <= rconst
    R.check(ok, wb, wb.node, 'SequenceSet punctuation: writer * : , = '
            'reader 0x2a 0x3a 0x2c',
            f'writer constants {sorted(wconst)} / reader byte tests '
            f'{sorted(rconst)} disagree on "*", ":" or ","')


MODUTF7 = 'pymap/parsing/modutf7.py'


def r186(ctx) -> None:
    R = ctx.rule('R18.6', 'modified UTF-7 encoder escapes every raw "&"', 2,
                 'RFC 3501 5.1.3: "&" is represented by the two-octet '
                 'sequence "&-"')
    m = ctx.proj.module(MODUTF7)
    f = m.funcs.get('modutf7_encode')
    if f is None:
        raise AnchorError('modutf7_encode vanished')
    cfg = cfg_of(f)
    # the loop variable holding the code point
    cps = set()
    for nm in {x.id for x in walk_local(f.node) if isinstance(x, ast.Name)}:
        if any(v is not None and isinstance(v, ast.Call)
               and call_name(v) == 'ord' for _, v in local_assigns(f, nm)):
            cps.add(nm)
    if not cps:
        raise AnchorError('modutf7_encode: code point variable not found')
    n = 0
    for node in cfg.stmt_nodes():
        for c in node.calls():
            if call_name(c) not in ('append', 'extend') or not c.args:
                continue
            arg = c.args[0]
            elems = arg.elts if isinstance(arg, (ast.Tuple, ast.List)) \
                else [arg]
            raw = [e for e in elems if isinstance(e, ast.Name)
                   and e.id in cps]
            if not raw:
                continue
            n += 1
            cp = raw[0].id
            safe = False
            for t in cfg.nodes:
                if t.kind != 'test':
                    continue
                for a, pol in guard_atoms(t.stmt.test):
                    if a.replace(' ', '') in (f'{cp}==38', f'{cp}==0x26',
                                              f'{cp}==ord(\'&\')'):
                        br = 'f' if pol else 't'
                        if cfg.controlled_by(node, t, br):
                            safe = True
                    if a.replace(' ', '') in (f'{cp}!=38', f'{cp}!=0x26'):
                        br = 't' if pol else 'f'
                        if cfg.controlled_by(node, t, br):
                            safe = True
            # guard_atoms unparses 0x26 as 38
            R.check(safe, f, c, f'modutf7_encode: raw emission of `{cp}` at '
                    f'{txt(c)[:40]} excludes "&"',
                    f'`{cp}` is written unencoded on a path where it may be '
                    f'"&" (0x26): a name such as "é&a" is reported by LIST '
                    f'as b"&AOk-&a", which does not decode back to the same '
                    f'name (the "&" opens a shift sequence)')
    if n == 0:
        raise AnchorError('modutf7_encode: raw emissions not found')
    amp = any(const_value(c.args[0]) == (True, b'&-')
              for c in calls_in(f.node) if call_name(c) == 'extend'
              and c.args)
    R.check(amp, f, f.node, 'modutf7_encode emits "&-" for "&"',
            'the encoder never emits the "&-" escape')


def r187(ctx) -> None:
    R = ctx.rule('R18.7', 'all line input goes through the {n+}-collecting '
                 'reader; encoder range tests agree', 3)
    for rel, cn, collector in (('pymap/imap/__init__.py', 'IMAPConnection',
                                'readline'),
                               ('pymap/sieve/manage/__init__.py',
                                'ManageSieveConnection', '_read_data')):
        c = ctx.proj.cls(rel, cn)
        col = c.own_method(collector)
        if col is None:
            raise AnchorError(f'{cn}.{collector} vanished')
        # the collector is the one that looks for the {n+} marker
        has_marker = '_literal_plus' in ' '.join(
            txt(x) for x in walk_local(col.node)
            if isinstance(x, ast.Attribute))
        R.check(has_marker, col, col.node,
                f'{cn}.{collector} collects non-synchronizing literals',
                f'{collector} no longer looks for the {{n+}} marker')
        for fs in c.methods.values():
            for f in fs:
                for x in calls_in(f.node):
                    if call_name(x) in ('readline', 'readuntil') and \
                            txt(x.func.value).endswith('reader'):
                        R.check(f is col, f, x,
                                f'{f.qualname}: raw reader.{call_name(x)}() '
                                f'only inside {collector}',
                                f'{f.qualname} reads a line straight from '
                                f'the stream, bypassing {collector}: a '
                                f'{{n+}} literal on that line is never '
                                f'gathered, so the same command succeeds '
                                f'or fails depending on which literal '
                                f'spelling follows a {{n}} literal (LOGIN '
                                f'{{8}} / testuser {{8+}} / testpass -> '
                                f'BAD)')
    m = ctx.proj.module(MODUTF7)
    f = m.funcs.get('modutf7_encode')
    ranges = []
    for t in walk_local(f.node):
        if isinstance(t, ast.Compare) and len(t.ops) == 2:
            lo, hi = const_value(t.left), const_value(t.comparators[1])
            if lo[0] and hi[0]:
                lo_v = lo[1] + (1 if isinstance(t.ops[0], ast.Lt) else 0)
                hi_v = hi[1] - (1 if isinstance(t.ops[1], ast.Lt) else 0)
                ranges.append((lo_v, hi_v, t.lineno))
    vals = {(a, b) for a, b, _ in ranges}
    R.check(len(ranges) >= 2 and vals == {(0x20, 0x7e)}, f, f.node,
            'modutf7_encode: every "printable" test is 0x20..0x7e',
            f'the printable-range tests are {sorted(vals)} (lines '
            f'{[l for _, _, l in ranges]}): the two encoder modes disagree '
            f'on which characters represent themselves, e.g. a space after '
            f'a non-ASCII character does not end the base64 run and "café '
            f'menu" is reported as a name that decodes to "cafémenu"')


STRING_OBJECTS = ('AString', 'String', 'QuotedString', 'LiteralString',
                  'Mailbox')


def wire_leaks(fnode) -> list:
    """bytes(<parsed string object>) used as a VALUE in a parser: the wire
    spelling ('"Subject"', '{7}\\r\\nSubject') instead of the meaning."""
    objs, lists = set(), set()
    for s_ in ast.walk(fnode):
        if isinstance(s_, ast.Assign) and isinstance(s_.value, ast.Call) \
                and call_name(s_.value) == 'parse' and \
                isinstance(s_.value.func, ast.Attribute) and \
                isinstance(s_.targets[0], ast.Tuple) and \
                isinstance(s_.targets[0].elts[0], ast.Name):
            owner = txt(s_.value.func.value)
            if owner in STRING_OBJECTS:
                objs.add(s_.targets[0].elts[0].id)
            elif owner == 'List':
                lists.add(s_.targets[0].elts[0].id)
    for x in ast.walk(fnode):
        gens = x.generators if isinstance(x, (ast.ListComp, ast.SetComp,
                                              ast.GeneratorExp)) else []
        if isinstance(x, (ast.For,)):
            gens = [x]
        for g in gens:
            it = g.iter
            base = it.func.value if isinstance(it, ast.Call) and isinstance(
                it.func, ast.Attribute) else (
                it.value if isinstance(it, ast.Attribute) else it)
            if isinstance(base, ast.Name) and base.id in lists and \
                    isinstance(g.target, ast.Name):
                objs.add(g.target.id)
    par = {}
    for x in ast.walk(fnode):
        for ch in ast.iter_child_nodes(x):
            par[ch] = x
    out = []
    for c in ast.walk(fnode):
        if isinstance(c, ast.Call) and call_name(c) == 'bytes' and \
                isinstance(c.func, ast.Name) and len(c.args) == 1 and \
                isinstance(c.args[0], ast.Name) and c.args[0].id in objs:
            up = par.get(c)
            if isinstance(up, ast.keyword) and up.arg in ('raw', '_raw'):
                continue
            if isinstance(up, ast.Call) and len(up.args) >= 2 and \
                    up.args[1] is c and call_name(up) in ('cls',) :
                continue            # cls(value, raw): the serialisation cache
            out.append(c)
    return out


def r188(ctx) -> None:
    R = ctx.rule('R18.8', 'parsers take string arguments by value, never by '
                 'their wire spelling', 1)
    n = 0
    for f in ctx.proj.all_funcs('pymap/parsing/'):
        if not (f.name == 'parse' or f.name.startswith('_parse')):
            continue
        n += 1
        for c in wire_leaks(f.node):
            R.fail(f, c, f'{f.qualname}: {txt(c)} used as a value',
                   f'`{txt(c)}` is the WIRE spelling of a parsed string '
                   f'(quotes / literal prefix included), not its value: the '
                   f'same argument means different things as an atom, a '
                   f'quoted string or a literal (BODY[HEADER.FIELDS '
                   f'("Subject")] never matches the Subject header)')
    if n < 40:
        raise AnchorError(f'only {n} parse functions found')
    R.ok(None, None, f'{n} parse functions scanned',
         'no bytes(<parsed string object>) used as a value')
    import os
    from ..report import VERIF
    fx = os.path.join(VERIF, 'fixtures', 'r188_positive.py')
    tree = ast.parse(open(fx).read())
    hits = sum(len(wire_leaks(x)) for x in ast.walk(tree)
               if isinstance(x, ast.FunctionDef))
    R.check(hits == 2, None, None, 'positive fixture still matches',
            f'fixtures/r188_positive.py: {hits} hit(s), expected 2')


B64_ALPHABET = frozenset(
    b'ABCDEFGHIJKLMNOPQRSTUVWXYZabcdefghijklmnopqrstuvwxyz0123456789+/,')


def r189(ctx) -> None:
    """RFC 3501 5.1.3: only 0x20-0x7e represent themselves; every other
    character of a run goes into the base64 of its UTF-16BE form.  Two ways
    to get this wrong that the shape of the code shows:
      (a) going through Python's utf-7 codec, which (per RFC 2152) writes
          TAB, CR and LF directly and has optional-direct characters: for
          such a run there are no shift markers to cut off and the name
          'x<TAB>y' is reported as b'x&-y', which decodes to 'x&y';
      (b) removing padding / markers with a strip whose character class
          contains base64 digits ("+" is one), which eats payload."""
    R = ctx.rule('R18.9', 'the run encoder is base64 over UTF-16BE of the '
                 'whole run; nothing is stripped by a class that contains '
                 'base64 digits', 1)
    m = ctx.proj.module(MODUTF7)
    n = 0
    for f in m.funcs.values():
        encs = [c for c in calls_in(f.node, 'encode') if c.args and
                isinstance(const_value(c.args[0])[1], str)]
        b64 = [c for c in calls_in(f.node)
               if call_name(c) in ('b2a_base64', 'b64encode',
                                   'standard_b64encode')]
        utf7 = [c for c in encs if const_value(c.args[0])[1].lower().replace(
            '_', '-') in ('utf-7', 'utf7')]
        if not b64 and not utf7:
            continue
        n += 1
        key = f'{f.qualname}: every character of the run is base64-encoded'
        if utf7:
            R.fail(f, utf7[0], key,
                   f'`{txt(utf7[0])}`: the utf-7 codec writes TAB, CR and LF '
                   f'(and, depending on the version, other characters) '
                   f'directly instead of into the base64 run; the caller '
                   f'hands it runs of everything outside 0x20-0x7e, so a '
                   f'mailbox created as "x<TAB>y" is listed as b"x&-y" '
                   f'(decodes to "x&y", another name) and "<CR>é" as '
                   f'b"&+AOk-", which does not decode')
        else:
            ok16 = False
            for c in b64:
                for v in (resolve_local(f, c.args[0]) if c.args else []):
                    if isinstance(v, ast.Call) and call_name(v) == 'encode' \
                            and v.args and str(const_value(v.args[0])[1]) \
                            .lower().replace('_', '-') in ('utf-16-be',
                                                           'utf-16be'):
                        ok16 = True
            R.check(ok16, f, b64[0], key,
                    f'the base64 input of `{txt(b64[0])[:50]}` is not '
                    f'<run>.encode("utf-16-be"): the decoder expects '
                    f'UTF-16BE code units', 'base64 of UTF-16BE')
        key2 = f'{f.qualname}: nothing stripped by a class with base64 digits'
        bad = []
        for x in walk_local(f.node):
            if isinstance(x, ast.Call) and call_name(x) in (
                    'strip', 'lstrip', 'rstrip') and \
                    isinstance(x.func, ast.Attribute):
                ok, v = const_value(x.args[0]) if x.args else (True, None)
                chars = frozenset(v) if ok and isinstance(v, bytes) else None
                if chars is None or chars & B64_ALPHABET:
                    bad.append(x)
        R.check(not bad, f, bad[0] if bad else f.node, key2,
                f'`{txt(bad[0])[-40:] if bad else ""}` strips by character '
                f'class, and the class contains base64 digits: a payload '
                f'that begins or ends with one of them loses it (every run '
                f'starting with U+F800..U+FBFF begins with "+"); '
                f'LIST/LSUB/STATUS then report a spelling that does not '
                f'decode back to the name', 'only "=" / newline are stripped')
        rep = any(call_name(c) == 'replace' and len(c.args) == 2
                  and const_value(c.args[0]) == (True, b'/')
                  and const_value(c.args[1]) == (True, b',')
                  for c in calls_in(f.node))
        R.check(rep, f, f.node, f'{f.qualname}: "/" is written as ","',
                'the base64 output is not passed through replace(b"/", '
                'b","): a "/" inside an encoded run is a hierarchy '
                'delimiter to every reader')
    if n == 0:
        raise AnchorError('modutf7: no function builds the base64 of a run '
                          'any more; re-audit R18.9')

"""C16 — IDLE delivers every change: R16.1-R16.4."""
from __future__ import annotations

import ast

from ..cfg import NORMAL, ALL, walk_local
from ..facts import (runs_only_when, cfg_of, call_name, calls_in, targets_of, guard_atoms,
                     is_attr, is_name, enclosing, local_assigns, kwarg,
                     const_value, strip_await, bind_args, names_in)
from ..loader import txt, AnchorError
from ..suspend import SuspModel
from . import c02

DICT = 'pymap/backend/dict/mailbox.py'
MAILDIR = 'pymap/backend/maildir/mailbox.py'
IMAP = 'pymap/imap/__init__.py'
STATE = 'pymap/imap/state.py'
SESS = 'pymap/backend/session.py'


def check(ctx) -> None:
    ctx.explanation = (
        'Static decision of structural necessary conditions of C16: an '
        'un-timed wait in update_selected is control-dependent on a '
        'freshness predicate (consumer position vs producer position) '
        'evaluated after the wake-up listener is armed, with no real '
        'suspension in between (no lost wake-up); a timed wait has a finite '
        'constant timeout and is followed by a full rescan; every mutation '
        'of the dict mailbox signals the event; the IDLE loop sets the stop '
        'event on every path after the DONE reader completes, awaits the '
        'update task, answers BAD when the terminator was not DONE, and '
        'passes the stop event down to the wait.')
    ctx.not_decided = ('delivery within finitely many scheduler steps for '
                       'all interleavings.')
    r161(ctx)
    r162(ctx)
    r163(ctx)
    from . import c01
    before = len(ctx.rules)
    c01.r19(ctx)
    r = ctx.rules[before]
    r.id = 'R16.5'
    r.title = 'every update collected during IDLE is written (= R1.9)'
    for i in r.instances:
        i.rule = 'R16.5'
    c01.r110(ctx, 'R16.6')


def _waits(cfg):
    out = []
    for n in cfg.stmt_nodes():
        for x in n.walk():
            if isinstance(x, ast.Await) and isinstance(x.value, ast.Call) \
                    and call_name(x.value) == 'wait':
                out.append((n, x.value))
    return out


def r161(ctx) -> None:
    R = ctx.rule('R16.1', 'no lost wake-up in update_selected(wait_on)', 2)
    R4 = ctx.rule('R16.4', 'timed wait is finite and followed by a rescan', 1)
    for rel in (DICT, MAILDIR):
        cls = ctx.proj.cls(rel, 'MailboxData')
        f = cls.own_method('update_selected')
        if f is None:
            raise AnchorError(f'{rel}: update_selected vanished')
        if 'wait_on' not in f.params():
            R.fail(f, f.node, f'{rel}: update_selected takes wait_on',
                   'update_selected ignores the stop/wake event: IDLE '
                   'cannot block for changes')
            continue
        cfg = cfg_of(f)
        waits = _waits(cfg)
        if not waits:
            R.fail(f, f.node, f'{rel}: update_selected waits when asked',
                   'update_selected never waits: IDLE spins or never '
                   'blocks')
            continue
        model = SuspModel(ctx.proj, [rel]) if rel == DICT else None
        for n, w in waits:
            to = kwarg(w, 'timeout')
            key = f'{rel}: wait in update_selected'
            if to is not None:
                vals = [to]
                for nm in names_in(to):
                    vals += [v for _, v in local_assigns(f, nm)
                             if v is not None]
                    r = ctx.proj.resolve_name(f.module, nm)
                    if r and r[0] == 'value':
                        vals.append(r[2])
                fin = any(const_value(v)[0]
                          and isinstance(const_value(v)[1], (int, float))
                          and 0 < const_value(v)[1] < 3600 for v in vals)
                rescans = cfg.find(lambda x: any(
                    call_name(c) in ('set_messages', 'messages')
                    for c in x.calls()))
                after = cfg.reach([n], labels=NORMAL)
                R4.check(fin and any(r in after for r in rescans), f, w,
                         key + ' has a finite constant timeout + rescan',
                         f'timeout={txt(to)} is not a finite positive '
                         f'constant or no full rescan follows: a change '
                         f'that lands while nobody signals is never pushed')
                R.ok(f, w, key, 'timed wait (poll) — see R16.4')
                continue
            # un-timed: needs the freshness predicate
            arms = cfg.find(lambda x: any(call_name(c) == 'or_event'
                                          for c in x.calls()))
            tests = []
            for t in cfg.nodes:
                if t.kind != 'test':
                    continue
                s = txt(t.stmt.test)
                for nm in names_in(t.stmt.test):
                    s += ' ' + ' '.join(txt(v) for _, v in
                                        local_assigns(f, nm)
                                        if v is not None)
                cons = 'mod_sequence' in s
                prod = 'highest' in s or '_mod_sequences' in s
                if cons and prod and (cfg.controlled_by(n, t, 't')
                                      or cfg.controlled_by(n, t, 'f')):
                    tests.append(t)
            if not tests:
                R.fail(f, w, key + ' is guarded by a freshness predicate',
                       'the wait is unconditional on a freshly created '
                       'listener: a change logged after this session\'s '
                       'last merge but before the listener is armed is not '
                       'seen until ANOTHER change happens (A SELECT; B '
                       'APPEND; A IDLE -> nothing is pushed)')
                continue
            # the predicate compares the position of the LAST MERGE: it
            # must not come after that position has been overwritten
            overw = cfg.find(lambda x: x.kind == 'stmt' and any(
                isinstance(tg, ast.Attribute) and tg.attr == 'mod_sequence'
                and not is_name(tg.value, 'self')
                for tg in targets_of(x.stmt)))
            stale = [t.lineno for t in tests
                     if any(cfg.dominated_by(t, [o]) for o in overw)]
            if stale:
                R.fail(f, w, key + ' is guarded by a freshness predicate',
                       f'the predicate at line(s) {stale} runs AFTER '
                       f'selected.mod_sequence was overwritten with the '
                       f'log\'s highest value: it compares the log with '
                       f'itself, is always true, and the idler always '
                       f'parks — a change that landed while it was writing '
                       f'the previous notification is only delivered on a '
                       f'LATER change or DONE')
                continue
            ok_order = all(cfg.dominated_by(t, arms) for t in tests) \
                if arms else False
            bad = []
            if model is not None:
                real = model.real_nodes(f, cfg)
                for t in tests:
                    mid = cfg.between([t], [n])
                    bad += [x.lineno for x in mid if x in real]
                for a in arms:
                    for t in tests:
                        mid = cfg.between([a], [t])
                        bad += [x.lineno for x in mid if x in real]
            R.check(ok_order and not bad, f, w,
                    key + ' is guarded by a freshness predicate',
                    ('the freshness predicate is evaluated BEFORE the '
                     'listener is armed: a change landing in between is '
                     'missed' if not ok_order else
                     f'real suspension point(s) at {sorted(set(bad))} '
                     f'between arming/predicate and the wait'),
                    'armed, then predicate, then wait; no suspension in '
                    'between')


def r162(ctx) -> None:
    # every mutation notifies: the notify half of R2.1
    cls = c02.dict_mailbox(ctx)
    before = len(ctx.rules)
    c02.r21(ctx, cls)
    r = ctx.rules[before]
    r.id = 'R16.2'
    r.title = 'every mutation signals the wake-up event (= R2.1)'
    r.instances = [i for i in r.instances if '_updated.set' in i.key]
    for i in r.instances:
        i.rule = 'R16.2'
    r.minimum = 5


def r163(ctx) -> None:
    R = ctx.rule('R16.3', 'IDLE loop typestate', 6)
    conn = ctx.proj.cls(IMAP, 'IMAPConnection')
    idle = conn.own_method('idle')
    hu = conn.own_method('handle_updates')
    if idle is None or hu is None:
        raise AnchorError('IMAPConnection.idle/handle_updates vanished')
    cfg = cfg_of(idle)
    # the awaited DONE reader
    done_tasks = set()
    upd_tasks = set()
    for nm in {x.id for x in walk_local(idle.node)
               if isinstance(x, ast.Name)}:
        for _, v in local_assigns(idle, nm):
            if isinstance(v, ast.Call) and call_name(v) == 'create_task' \
                    and v.args:
                inner = txt(v.args[0])
                if 'read_idle_done' in inner:
                    done_tasks.add(nm)
                if 'handle_updates' in inner:
                    upd_tasks.add(nm)
    aw_done = cfg.find(lambda n: any(
        isinstance(x, ast.Await) and txt(x.value) in done_tasks
        for x in n.walk()))
    aw_upd = cfg.find(lambda n: any(
        isinstance(x, ast.Await) and txt(x.value) in upd_tasks
        for x in n.walk()))
    sets = cfg.find(lambda n: any(call_name(c) == 'set'
                                  and isinstance(c.func, ast.Attribute)
                                  and isinstance(c.func.value, ast.Name)
                                  for c in n.calls()))
    if not aw_done or not aw_upd:
        R.fail(idle, idle.node, 'idle: DONE reader and update task are '
               'awaited', 'idle() does not await both the DONE reader and '
               'the update task')
        return
    # done.set() on every path (normal and exceptional) after the reader
    ok = bool(sets)
    for a in aw_done:
        r = cfg.reach([a], avoid=sets, labels=ALL, first_labels=ALL)
        if any(u in r for u in aw_upd) or cfg.exit in r or \
                cfg.raise_exit in r:
            ok = False
    R.check(ok, idle, idle.node,
            'idle: stop event is set on every path after the DONE reader',
            'some path (e.g. the reader raising) reaches the wait for the '
            'update task, or leaves idle(), without done.set(): the update '
            'task is never told to stop and IDLE hangs')
    R.check(all(cfg.dominated_by(u, aw_done) for u in aw_upd), idle,
            idle.node, 'idle: update task awaited after the DONE reader',
            'the update task is awaited before the DONE reader finished')
    # not ok -> BAD
    bad_ret = cfg.find(lambda n: isinstance(n.stmt, ast.Return)
                       and any(call_name(c) == 'ResponseBad'
                               for c in n.calls()))
    okbad = False
    # the local holding the DONE reader's result (whatever it is called)
    done_vars = {t.id for n_ in aw_done if n_.kind == 'stmt'
                 for t in targets_of(n_.stmt) if isinstance(t, ast.Name)}
    for b in bad_ret:
        if any(runs_only_when(cfg, b, v_, False) for v_ in done_vars):
            okbad = True
    R.check(okbad, idle, idle.node, 'idle: anything but DONE is answered '
            'BAD', 'no `return ResponseBad` under `not ok`')
    # handle_updates loops on the stop event and forwards it
    hcfg = cfg_of(hu)
    recv = hcfg.find(lambda n: any(call_name(c) == 'receive_updates'
                                   for c in n.calls()))
    ev = None
    for p_ in hu.params():
        # every round: the update is collected only while the event is not
        # set, and the collecting statement lies on a cycle
        if recv and all(runs_only_when(hcfg, r, f'{p_}.is_set()', False)
                        and r in hcfg.reach([r], labels=NORMAL)
                        for r in recv):
            ev = p_
    R.check(ev is not None, hu, hu.node,
            'handle_updates loops until the stop event is set',
            'handle_updates does not loop on `not done.is_set()`')
    fw = any(call_name(c) == 'receive_updates'
             and any(txt(a) == ev for a in c.args)
             for c in calls_in(hu.node))
    wr = any(call_name(c) in ('write_updates', 'write_response')
             for c in calls_in(hu.node))
    R.check(fw and wr, hu, hu.node,
            'handle_updates passes the stop event down and writes the '
            'result', 'receive_updates is not given the stop event, or its '
            'untagged output is not written')
    cs = ctx.proj.cls(STATE, 'ConnectionState')
    ru = cs.own_method('receive_updates')
    bs = ctx.proj.cls(SESS, 'BaseSession')
    cm = bs.own_method('check_mailbox')
    if ru is None or cm is None:
        raise AnchorError('receive_updates/check_mailbox vanished')
    ok1 = any(call_name(c) == 'check_mailbox' and kwarg(c, 'wait_on')
              is not None and txt(kwarg(c, 'wait_on')) in ru.params()
              for c in calls_in(ru.node))
    ok2 = any(call_name(c) == 'update_selected'
              and kwarg(c, 'wait_on') is not None
              and txt(kwarg(c, 'wait_on')) == 'wait_on'
              for c in calls_in(cm.node))
    R.check(ok1 and ok2, ru, ru.node,
            'stop event reaches update_selected(wait_on=…)',
            'the IDLE stop event is not forwarded through check_mailbox to '
            'update_selected: DONE cannot interrupt the wait')

"""C05 — connection state machine: R5.1-R5.7."""
from __future__ import annotations

import ast

from ..cfg import NORMAL, ALL, walk_local
from ..facts import (cfg_of, call_name, calls_in, bind_args, targets_of,
                     writers_of, local_assigns, resolve_local, guard_atoms,
                     is_attr, is_name, const_value, strip_await, attr_chain,
                     names_in)
from ..loader import txt, AnchorError
from .. import tables

STATE = 'pymap/imap/state.py'
IMAP = 'pymap/imap/__init__.py'
CMDS = 'pymap/parsing/commands.py'
SESS = 'pymap/backend/session.py'
RESP = 'pymap/parsing/response/__init__.py'
EXC = 'pymap/exceptions.py'

STATE_CLASSES = ('CommandSelect', 'CommandAuth', 'CommandNonAuth',
                 'CommandAny')
NON_HANDLERS = {'do_command', 'do_greeting', 'do_cleanup'}


def registered_commands(ctx):
    m = ctx.proj.module(CMDS)
    lst = m.module_assigns().get('builtin_commands')
    if not isinstance(lst, (ast.List, ast.Tuple)):
        raise AnchorError('builtin_commands list literal not found')
    out = []
    for e in lst.elts:
        c = ctx.proj.resolve_class(m, txt(e))
        if c is None:
            raise AnchorError(f'registered command {txt(e)} not resolvable')
        out.append(c)
    return out


def cmd_const(c, name):
    a = c.find_attr(name)
    if a is None:
        return None
    return a[1]


def state_class(c) -> tuple[str | None, set[str]]:
    present = {k.name for k in c.mro() if k.name in STATE_CLASSES}
    for k in STATE_CLASSES:
        if k in present:
            return k, present
    return None, present


def conn_state(ctx):
    return ctx.proj.cls(STATE, 'ConnectionState')


def check(ctx) -> None:
    ctx.explanation = (
        'Static decision of structural necessary conditions of C05: every '
        'registered command carries the state class RFC 3501/2177/4315/6851/'
        '2971 requires and resolves to a handler; the state gate in '
        'do_command tests the right field with the right polarity for each '
        'state class and dominates the handler invocation; every call of a '
        'command handler from outside the state object goes through that '
        'gate; SELECT clears the selection before its first suspension; '
        'CLOSE deselects before any suspension and cannot be refused for '
        'being read-only; LOGOUT yields BYE then OK and ends the loop; a '
        'refused command touches no state; the session/selection fields '
        'have the enumerated writers only.')
    ctx.not_decided = ('"a refused command has no effect on data" beyond the '
                       'gate; argument-dependent refusals.')
    r51(ctx)
    r52(ctx)
    r53_54(ctx)
    r55(ctx)
    r56(ctx)
    r57(ctx)
    r58(ctx)
    r59(ctx)


# ----------------------------------------------------------------------
def r51(ctx) -> None:
    R = ctx.rule('R5.1', 'command state class = RFC table; handler exists',
                 30, 'RFC 3501 s6, RFC 2177, RFC 4315, RFC 6851, RFC 2971')
    cs = conn_state(ctx)
    for c in registered_commands(ctx):
        cst, name = const_value(cmd_const(c, 'command'))
        if not cst or not isinstance(name, bytes):
            R.fail(c.module.funcs.get(c.name + '.parse'), c.node,
                   f'{c.name}: command constant', 'no constant command name')
            continue
        key = f'{name.decode()}: state class'
        eff, present = state_class(c)
        want = tables.IMAP_COMMAND_STATE.get(name)
        site = (None, c.node)
        from ..report import Site
        st = Site(c.rel, c.node.lineno, c.name)
        if want is None:
            R.undecided(st, None, key, f'{name!r} is not in the transcribed '
                        f'RFC table (extension command); class {eff}')
        elif 'CommandNonAuth' in present and 'CommandAuth' in present:
            R.fail(st, None, key, f'{c.name} is both CommandNonAuth and '
                   f'CommandAuth: refused in every state')
        else:
            R.check(eff in want, st, None, key,
                    f'{c.name} derives from {eff}; the RFC requires '
                    f'{sorted(want)}: the gate admits or refuses '
                    f'{name.decode()} in the wrong connection state',
                    f'{eff}')
        # handler resolution
        key = f'{name.decode()}: handler'
        cst2, compound = const_value(cmd_const(c, 'compound'))
        if cst2 and compound:
            R.ok(st, None, key, 'compound prefix (never dispatched)')
            continue
        seen = []
        cur = c
        cyc = False
        while True:
            d = cmd_const(cur, 'delegate')
            if d is None or (isinstance(d, ast.Constant) and d.value is None):
                break
            nxt = ctx.proj.resolve_class(cur.module, txt(d))
            if nxt is None or nxt in seen:
                cyc = True
                break
            seen.append(cur)
            cur = nxt
        if cyc:
            R.fail(st, None, key, f'delegate chain of {c.name} is cyclic or '
                   f'unresolvable: _get_func_name never terminates')
            continue
        c2, n2 = const_value(cmd_const(cur, 'command'))
        hname = 'do_' + (n2.decode('ascii').lower() if c2 else '?')
        h = cs.own_method(hname)
        ok = h is not None and (h.is_async)
        R.check(ok, st, None, key,
                f'no coroutine ConnectionState.{hname}: {name.decode()} is '
                f'answered "Not Implemented"', hname)
        if ok and cur is not c:
            # the delegate must sit in the same state class
            e2, _ = state_class(cur)
            R.check(e2 == eff, st, None,
                    f'{name.decode()}: delegate state class',
                    f'{c.name} ({eff}) delegates to {cur.name} ({e2})')


# ----------------------------------------------------------------------
def _gate_info(ctx):
    """Analyse do_command: -> (func, cfg, invoke nodes, {state class: test})"""
    cs = conn_state(ctx)
    f = cs.own_method('do_command')
    if f is None:
        raise AnchorError('ConnectionState.do_command vanished')
    cfg = cfg_of(f)
    # the handler invocation: an awaited call of a local bound by getattr
    handler_names = set()
    for nm in {x.id for x in walk_local(f.node) if isinstance(x, ast.Name)}:
        for _, v in local_assigns(f, nm):
            if isinstance(v, ast.Call) and call_name(v) == 'getattr':
                handler_names.add(nm)
    inv = cfg.find(lambda n: n.suspends and any(
        (isinstance(c.func, ast.Name) and c.func.id in handler_names)
        or (isinstance(c.func, ast.Call) and call_name(c.func) == 'getattr')
        for c in n.calls()))
    if not inv:
        raise AnchorError('do_command: dynamic handler invocation not found')
    return cs, f, cfg, inv


def _gate_funcs(ctx, cs, f):
    """do_command itself plus same-class helpers it calls before invoking
    (an extracted gate function)."""
    out = [f]
    for c in calls_in(f.node):
        if isinstance(c.func, ast.Attribute) and \
                is_name(c.func.value, 'self'):
            h = cs.own_method(c.func.attr)
            if h is not None and h is not f and \
                    not h.name.startswith('do_'):
                out.append(h)
    return out


def r52(ctx) -> None:
    R = ctx.rule('R5.2', 'state gate dominates every route to a handler', 5)
    cs, f, cfg, inv = _gate_info(ctx)
    # part 1: a refusing test per state class
    for k, (field, truth) in tables.GATE.items():
        key = f'do_command: gate for {k}'
        found = None
        problems = []
        for g in _gate_funcs(ctx, cs, f):
            gcfg = cfg_of(g)
            for t in gcfg.nodes:
                if t.kind != 'test':
                    continue
                atoms = guard_atoms(t.stmt.test)
                isa = [a for a, pol in atoms
                       if pol and a.startswith('isinstance(')
                       and a.endswith(f', {k})')]
                if not isa:
                    continue
                flds = [(a, pol) for a, pol in atoms
                        if a in (f'self.{field}',)]
                others = [(a, pol) for a, pol in atoms
                          if (a, pol) not in flds and a not in isa]
                if len(flds) != 1 or flds[0][1] != truth or others:
                    problems.append(
                        f'line {t.lineno}: test `{txt(t.stmt.test)}` does '
                        f'not refuse {k} exactly when self.{field} is '
                        f'{"set" if truth else "unset"}')
                    continue
                # refusal: the true branch never reaches the invocation and
                # ends in `return ResponseBad` / raise
                tb = [m for m, lab in t.succ if lab == 't']
                reach = gcfg.reach(tb, labels=ALL, include_starts=True,
                                   first_labels=ALL) | set(tb)
                if g is f and any(i in reach for i in inv):
                    problems.append(f'line {t.lineno}: refusing branch '
                                    f'still reaches the handler')
                    continue
                found = t
        if found is not None and g is not None:
            # the test must dominate the invocation (in do_command: the test
            # itself or the call of the helper containing it)
            pass
        R.check(found is not None and not problems, f, f.node, key,
                '; '.join(problems) or
                f'no test refuses {k} commands on self.{field}: commands of '
                f'that class run in a state the RFC forbids',
                f'refuses when self.{field} is '
                f'{"set" if truth else "unset"}')
    # the gate tests dominate the invocation
    tests = [t for t in cfg.nodes if t.kind == 'test' and any(
        a.startswith('isinstance(') and any(a.endswith(f', {k})')
                                            for k in tables.GATE)
        for a, _ in guard_atoms(t.stmt.test))]
    helper_calls = cfg.find(lambda n: any(
        isinstance(c.func, ast.Attribute) and is_name(c.func.value, 'self')
        and cs.own_method(c.func.attr) in _gate_funcs(ctx, cs, f)[1:]
        for c in n.calls()))
    for i in inv:
        nd = [t for t in tests if not cfg.dominated_by(i, [t])]
        ok = (tests and not nd) or (not tests and helper_calls and
                                    cfg.dominated_by(i, helper_calls))
        R.check(bool(ok), f, i.stmt, 'do_command: gate precedes invocation',
                f'handler invocation at line {i.lineno} is reachable without '
                f'passing the gate test(s) at {[t.lineno for t in nd]}',
                f'{len(tests)} gate test(s) dominate the invocation')
    # part 2: who calls handlers from outside
    handlers = {n for n, fs in cs.methods.items()
                if n.startswith('do_') and n not in NON_HANDLERS}
    cmd_of = {}
    for c in registered_commands(ctx):
        cst, nm = const_value(cmd_const(c, 'command'))
        if cst and isinstance(nm, bytes):
            cmd_of['do_' + nm.decode('ascii').lower().replace(' ', '_')] = c
    n_sites = 0
    for g in ctx.proj.all_funcs('pymap/'):
        if g.cls is cs or g.rel.startswith('pymap/sieve/') or \
                g.rel.startswith('pymap/admin/'):
            continue
        if not any(h in g.module.src for h in handlers):
            continue
        gcfg = None
        for c in calls_in(g.node):
            nm = call_name(c)
            if nm not in handlers or not isinstance(c.func, ast.Attribute):
                continue
            n_sites += 1
            key = f'{g.qualname}: direct call of {nm}'
            gcfg = gcfg or cfg_of(g)
            ok, why = _route_ok(ctx, cs, g, gcfg, c, nm, cmd_of.get(nm))
            R.check(ok, g, c, key,
                    f'{g.qualname} invokes the command handler {nm} without '
                    f'going through do_command: {why}', why)
    if n_sites == 0:
        R.ok(f, f.node, 'no handler is called from outside ConnectionState',
             'all routes go through do_command')


def _session_props(cs):
    """ConnectionState properties/methods whose result reads `_session`
    truthiness: name -> polarity (True: truthy iff a session exists)."""
    out = {}
    for n, fs in cs.methods.items():
        for p in fs:
            rets = [r for r in walk_local(p.node)
                    if isinstance(r, ast.Return) and r.value is not None]
            if len(rets) != 1:
                continue
            atoms = guard_atoms(rets[0].value)
            if len(atoms) == 1 and atoms[0][0] == 'self._session':
                out[n] = atoms[0][1]
    return out


def _route_ok(ctx, cs, g, gcfg, call, hname, cmdcls):
    nodes = gcfg.node_containing(call)
    eff = state_class(cmdcls)[0] if cmdcls is not None else None
    props = _session_props(cs)
    recv = txt(call.func.value)
    for n in nodes:
        for t in gcfg.nodes:
            if t.kind != 'test':
                continue
            atoms = guard_atoms(t.stmt.test)
            for a, pol in atoms:
                # (ii) negation of the gate condition for the state class
                if eff == 'CommandNonAuth' and a.startswith(recv + '.'):
                    p = a[len(recv) + 1:].rstrip('()')
                    if p in props:
                        session_exists_on_true = props[p] == pol
                        br = 'f' if session_exists_on_true else 't'
                        # with conjunctions the call sits on the true branch
                        if gcfg.controlled_by(n, t, br) and \
                                _complement_to_gate(gcfg, t, br, n):
                            return True, (f'guarded by `{a}` '
                                          f'({"not " if pol else ""}'
                                          f'authenticated), other branch '
                                          f'goes to do_command')
                        if len(atoms) > 1 and not session_exists_on_true \
                                and gcfg.controlled_by(n, t, 't') and \
                                _complement_to_gate(gcfg, t, 't', n):
                            return True, f'guarded by `{a}` in a conjunction'
                # (i) refusal result of an extracted gate function is None
                if a.endswith(' is None') or pol is False:
                    pass
    return False, ('no gate on this route: a %s command is executed in any '
                   'connection state (e.g. AUTHENTICATE after LOGIN runs a '
                   'second SASL exchange and replaces the session)'
                   % (eff or 'state-bound'))


def _complement_to_gate(gcfg, t, br, n) -> bool:
    other = 't' if br == 'f' else 'f'
    firsts = [m for m, lab in t.succ if lab == other]
    r = gcfg.reach(firsts, labels=ALL, first_labels=ALL,
                   include_starts=True) | set(firsts)
    return any(any(call_name(c) == 'do_command' for c in x.calls())
               for x in r)


# ----------------------------------------------------------------------
def _clear_nodes(cfg):
    return cfg.find(lambda n: n.kind == 'stmt' and isinstance(
        n.stmt, (ast.Assign, ast.AnnAssign)) and any(
        is_attr(t, '_selected', 'self') for t in targets_of(n.stmt))
        and const_value(n.stmt.value) == (True, None))


def r53_54(ctx) -> None:
    R3 = ctx.rule('R5.3', 'SELECT clears the selection first', 1)
    R4 = ctx.rule('R5.4', 'CLOSE always deselects', 2)
    cs = conn_state(ctx)
    for hn, R in (('do_select', R3), ('do_close', R4)):
        f = cs.own_method(hn)
        if f is None:
            raise AnchorError(f'ConnectionState.{hn} vanished')
        cfg = cfg_of(f)
        clears = _clear_nodes(cfg)
        susp = [n for n in cfg.nodes if n.suspends and n in cfg.live()]
        bad = [n.lineno for n in susp
               if not cfg.dominated_by(n, clears, labels=ALL)]
        # alternative idiom: the clear sits in a finally covering them
        in_finally = False
        for t in walk_local(f.node):
            if isinstance(t, ast.Try) and t.finalbody and any(
                    is_attr(x, '_selected', 'self')
                    for s in t.finalbody for st in ast.walk(s)
                    for x in targets_of(st)):
                covered = {id(x) for s in t.body + t.orelse +
                           [h for h in t.handlers] for x in ast.walk(s)}
                if all(id(n.stmt) in covered or any(
                        id(e) in covered for e in n.walk()) for n in susp
                       if n.lineno in bad):
                    in_finally = True
        R.check(bool(clears) and (not bad or in_finally), f, f.node,
                f'{hn}: _selected = None before every suspension point',
                (f'suspension point(s) at line(s) {bad} can run (and fail, '
                 f'or be cancelled) while the old selection is still in '
                 f'place: ' if clears else 'the selection is never cleared: ')
                + ('a failed SELECT leaves the previous mailbox selected'
                   if hn == 'do_select' else
                   'a CLOSE that fails (e.g. NO [READ-ONLY] after EXAMINE) '
                   'leaves the mailbox selected'),
                'deselect dominates all suspension points')
    # every completion of CLOSE has deselected (a return that skips the
    # clear answers OK and stays selected)
    f = cs.own_method('do_close')
    cfg = cfg_of(f)
    clears = _clear_nodes(cfg)
    rets = cfg.find(lambda n: isinstance(n.stmt, ast.Return))
    skip = sorted({r.lineno for r in rets
                   if not cfg.dominated_by(r, clears, labels=ALL)})
    R4.check(bool(rets) and not skip, f, f.node,
             'do_close: every return has passed `_selected = None`',
             f'return at line(s) {skip} is reachable without clearing the '
             f'selection: CLOSE after EXAMINE answers OK but the mailbox '
             f'stays selected — FETCH, UID SEARCH and a second CLOSE are '
             f'accepted afterwards instead of "BAD Must select a mailbox '
             f'first"')
    # R5.4 (ii): cannot be refused for being read-only
    f = cs.own_method('do_close')
    bs = ctx.proj.cls(SESS, 'BaseSession')
    cfg = cfg_of(f)
    n_calls = 0
    for n in cfg.stmt_nodes():
        for c in n.calls():
            if not ('session' in attr_chain(c.func)
                    and isinstance(c.func, ast.Attribute)):
                continue
            callee = bs.own_method(c.func.attr)
            if callee is None:
                continue
            n_calls += 1
            ro_params = _raises_readonly_on(callee)
            key = f'do_close: {c.func.attr} not refused when read-only'
            if not ro_params:
                R4.ok(f, c, key, f'{c.func.attr} does not raise '
                      f'MailboxReadOnly')
                continue
            b = bind_args(callee, c)
            okall = True
            for p in ro_params:
                arg = b.get(p)
                names = {txt(arg)} if arg is not None else set()
                for v in resolve_local(f, arg) if arg is not None else []:
                    names.add(txt(v))
                if isinstance(arg, ast.Name):
                    names.add(arg.id)
                guarded = False
                for t in cfg.nodes:
                    if t.kind != 'test':
                        continue
                    for a, pol in guard_atoms(t.stmt.test):
                        for nm in names:
                            if a == f'{nm}.readonly' and cfg.controlled_by(
                                    n, t, 'f' if pol else 't'):
                                guarded = True
                okall = okall and guarded
            R4.check(okall, f, c, key,
                     f'{c.func.attr} raises MailboxReadOnly when its '
                     f'selection is read-only and do_close calls it '
                     f'unconditionally: CLOSE after EXAMINE answers NO '
                     f'[READ-ONLY] (RFC 3501 6.4.2: CLOSE of a read-only '
                     f'selection succeeds and removes nothing)',
                     'called only when the selection is read-write')
    if n_calls == 0:
        R4.ok(f, f.node, 'do_close: no session call that can refuse',
              'nothing to refuse')


def _raises_readonly_on(callee) -> list[str]:
    """Parameters p such that callee raises MailboxReadOnly under
    `p.readonly`."""
    out = []
    cfg = cfg_of(callee)
    for n in cfg.find(lambda n: isinstance(n.stmt, ast.Raise)
                      and 'MailboxReadOnly' in txt(n.stmt)):
        for t in cfg.nodes:
            if t.kind != 'test':
                continue
            for a, pol in guard_atoms(t.stmt.test):
                if a.endswith('.readonly') and pol and \
                        cfg.controlled_by(n, t, 't'):
                    p = a[:-len('.readonly')]
                    if p in callee.params():
                        out.append(p)
    return out


# ----------------------------------------------------------------------
def r55(ctx) -> None:
    R = ctx.rule('R5.5', 'LOGOUT: BYE then OK, then the loop ends', 4)
    cs = conn_state(ctx)
    f = cs.own_method('do_logout')
    if f is None:
        raise AnchorError('do_logout vanished')
    cfg = cfg_of(f)
    raises = cfg.find(lambda n: isinstance(n.stmt, ast.Raise)
                      and 'CloseConnection' in txt(n.stmt))
    ok = bool(raises) and cfg.exit not in cfg.live()
    R.check(ok, f, f.node, 'do_logout raises CloseConnection on every path',
            'do_logout can return normally: LOGOUT would not close')
    cc = ctx.proj.cls(EXC, 'CloseConnection')
    gr = cc.own_method('get_response')
    if gr is None:
        raise AnchorError('CloseConnection.get_response vanished')
    rets = [r for r in walk_local(gr.node) if isinstance(r, ast.Return)]
    good = False
    for r in rets:
        for v in resolve_local(gr, r.value):
            if isinstance(v, ast.Call) and call_name(v) == 'ResponseOk':
                nm = txt(r.value)
                for c in calls_in(gr.node, 'add_untagged'):
                    if txt(c.func.value) == nm and any(
                            isinstance(a, ast.Call)
                            and call_name(a) == 'ResponseBye'
                            for a in c.args):
                        good = True
    R.check(good, gr, gr.node,
            'CloseConnection response = OK carrying an untagged BYE',
            'the LOGOUT response is not a ResponseOk with an untagged '
            'ResponseBye attached')
    cr = ctx.proj.cls(RESP, 'CommandResponse')
    for mname in ('async_write', 'write'):
        w = cr.own_method(mname)
        if w is None:
            continue
        wcfg = cfg_of(w)
        unt = wcfg.find(lambda n: n.kind == 'for_iter'
                        and '_untagged' in txt(n.stmt.iter))
        tagged = wcfg.find(lambda n: any(
            isinstance(c.func, ast.Attribute)
            and txt(c.func.value) == 'super()' for c in n.calls()))
        ok = bool(unt) and bool(tagged) and all(
            wcfg.dominated_by(t, unt) for t in tagged) and not any(
            u in wcfg.reach(tagged, labels=NORMAL) for u in unt)
        R.check(ok, w, w.node,
                f'CommandResponse.{mname}: untagged before tagged',
                'the tagged line is not written after all untagged lines '
                '(BYE must precede the tagged OK)')
    rs = ctx.proj.func(IMAP, 'IMAPConnection._run_state')
    # in the ResponseError handler: write, then break on is_terminal
    good = False
    for h in [x for x in walk_local(rs.node)
              if isinstance(x, ast.ExceptHandler)
              and x.type is not None and 'ResponseError' in txt(x.type)]:
        has_write = any(call_name(c) == 'write_response'
                        for s in h.body for c in calls_in(s))
        brk = any(isinstance(s, ast.If) and 'is_terminal' in txt(s.test)
                  and any(isinstance(b, (ast.Break, ast.Return))
                          for b in s.body) for s in h.body)
        inloop = any(isinstance(x, ast.While) and any(
            y is h for y in ast.walk(x)) for x in walk_local(rs.node))
        if has_write and brk and inloop:
            good = True
    R.check(good, rs, rs.node,
            '_run_state: ResponseError handler writes then breaks on '
            'is_terminal',
            'the command loop does not write the error response and leave '
            'on a terminal response: LOGOUT would not end the connection '
            'after BYE/OK')


def r56(ctx) -> None:
    R = ctx.rule('R5.6', 'a refused command touches nothing', 3)
    cs, f, cfg, inv = _gate_info(ctx)
    bad_returns = cfg.find(lambda n: isinstance(n.stmt, ast.Return)
                           and any(call_name(c) == 'ResponseBad'
                                   for c in n.calls()))
    for r in bad_returns:
        before = cfg.reach_back([r], labels=ALL)
        dirty = []
        for n in before:
            if n.kind == 'stmt':
                for t in targets_of(n.stmt):
                    if isinstance(t, ast.Attribute) and \
                            is_name(t.value, 'self'):
                        dirty.append((n.lineno, txt(t)))
            for c in n.calls():
                ch = attr_chain(c.func)
                if ch[:2] in (['self', 'session'], ['self', '_session']) or \
                        (isinstance(c.func, ast.Name)
                         and c.func.id in ('func',)):
                    dirty.append((n.lineno, txt(c.func)))
        R.check(not dirty, f, r.stmt,
                f'do_command: refusal `{txt(r.stmt)[:50]}` preceded by no '
                f'effect', f'state is touched before the refusal: {dirty}',
                'no self-field store or session call on any path to it')


def r57(ctx) -> None:
    R = ctx.rule('R5.7', '_session ownership', 2)
    allowed = {'__init__', 'do_greeting', 'do_authenticate'}
    cs = conn_state(ctx)
    for f, s, t, rel in writers_of(ctx.proj, '_session'):
        if f is not None and f.cls is not None and f.cls is not cs and \
                is_name(t.value, 'self'):
            continue        # another class's own field of the same name
        who = f.qualname if f else rel
        ok = f is not None and f.cls is cs and f.name in allowed and \
            is_name(t.value, 'self')
        R.check(ok, f, s, f'writer of _session: {who}',
                f'{who} stores ConnectionState._session; only '
                f'{sorted(allowed)} may (authentication state must change '
                f'only through the login chain)')
        if ok and f.name != '__init__':
            v = strip_await(getattr(s, 'value', None))
            R.check(isinstance(v, ast.Call) and call_name(v) == '_login',
                    f, s, f'{who}: _session value comes from _login',
                    f'_session is assigned {txt(v)}, not the result of the '
                    f'login chain')


def r58(ctx) -> None:
    from . import c01
    before = len(ctx.rules)
    c01.r15(ctx)
    r = ctx.rules[before]
    r.id = 'R5.8'
    r.title = ('_selected is only cleared (SELECT/CLOSE) or advanced by '
               'fork (= R1.5): no handler restores an old selection')
    for i in r.instances:
        i.rule = 'R5.8'


def r59(ctx) -> None:
    R = ctx.rule('R5.9', 'state objects tested by truthiness are always '
                 'truthy', 2)
    # where is "is something selected / is there a session" decided by the
    # truth value of the object itself?
    tested: dict[str, list] = {}
    ann_of: dict[str, str] = {}
    for rel in ('pymap/imap/state.py', 'pymap/backend/session.py',
                'pymap/imap/__init__.py'):
        for f in ctx.proj.all_funcs(rel):
            # names -> annotation text (parameters, and self._x via __init__)
            anns = {}
            a = f.node.args
            for p_ in a.posonlyargs + a.args + a.kwonlyargs:
                if p_.annotation is not None:
                    anns[p_.arg] = txt(p_.annotation)
            if f.cls is not None:
                init = f.cls.own_method('__init__')
                if init is not None:
                    for s_ in walk_local(init.node):
                        if isinstance(s_, ast.AnnAssign) and isinstance(
                                s_.target, ast.Attribute):
                            anns[txt(s_.target)] = txt(s_.annotation)
            for t in walk_local(f.node):
                test = t.test if isinstance(t, (ast.If, ast.IfExp,
                                                ast.While)) else None
                if test is None:
                    continue
                for x in ast.walk(test):
                    # bare truth tests: the node itself is an operand of
                    # not/and/or/if, not of a comparison or call
                    pass
                bare = []

                def collect(e):
                    if isinstance(e, ast.BoolOp):
                        for v in e.values:
                            collect(v)
                    elif isinstance(e, ast.UnaryOp) and isinstance(
                            e.op, ast.Not):
                        collect(e.operand)
                    elif isinstance(e, (ast.Name, ast.Attribute)):
                        bare.append(e)
                collect(test)
                for e in bare:
                    an = anns.get(txt(e), '')
                    for cn in ('SelectedMailbox', 'SessionInterface'):
                        if cn in an and 'None' in an:
                            tested.setdefault(cn, []).append(
                                f'{f.qualname}:{t.lineno}')
    if 'SelectedMailbox' not in tested:
        raise AnchorError('no truth test of an Optional[SelectedMailbox] '
                          'found')
    for cn, sites in sorted(tested.items()):
        cands = [c for m in ctx.proj.modules.values()
                 for c in m.classes.values() if c.name == cn]
        # concrete subclasses too (sessions)
        subs = [c for m in ctx.proj.modules.values()
                for c in m.classes.values()
                if any(b.name == cn for b in c.mro()[1:])]
        for c in cands + subs:
            if c.rel.startswith(('pymap/admin/', 'pymap/backend/redis/')):
                continue
            offenders = [k.name + '.' + nm for k in c.mro()
                         for nm in ('__len__', '__bool__')
                         if k.own_method(nm) is not None]
            R.check(not offenders, None, c.node,
                    f'{c.name}: no __len__/__bool__ (truth-tested at '
                    f'{len(sites)} site(s))',
                    f'{offenders} makes a {c.name} falsy in some state, but '
                    f'{len(sites)} site(s) ({", ".join(sites[:4])}, …) '
                    f'decide "is one present?" by its truth value: a '
                    f'successful SELECT of a mailbox with 0 messages then '
                    f'behaves as if nothing were selected (FETCH -> BAD '
                    f'"Must select a mailbox first", NOOP/APPEND never '
                    f'deliver EXISTS)')

"""C13 — SEARCH: R13.1-R13.6 (table extraction and agreement)."""
from __future__ import annotations

import ast

from ..cfg import NORMAL, ALL, walk_local
from ..facts import (truth_table, cfg_of, call_name, calls_in, targets_of, guard_atoms,
                     is_attr, is_name, enclosing, local_assigns, kwarg,
                     const_value, strip_await, resolve_local, eval_static)
from ..loader import txt, AnchorError
from .. import tables

SEARCH = 'pymap/search.py'
SKEY = 'pymap/parsing/specials/searchkey.py'
STATE = 'pymap/imap/state.py'

LOADED_READS = {'get_envelope_structure', 'get_header', 'get_headers',
                'get_size', 'contains', 'get_body', 'get_message_headers',
                'get_message_text', 'get_body_structure'}


def _key_consts(test: ast.AST, var: str) -> list[bytes]:
    """Constants K such that the test is `var == K` or `var in (K, …)`."""
    out: list[bytes] = []
    if isinstance(test, ast.Compare) and len(test.ops) == 1 and \
            txt(test.left) == var:
        c = test.comparators[0]
        if isinstance(test.ops[0], ast.Eq):
            ok, v = const_value(c)
            if ok and isinstance(v, bytes):
                out.append(v)
        elif isinstance(test.ops[0], ast.In):
            ok, v = const_value(c)
            if ok:
                out += [x for x in v if isinstance(x, bytes)]
    return out


def dispatch_table(ctx):
    """SearchCriteria.of: key -> (constructor name, [arg texts], node)"""
    sc = ctx.proj.cls(SEARCH, 'SearchCriteria')
    f = sc.own_method('of')
    if f is None:
        raise AnchorError('SearchCriteria.of vanished')
    var = None
    for nm in ('key_name',):
        if local_assigns(f, nm):
            var = nm
    if var is None:
        # role: a local assigned from key.value
        for n in {x.id for x in walk_local(f.node)
                  if isinstance(x, ast.Name)}:
            if any(v is not None and txt(v).endswith('.value')
                   for _, v in local_assigns(f, n)):
                var = n
    if var is None:
        raise AnchorError('SearchCriteria.of: key variable not found')
    table = {}
    for t in walk_local(f.node):
        if isinstance(t, ast.If):
            ks = _key_consts(t.test, var)
            if not ks:
                continue
            rets = [s for s in t.body if isinstance(s, ast.Return)]
            ctor = None
            if rets and isinstance(rets[-1].value, ast.Call):
                c = rets[-1].value
                ctor = (call_name(c), [txt(a) for a in c.args], rets[-1])
            for k in ks:
                table[k] = ctor
    # table-driven branch: `elif key in cls._table: a, b = cls._table[key];
    # return Ctor(a, b, ...)` with a class-level dict literal
    for t in walk_local(f.node):
        if not (isinstance(t, ast.If) and isinstance(t.test, ast.Compare)
                and len(t.test.ops) == 1
                and isinstance(t.test.ops[0], ast.In)
                and txt(t.test.left) == var
                and isinstance(t.test.comparators[0], ast.Attribute)):
            continue
        attr = t.test.comparators[0]
        fa = sc.find_attr(attr.attr)
        if fa is None or not isinstance(fa[1], ast.Dict):
            continue
        unpack = {}
        whole = None
        for s_ in t.body:
            if isinstance(s_, ast.Assign) and isinstance(
                    s_.value, ast.Subscript) and txt(s_.value.value) == \
                    txt(attr) and txt(s_.value.slice) == var:
                tg = s_.targets[0]
                if isinstance(tg, ast.Tuple):
                    for i, e in enumerate(tg.elts):
                        unpack[txt(e)] = i
                else:
                    whole = txt(tg)
        rets = [s_ for s_ in t.body if isinstance(s_, ast.Return)]
        if not rets or not isinstance(rets[-1].value, ast.Call):
            continue
        c = rets[-1].value
        for k, v in zip(fa[1].keys, fa[1].values):
            okk, kv = const_value(k)
            if not (okk and isinstance(kv, bytes)):
                continue
            args = []
            for a in c.args:
                ta = txt(a)
                if ta in unpack and isinstance(v, ast.Tuple) and \
                        unpack[ta] < len(v.elts):
                    args.append(txt(v.elts[unpack[ta]]))
                elif whole is not None and ta == whole:
                    args.append(txt(v))
                else:
                    args.append(ta)
            table[kv] = (call_name(c), args, rets[-1])
    # dict-dispatch idiom
    for d in walk_local(f.node):
        if isinstance(d, ast.Dict):
            for k, v in zip(d.keys, d.values):
                ok, kv = const_value(k)
                if ok and isinstance(kv, bytes):
                    table[kv] = (txt(v), [], d)
    return f, var, table


def produced_keys(ctx):
    sk = ctx.proj.cls(SKEY, 'SearchKey')
    f = sk.own_method('parse')
    if f is None:
        raise AnchorError('SearchKey.parse vanished')
    out: dict[bytes, ast.AST] = {}
    for r in walk_local(f.node):
        if not (isinstance(r, ast.Return) and isinstance(r.value, ast.Tuple)
                and r.value.elts and isinstance(r.value.elts[0], ast.Call)
                and call_name(r.value.elts[0]) == 'cls'
                and r.value.elts[0].args):
            continue
        k = r.value.elts[0].args[0]
        ok, v = const_value(k)
        if ok and isinstance(v, bytes):
            out[v] = r
        elif isinstance(k, ast.Name):
            for t in enclosing(f.node, r, (ast.If,)):
                for c in _key_consts(t.test, k.id):
                    if r in t.body:
                        out[c] = r
    return f, out


def check(ctx) -> None:
    ctx.explanation = (
        'Static decision of structural necessary conditions of C13 as table '
        'agreement: every key the search-key parser can produce is '
        'dispatched by SearchCriteria.of; the flag keys map to the RFC 3501 '
        '6.4.4 flag with the right polarity, the date and size keys to the '
        'right comparison and each operator string to that comparison in '
        'matches(); a key set is a conjunction (all), OR a disjunction, NOT '
        'a negation; a criteria class that reads message content has all '
        'its keys classified HEADER/CONTENT in SearchKey.requirement; the '
        'pre-filter sequence set is one of the conjuncts; results are '
        'reported as UIDs exactly under UID SEARCH.')
    ctx.not_decided = ('result sets over all programs and mailboxes; '
                       'date/time-zone arithmetic; substring semantics.')
    f, var, table = dispatch_table(ctx)
    r131(ctx, f, table)
    r132(ctx, f, table)
    r133(ctx)
    r134(ctx, table)
    r135(ctx)
    r136(ctx)
    r137(ctx)
    r138(ctx)
    r139(ctx)


def r131(ctx, f, table) -> None:
    R = ctx.rule('R13.1', 'parser keys are all dispatched', 30)
    pf, prod = produced_keys(ctx)
    for k, node in sorted(prod.items()):
        R.check(k in table and table[k] is not None, pf, node,
                f'{k.decode()} is dispatched by SearchCriteria.of',
                f'SearchKey.parse accepts {k.decode()} but '
                f'SearchCriteria.of has no branch for it: a valid SEARCH '
                f'{k.decode()} is refused')
    extra = sorted(k.decode() for k in table if k not in prod)
    if extra:
        ctx.notes.append(f'R13.1: dispatched but never produced by the '
                         f'parser (dead, harmless): {extra}')


def r132(ctx, f, table) -> None:
    R = ctx.rule('R13.2', 'flag / date / size tables vs RFC 3501 6.4.4', 22,
                 'RFC 3501 section 6.4.4')
    for k, (flag, pol) in tables.SEARCH_FLAG_KEYS.items():
        ent = table.get(k)
        key = f'{k.decode()} -> ({flag}, {pol})'
        if ent is None:
            R.fail(f, f.node, key, f'{k.decode()} has no dispatch branch')
            continue
        ctor, args, node = ent
        ok = ctor == 'HasFlagSearchCriteria' and len(args) >= 2 and \
            args[0] == flag and args[1] == str(pol)
        R.check(ok, f, node, key,
                f'{k.decode()} builds {ctor}({", ".join(args[:2])}); RFC '
                f'3501: messages {"with" if pol else "without"} the '
                f'\\{flag} flag')
    for tab, cname in ((tables.SEARCH_DATE_OPS, None),
                       (tables.SEARCH_SIZE_OPS, 'SizeSearchCriteria')):
        for k, op in tab.items():
            ent = table.get(k)
            key = f'{k.decode()} -> "{op}"'
            if ent is None:
                R.fail(f, f.node, key, f'{k.decode()} has no dispatch branch')
                continue
            ctor, args, node = ent
            want_ctor = cname or ('HeaderDateSearchCriteria'
                                  if k.startswith(b'SENT')
                                  else 'DateSearchCriteria')
            ok = ctor == want_ctor and len(args) >= 2 and \
                args[1] == repr(op)
            R.check(ok, f, node, key,
                    f'{k.decode()} builds {ctor}({", ".join(args[:2])}); '
                    f'expected {want_ctor} with operator {op!r}')
    # operator strings -> comparisons in matches()
    cmpmap = {'<': ast.Lt, '=': ast.Eq, '>=': ast.GtE, '>': ast.Gt,
              '<=': ast.LtE}
    for cname in ('DateSearchCriteria', 'SizeSearchCriteria'):
        c = ctx.proj.cls(SEARCH, cname)
        m = c.own_method('matches')
        for t in walk_local(m.node):
            if isinstance(t, ast.If) and isinstance(t.test, ast.Compare) \
                    and txt(t.test.left) == 'self.op':
                ok_, op = const_value(t.test.comparators[0])
                rets = [s for s in t.body if isinstance(s, ast.Return)]
                good = False
                if ok_ and rets and isinstance(rets[0].value, ast.Compare):
                    cmpn = rets[0].value
                    stored = cmpn.comparators[0]
                    good = isinstance(cmpn.ops[0], cmpmap.get(op, ())) and \
                        txt(stored).startswith('self.') and \
                        not txt(cmpn.left).startswith('self.')
                R.check(good, m, t, f'{cname}.matches: "{op}" compares '
                        f'message {op} operand',
                        f'operator {op!r} is implemented as '
                        f'`{txt(rets[0].value) if rets else "?"}`')
    # HasFlag truth table: result == (has_flag == expected)
    hf = ctx.proj.cls(SEARCH, 'HasFlagSearchCriteria')
    m = hf.own_method('matches')
    rets = [r for r in walk_local(m.node) if isinstance(r, ast.Return)]
    def is_membership(v) -> bool:
        return isinstance(v, ast.Compare) and len(v.ops) == 1 and isinstance(
            v.ops[0], ast.In) and txt(v.left) == 'self.flag' \
            and 'get_flags' in txt(v.comparators[0])
    ok = False
    has_src = False
    if len(rets) == 1:
        e = rets[0].value
        hs, xs = set(), {'self.expected'}
        for x in ast.walk(e):
            if isinstance(x, ast.Name):
                for v in resolve_local(m, x):
                    if is_membership(v):
                        hs.add(x.id)
                    if txt(v) == 'self.expected':
                        xs.add(x.id)
            if is_membership(x):
                hs.add(txt(x))
        has_src = bool(hs)
        try:
            ok = has_src and all(
                bool(eval_static(e, {**{k: h for k in hs},
                                     **{k: x for k in xs}})) == (h == x)
                for h in (False, True) for x in (False, True))
        except ValueError:
            ok = False
    R.check(ok and has_src, m, m.node, 'HasFlagSearchCriteria.matches == '
            '(flag present == expected)',
            'the flag criteria does not return (flag in flags) == expected')
    nw = ctx.proj.cls(SEARCH, 'NewSearchCriteria')
    m = nw.own_method('matches')
    rets = [r for r in walk_local(m.node) if isinstance(r, ast.Return)]
    atoms = guard_atoms(rets[0].value) if len(rets) == 1 else []
    ok = sorted(atoms) == sorted([('Recent in flags', True),
                                  ('Seen in flags', False)])
    R.check(ok, m, m.node, 'NEW = Recent and not Seen',
            f'NEW is implemented as `{txt(rets[0].value) if rets else "?"}`'
            f' (RFC 3501: RECENT UNSEEN)')


def r133(ctx) -> None:
    R = ctx.rule('R13.3', 'connectives: set=all, OR=or, NOT=not', 3)
    cs = ctx.proj.cls(SEARCH, 'SearchCriteriaSet')
    m = cs.own_method('matches')
    rets = [r for r in walk_local(m.node) if isinstance(r, ast.Return)]
    ok = False
    for r in rets:
        v = r.value
        if isinstance(v, ast.Call) and call_name(v) == 'all' and v.args and \
                isinstance(v.args[0], (ast.GeneratorExp, ast.ListComp)) and \
                'all_criteria' in txt(v.args[0].generators[0].iter) and \
                not v.args[0].generators[0].ifs and \
                call_name(v.args[0].elt) == 'matches':
            ok = True
    if not ok:
        # explicit loop idiom: for c in all_criteria: if not c.matches: return
        # False ... return True
        loops = [l for l in walk_local(m.node) if isinstance(l, ast.For)
                 and 'all_criteria' in txt(l.iter)]
        for l in loops:
            inner = [s for s in l.body if isinstance(s, ast.If)
                     and guard_atoms(s.test) and not guard_atoms(s.test)[0][1]
                     and 'matches' in guard_atoms(s.test)[0][0]
                     and any(isinstance(b, ast.Return)
                             and const_value(b.value) == (True, False)
                             for b in s.body)]
            tail = [r for r in rets if const_value(r.value) == (True, True)]
            if inner and tail:
                ok = True
    R.check(ok, m, m.node, 'SearchCriteriaSet.matches = all(criteria)',
            'several search keys are not combined as a conjunction over '
            'all criteria')
    oc = ctx.proj.cls(SEARCH, 'OrSearchCriteria')
    m = oc.own_method('matches')
    # truth table over the two operand calls
    opcalls = sorted({txt(c) for c in calls_in(m.node, 'matches')
                      if txt(c.func.value) in ('self.left', 'self.right')})
    tt = truth_table(m.node, opcalls) if len(opcalls) == 2 else None
    ok = tt is not None and all(tt[v] == (v[0] or v[1]) for v in tt)
    R.check(ok, m, m.node, 'OrSearchCriteria.matches = left or right',
            'OR is not the disjunction of its two operands')
    ic = ctx.proj.cls(SEARCH, 'InverseSearchCriteria')
    m = ic.own_method('matches')
    rets = [r for r in walk_local(m.node) if isinstance(r, ast.Return)]
    ok = len(rets) == 1 and isinstance(rets[0].value, ast.UnaryOp) and \
        isinstance(rets[0].value.op, ast.Not) and \
        call_name(rets[0].value.operand) == 'matches'
    R.check(ok, m, m.node, 'InverseSearchCriteria.matches = not key',
            'NOT is not the complement of its operand')
    # OR builds both operands from its two keys; NOT from not_inverse
    init = oc.own_method('__init__')
    p = init.params()
    ok = {txt(s.value.args[0]) for s in walk_local(init.node)
          if isinstance(s, ast.Assign) and isinstance(s.value, ast.Call)
          and call_name(s.value) == 'of'} == {p[1], p[2]}
    R.check(ok, init, init.node, 'OR operands come from its two keys',
            'OrSearchCriteria does not build left and right from its two '
            'keys')


def r134(ctx, table) -> None:
    R = ctx.rule('R13.4', 'requirement covers what matches() reads', 8)
    sk = ctx.proj.cls(SKEY, 'SearchKey')
    req = sk.own_method('requirement')
    if req is None:
        raise AnchorError('SearchKey.requirement vanished')
    classified: dict[bytes, str] = {}
    for t in walk_local(req.node):
        if isinstance(t, ast.If):
            ks = _key_consts(t.test, 'key_name') or \
                _key_consts(t.test, 'self.key')
            rets = [s for s in t.body if isinstance(s, ast.Return)]
            if ks and rets:
                for k in ks:
                    classified[k] = txt(rets[-1].value)
    by_class: dict[str, list[bytes]] = {}
    for k, ent in table.items():
        if ent is not None:
            by_class.setdefault(ent[0], []).append(k)
    for cname, keys in sorted(by_class.items()):
        c = ctx.proj.module(SEARCH).classes.get(cname)
        if c is None:
            continue
        reads = set()
        for k_ in c.mro():
            for mn in ('matches', '_get_msg_date'):
                m = k_.own_method(mn) if k_ in c.mro() else None
                if m is not None and (k_ is c or mn == 'matches'
                                      or c.own_method(mn) is None):
                    pass
        # methods effectively used by c: resolve through the MRO
        for mn in ('matches', '_get_msg_date'):
            m = c.find_method(mn)
            if m is not None:
                for x in calls_in(m.node):
                    if call_name(x) in LOADED_READS and \
                            isinstance(x.func, ast.Attribute) and \
                            is_name(x.func.value, 'loaded_msg'):
                        reads.add(call_name(x))
        if not reads:
            continue
        for k in sorted(keys):
            cl = classified.get(k, 'FetchRequirement.METADATA')
            R.check(cl.endswith(('.HEADER', '.CONTENT', '.BODY')),
                    req, req.node,
                    f'{k.decode()} ({cname} reads {sorted(reads)}) is '
                    f'classified HEADER/CONTENT',
                    f'{k.decode()} is classified {cl} but {cname}.matches '
                    f'reads {sorted(reads)}: backends that load content on '
                    f'demand (maildir) evaluate it against an empty '
                    f'message and the key never matches')


def r135(ctx) -> None:
    R = ctx.rule('R13.5', 'prefilter is one of the conjuncts', 1)
    cs = ctx.proj.cls(SEARCH, 'SearchCriteriaSet')
    p = cs.own_method('sequence_set')
    if p is None:
        raise AnchorError('SearchCriteriaSet.sequence_set vanished')
    rets = [r for r in walk_local(p.node) if isinstance(r, ast.Return)]
    ok = bool(rets)
    for r in rets:
        v = r.value
        if isinstance(v, ast.Call) and txt(v.func) == 'SequenceSet.all' and \
                not v.args and not v.keywords:
            continue
        good = False
        if isinstance(v, ast.Attribute) and v.attr == 'seq_set' and \
                isinstance(v.value, ast.Name):
            for _, src in local_assigns(p, v.value.id):
                if src is not None and 'self.all_criteria' in txt(src) and \
                        'SequenceSetSearchCriteria' in txt(src):
                    good = True
            # loop idiom: for c in self.all_criteria: if isinstance(c, S):
            # return c.seq_set
            for l in enclosing(p.node, r, (ast.For,)):
                if txt(l.target) == v.value.id and \
                        txt(l.iter) == 'self.all_criteria' and any(
                            isinstance(t, ast.If) and
                            f'isinstance({v.value.id}, '
                            f'SequenceSetSearchCriteria)' in txt(t.test)
                            for t in enclosing(p.node, r, (ast.If,))):
                    good = True
        ok = ok and good
    R.check(ok, p, p.node, 'sequence_set comes from self.all_criteria or is '
            'ALL', 'the pre-filter sequence set handed to the backend is '
            'not one of the conjuncts of the search program (or ALL): '
            'matching messages outside it are never evaluated')


def r136(ctx) -> None:
    R = ctx.rule('R13.6', 'UID SEARCH reports UIDs, SEARCH sequence numbers',
                 2)
    cs = ctx.proj.cls(STATE, 'ConnectionState')
    f = cs.own_method('do_search')
    if f is None:
        raise AnchorError('do_search vanished')
    cfg = cfg_of(f)
    loops = [l for l in walk_local(f.node) if isinstance(l, ast.For)
             and isinstance(l.target, ast.Tuple) and len(l.target.elts) == 2]
    if not loops:
        raise AnchorError('do_search: result loop not found')
    seqv, msgv = [txt(e) for e in loops[0].target.elts]
    apps = cfg.find(lambda n: any(call_name(c) == 'append'
                                  for c in n.calls()))
    seen = {'uid': False, 'seq': False}
    for a in apps:
        c = next(x for x in a.calls() if call_name(x) == 'append')
        arg = txt(c.args[0]) if c.args else ''
        raw = []
        if c.args:
            raw = [c.args[0]]
            if isinstance(c.args[0], ast.Name):
                raw += [v for _, v in local_assigns(f, c.args[0].id)
                        if v is not None]
        for v in raw:
            if isinstance(v, ast.IfExp):
                at = guard_atoms(v.test)
                if at == [('cmd.uid', True)] and txt(v.body) == \
                        f'{msgv}.uid' and txt(v.orelse) == seqv:
                    seen['uid'] = seen['seq'] = True
                    R.ok(f, a.stmt, 'do_search: UID SEARCH appends msg.uid',
                         'conditional expression')
                    R.ok(f, a.stmt, 'do_search: SEARCH appends the sequence '
                         'number', 'conditional expression')
        br = None
        for t in cfg.nodes:
            if t.kind == 'test' and guard_atoms(t.stmt.test) in (
                    [('cmd.uid', True)], [('cmd.uid', False)]):
                pol = guard_atoms(t.stmt.test)[0][1]
                if cfg.controlled_by(a, t, 't'):
                    br = 'uid' if pol else 'seq'
                elif cfg.controlled_by(a, t, 'f'):
                    br = 'seq' if pol else 'uid'
        if br == 'uid':
            R.check(arg == f'{msgv}.uid', f, a.stmt,
                    'do_search: UID SEARCH appends msg.uid',
                    f'under cmd.uid the result is {arg}')
            seen['uid'] = True
        elif br == 'seq':
            R.check(arg == seqv, f, a.stmt,
                    'do_search: SEARCH appends the sequence number',
                    f'without cmd.uid the result is {arg}')
            seen['seq'] = True
    if not (seen['uid'] and seen['seq']):
        R.fail(f, f.node, 'do_search: both reporting modes present',
               'do_search does not distinguish UID SEARCH from SEARCH when '
               'reporting results')


def r137(ctx) -> None:
    R = ctx.rule('R13.7', 'sequence-set keys and compound requirements', 4)
    c = ctx.proj.cls(SEARCH, 'SequenceSetSearchCriteria')
    f = c.own_method('__init__')
    cfg = cfg_of(f)
    good = {'uid': False, 'seq': False}
    bad = []
    for n in cfg.stmt_nodes():
        for x in n.calls():
            if call_name(x) != 'flatten' or not x.args:
                continue
            arg = txt(x.args[0])
            br = None
            for t in cfg.nodes:
                if t.kind == 'test':
                    for a, pol in guard_atoms(t.stmt.test):
                        if a.endswith('.uid'):
                            if cfg.controlled_by(n, t, 't'):
                                br = 'uid' if pol else 'seq'
                            elif cfg.controlled_by(n, t, 'f'):
                                br = 'seq' if pol else 'uid'
            if br == 'uid' and arg.endswith('max_uid'):
                good['uid'] = True
            elif br == 'seq' and arg.endswith('max_seq'):
                good['seq'] = True
            else:
                bad.append(f'{br or "unconditional"}: flatten({arg})')
    R.check(all(good.values()) and not bad, f, f.node,
            'SequenceSetSearchCriteria: * = max_uid for UID sets, max_seq '
            'for sequence sets',
            f'{bad or "flatten calls not found under a .uid test"}: in a '
            f'plain sequence set "*" expands to the highest UID instead of '
            f'EXISTS, so SEARCH * / n:* disagree with the pre-filter')
    sp = ctx.proj.cls(SEARCH, 'SearchParams').own_method('__init__')
    src = {}
    for s_ in walk_local(sp.node):
        for t in targets_of(s_):
            if isinstance(t, ast.Attribute) and t.attr in ('max_seq',
                                                           'max_uid'):
                src[t.attr] = txt(getattr(s_, 'value', None))
    R.check(src.get('max_seq', '').endswith('messages.exists') and
            src.get('max_uid', '').endswith('messages.max_uid'), sp, sp.node,
            'SearchParams: max_seq = exists, max_uid = max_uid of the view',
            f'SearchParams takes its bounds from {src}')
    # compound keys need the UNION of their parts' requirements
    sk = ctx.proj.cls(SKEY, 'SearchKey')
    req = sk.own_method('requirement')
    for t in walk_local(req.node):
        if not isinstance(t, ast.If):
            continue
        ks = _key_consts(t.test, 'key_name') or _key_consts(t.test,
                                                            'self.key')
        for k in ks:
            if k not in (b'OR', b'KEYSET'):
                continue
            rets = [s_ for s_ in t.body if isinstance(s_, ast.Return)]
            ok = False
            why = 'no return'
            for r in rets:
                for v in resolve_local(req, r.value):
                    if isinstance(v, ast.Call) and call_name(v) == 'reduce':
                        ok = True
                        if k == b'OR' and v.args:
                            inner = ' '.join(txt(x) for x in
                                             resolve_local(req, v.args[0]))
                            parts = [p for p in ('left', 'right')
                                     if p + '.requirement' in inner]
                            ok = len(parts) == 2
                            why = f'reduce over {inner}'
                    elif isinstance(v, ast.BinOp) and \
                            isinstance(v.op, ast.BitOr):
                        ok = True
                    else:
                        why = f'returns `{txt(v)}`'
            R.check(ok, req, t, f'requirement of {k.decode()} is the union '
                    f'of its parts',
                    f'{why}: not the flag union of the sub-keys\' '
                    f'requirements — with a metadata-only left operand the '
                    f'right operand is evaluated against content that was '
                    f'never loaded (maildir: OR SEEN BODY x misses)')


def r138(ctx) -> None:
    R = ctx.rule('R13.8', 'a search key and its negation are different keys',
                 2)
    sk = ctx.proj.cls('pymap/parsing/specials/searchkey.py', 'SearchKey')
    init = sk.own_method('__init__')
    if init is None:
        raise AnchorError('SearchKey.__init__ vanished')
    fields = {t.attr for s_ in walk_local(init.node)
              if isinstance(s_, (ast.Assign, ast.AnnAssign))
              for t in targets_of(s_)
              if isinstance(t, ast.Attribute) and is_name(t.value, 'self')
              and not t.attr.startswith('_')}
    props = {}
    for nm, fs in sk.methods.items():
        for g in fs:
            rs = [r for r in walk_local(g.node) if isinstance(r, ast.Return)]
            if len(rs) == 1 and isinstance(rs[0].value, ast.Attribute) and \
                    is_name(rs[0].value.value, 'self'):
                props[nm] = rs[0].value.attr      # value -> key

    def reads(g) -> set[str]:
        out = set()
        for x in walk_local(g.node):
            if isinstance(x, ast.Attribute) and isinstance(x.value, ast.Name) \
                    and x.value.id in ('self', 'other'):
                out.add(props.get(x.attr, x.attr))
        return out
    h = sk.own_method('__hash__')
    if h is None:
        raise AnchorError('SearchKey.__hash__ vanished')
    hr = reads(h)
    R.check(fields <= hr, h, h.node,
            f'SearchKey.__hash__ covers {sorted(fields)}',
            f'__hash__ ignores {sorted(fields - hr)}: SearchCommand keeps '
            f'the top-level keys in a frozenset, so `SEEN NOT SEEN` '
            f'collapses into one key (returns messages instead of nothing) '
            f'while `(SEEN NOT SEEN)` — a list — stays right')
    for nm in ('__eq__', '__ne__'):
        g = sk.own_method(nm)
        if g is None:
            continue
        via_hash = any(call_name(c) == 'hash' for c in calls_in(g.node)) or \
            any(call_name(c) in ('__eq__', '__hash__')
                for c in calls_in(g.node))
        R.check(via_hash or fields <= reads(g), g, g.node,
                f'SearchKey.{nm} covers {sorted(fields)}',
                f'{nm} ignores {sorted(fields - reads(g))}: X and NOT X '
                f'compare equal')


def r139(ctx) -> None:
    """BODY / TEXT are existential over the MIME parts: the scan may stop
    early only on a positive witness."""
    R = ctx.rule('R13.9', 'the BODY/TEXT scan over the MIME parts stops '
                 'early only on a match', 1)
    blm = ctx.proj.cls('pymap/message.py', 'BaseLoadedMessage')
    f = blm.own_method('contains')
    if f is None:
        raise AnchorError('BaseLoadedMessage.contains vanished')
    loops = [l for l in walk_local(f.node) if isinstance(l, ast.For)
             and any(call_name(c) == 'walk' for c in calls_in(l.iter))]
    key = 'contains(): every part is looked at until one matches'
    if not loops:
        quant = [c for c in calls_in(f.node, 'any') if c.args and isinstance(
            c.args[0], ast.GeneratorExp) and any(
                call_name(x) == 'walk'
                for g in c.args[0].generators for x in calls_in(g.iter))]
        if quant:
            R.ok(f, quant[0], key, 'any() over content.walk()')
        else:
            R.undecided(f, f.node, key, 'no loop / any() over '
                        'content.walk() found')
        return
    for l in loops:
        bad = []
        for st in l.body:
            for x in ast.walk(st):
                if isinstance(x, ast.Return) and \
                        const_value(x.value) != (True, True):
                    bad.append(x)
                if isinstance(x, ast.Break):
                    bad.append(x)
        if bad:
            R.fail(f, bad[0], key,
                   f'`{txt(bad[0])}` inside the loop over the MIME parts '
                   f'ends the scan on a part that did NOT match: a string '
                   f'that occurs only in a later part (the HTML half of a '
                   f'multipart/alternative, a second text attachment, a '
                   f'later part\'s header) is missed by BODY and TEXT, and '
                   f'NOT BODY x returns a message that contains x')
        else:
            R.ok(f, l, key, 'returns inside the loop are `return True` only')

"""C07 — every response is well-formed: R7.1-R7.8."""
from __future__ import annotations

import ast

from ..cfg import NORMAL, ALL, walk_local
from ..facts import (built_sequence, runs_only_when, cfg_of, call_name, calls_in, targets_of, guard_atoms,
                     is_attr, is_name, enclosing, local_assigns, kwarg,
                     const_value, strip_await, resolve_local, bind_args)
from ..loader import txt, AnchorError
from .. import regexfacts as rx

PRIM = 'pymap/parsing/primitives.py'
MODUTF7 = 'pymap/parsing/modutf7.py'
PARSING = 'pymap/parsing/__init__.py'
TAG = 'pymap/parsing/specials/tag.py'
ASTR = 'pymap/parsing/specials/astring.py'
RESP_DIRS = ('pymap/parsing/response/', 'pymap/sieve/manage/response.py',
             'pymap/parsing/primitives.py', 'pymap/fetch.py')

FORBIDDEN_QUOTED = {b'\r': 'CR', b'\n': 'LF', b'\x00': 'NUL'}
ECHO_FORBIDDEN = {13: 'CR', 10: 'LF', 32: 'SP', 0: 'NUL', 34: '"',
                  40: '(', 41: ')', 123: '{'}


def class_pattern(ctx, cls, name: str):
    a = cls.find_attr(name)
    if a is None or not isinstance(a[1], ast.Call) or not a[1].args:
        raise AnchorError(f'{cls.name}.{name} pattern vanished')
    ok, v = const_value(a[1].args[0])
    if not ok:
        raise AnchorError(f'{cls.name}.{name} is not a constant pattern')
    return v, a[1]


def check(ctx) -> None:
    ctx.explanation = (
        'Static decision of structural necessary conditions of C07: the '
        'guard that admits a value as a quoted string excludes CR, LF and '
        'NUL (cross-checked with what the quoted-string reader rejects); '
        'serialisation escapes exactly quote and backslash; every direct '
        'QuotedString construction takes a constant, modified-UTF-7 output '
        'or an audited provisioning value; modified-UTF-7 output bytes lie '
        'in 0x20-0x7e; every response writer ends every path with CRLF; the '
        'patterns that admit echoed tags and command words exclude CR, LF, '
        'SP, NUL, quote, parentheses and brace; bracket constants are '
        'balanced; a literal\'s announced length is len() of the very '
        'object it writes.')
    ctx.not_decided = ('that whole byte streams parse under the response '
                       'grammar; 8-bit bytes in quoted strings; header '
                       'values produced by stdlib email.')
    r71(ctx)
    r72(ctx)
    r73(ctx)
    r74(ctx)
    r75(ctx)
    r76(ctx)
    r77(ctx)
    r78(ctx)
    r79(ctx)
    r710(ctx)
    r711(ctx)
    r712(ctx)
    r713(ctx)
    r714(ctx)
    r715(ctx)
    r716(ctx)


def r71(ctx) -> None:
    R = ctx.rule('R7.1', 'quoted-string admission excludes CR, LF, NUL', 3,
                 'RFC 3501 section 9: QUOTED-CHAR excludes CR, LF; TEXT-CHAR '
                 'excludes NUL')
    st = ctx.proj.cls(PRIM, 'String')
    f = st.own_method('build')
    if f is None:
        raise AnchorError('String.build vanished')
    cfg = cfg_of(f)
    n_sites = 0
    for n in cfg.find(lambda n: isinstance(n.stmt, ast.Return)):
        v = n.stmt.value
        if not (isinstance(v, ast.Call) and call_name(v) == 'QuotedString'
                and v.args):
            continue
        arg = v.args[0]
        if const_value(arg)[0]:
            continue
        n_sites += 1
        var = txt(arg)
        excluded = set()
        for k in FORBIDDEN_QUOTED:
            # on the true edge of a conjunction or the false edge of a
            # disjunction alike
            if runs_only_when(cfg, n, f'{k!r} in {var}', False):
                excluded.add(k)
        for t in cfg.nodes:
            if t.kind != 'test':
                continue
            for edge, atoms in (('t', guard_atoms(t.stmt.test)),
                                ('f', guard_atoms(ast.UnaryOp(
                                    ast.Not(), t.stmt.test)))):
                if not cfg.controlled_by(n, t, edge):
                    continue
                for a, pol in atoms:
                    # regex idiom: not pattern.search(var)
                    if pol is False and a.endswith(f'.search({var})'):
                        pn = a.split('.')[-2] if '.' in a else ''
                        try:
                            pat, _ = class_pattern(ctx, st, pn)
                            cs = rx.consumable(pat)
                            for k in FORBIDDEN_QUOTED:
                                if k[0] in cs:
                                    excluded.add(k)
                        except AnchorError:
                            pass
        for k, nm in FORBIDDEN_QUOTED.items():
            R.check(k in excluded, f, n.stmt,
                    f'String.build: quoted form excludes {nm}',
                    f'a value containing {nm} is emitted as a quoted string '
                    f'(the guard before `return QuotedString({var})` does '
                    f'not test {k!r}): e.g. a header with a bare CR yields '
                    f'* n FETCH (ENVELOPE (NIL "a\\rb" …, which no client '
                    f'can parse')
    if n_sites == 0:
        raise AnchorError('String.build: non-constant QuotedString return '
                          'not found')
    # cross-check with the reader
    qs = ctx.proj.cls(PRIM, 'QuotedString')
    pat, _ = class_pattern(ctx, qs, '_quoted_pattern')
    alts = set(rx.literal_alternatives(pat))
    pf = qs.own_method('parse')
    rejects = set()
    for t in walk_local(pf.node):
        if isinstance(t, ast.If) and any(isinstance(b, ast.Raise)
                                         for b in t.body):
            for k in FORBIDDEN_QUOTED:
                if repr(k) in txt(t.test):
                    rejects.add(k)
    R.check({b'\r', b'\n'} <= alts and {b'\r', b'\n'} <= rejects, pf,
            pf.node, 'QuotedString.parse rejects CR and LF',
            'the quoted-string reader does not reject CR/LF, so writer and '
            'reader disagree on the grammar')


def r72(ctx) -> None:
    R = ctx.rule('R7.2', 'escape set is exactly quote and backslash', 3)
    qs = ctx.proj.cls(PRIM, 'QuotedString')
    pat, node = class_pattern(ctx, qs, '_quoted_specials_pattern')
    sets = rx.first_sets(pat)
    ok = len(sets) == 1 and sets[0] == frozenset({34, 92}) and \
        rx.min_width(pat) == 1
    R.check(ok, qs.own_method('__bytes__'), node,
            '_quoted_specials_pattern matches exactly {", \\}',
            f'the escape pattern {pat!r} does not match exactly one quote '
            f'or backslash: an unescaped quote/backslash (or a spurious '
            f'escape) is written inside a quoted string')
    esc = qs.own_method('_escape_quoted_specials')
    rets = [r for r in walk_local(esc.node) if isinstance(r, ast.Return)]
    ok = len(rets) == 1 and isinstance(rets[0].value, ast.BinOp) and \
        const_value(rets[0].value.left) == (True, b'\\') and \
        'group(0)' in txt(rets[0].value.right)
    R.check(ok, esc, esc.node, 'escape = backslash + the matched byte',
            'the replacement is not a backslash followed by the matched '
            'special')
    by = qs.own_method('__bytes__')
    ok = any(call_name(c) == 'sub' and len(c.args) == 2
             and '_escape_quoted_specials' in txt(c.args[0])
             and txt(c.args[1]) in ('self.value', 'self._string')
             for c in calls_in(by.node)) and any(
        const_value(x)[1] == b'"%b"' for x in walk_local(by.node)
        if isinstance(x, ast.Constant))
    # idiom: two chained replace calls
    if not ok:
        reps = [c for c in calls_in(by.node, 'replace')]
        ok = len(reps) >= 2 and {const_value(c.args[0])[1] for c in reps} \
            == {b'\\', b'"'}
    R.check(ok, by, by.node, '__bytes__ escapes the value and wraps it in '
            'quotes', 'QuotedString.__bytes__ does not apply the escape to '
            'its value inside "…"')


AUDITED = {
    # sieve capability names/values are provisioning data, not client-chosen
    # (IMPLEMENTATION, SASL mechanism names, SIEVE extensions, LANGUAGE,
    # OWNER = name of an existing account, VERSION)
    ('pymap/sieve/manage/response.py', 'CapabilitiesResponse.write'),
}


def r73(ctx) -> None:
    R = ctx.rule('R7.3', 'direct QuotedString / AString constructions', 4)
    # AString.__bytes__: when the value is not an astring atom, does it fall
    # back to String.build (quoted-or-literal, R7.1) or to a bare QuotedString?
    asb = ctx.proj.cls('pymap/parsing/specials/astring.py',
                       'AString').own_method('__bytes__')
    astring_total = asb is not None and any(
        call_name(c) == 'build' and txt(c.func.value) == 'String'
        and c.args and txt(c.args[0]) == 'self.value'
        for c in calls_in(asb.node)) and not any(
        call_name(c) == 'QuotedString' for c in calls_in(asb.node))
    for f in ctx.proj.all_funcs('pymap/'):
        if 'QuotedString(' not in f.module.src and \
                'AString(' not in f.module.src:
            continue
        if f.rel.startswith(('pymap/admin/', 'pymap/backend/redis/')):
            continue
        for c in calls_in(f.node):
            nm = call_name(c)
            if nm not in ('QuotedString', 'AString') or \
                    not isinstance(c.func, ast.Name) or not c.args:
                continue
            if f.cls is not None and f.cls.name == 'String' and \
                    f.name == 'build':
                continue                   # R7.1
            if f.cls is not None and f.cls.name in ('QuotedString',
                                                    'AString') and \
                    f.name == 'parse':
                continue
            arg = c.args[0]
            key = f'{f.qualname}: {nm}({txt(arg)[:40]})'
            safe = None
            for v in resolve_local(f, arg):
                v2 = v
                while isinstance(v2, ast.Call) and call_name(v2) == 'bytes' \
                        and v2.args:
                    v2 = v2.args[0]
                if const_value(v2)[0]:
                    safe = 'constant'
                elif nm == 'AString' and astring_total:
                    safe = 'AString.__bytes__ serialises non-atoms through ' \
                           'String.build (R7.1)'
                elif isinstance(v2, ast.Call) and \
                        call_name(v2) == 'modutf7_encode':
                    safe = 'modified UTF-7 output (R7.4)'
                elif nm == 'QuotedString' and f.cls is not None and \
                        f.cls.name == 'AString' and txt(v2) == 'self.value':
                    safe = 'AString value: obligation is on AString(...) ' \
                           'constructions'
                elif (f.rel, f.qualname) in AUDITED:
                    safe = 'audited: provisioning data (triage table)'
                else:
                    safe = None
                    break
            R.check(safe is not None, f, c, key,
                    f'{nm} is constructed directly from {txt(arg)}, which is '
                    f'neither a constant, modified-UTF-7 output nor an '
                    f'audited provisioning value: CR/LF/NUL in it would be '
                    f'written inside a quoted string', safe or '')


def r74(ctx) -> None:
    R = ctx.rule('R7.4', 'modified UTF-7 output stays in 0x20-0x7e', 6)
    m = ctx.proj.module(MODUTF7)
    f = m.funcs.get('modutf7_encode')
    if f is None:
        raise AnchorError('modutf7_encode vanished')
    cfg = cfg_of(f)
    res = None
    for r in walk_local(f.node):
        if isinstance(r, ast.Return):
            v = r.value
            if isinstance(v, ast.Call) and v.args:
                res = txt(v.args[0])
    if res is None:
        raise AnchorError('modutf7_encode: result variable not found')
    for n in cfg.stmt_nodes():
        for c in n.calls():
            if call_name(c) not in ('append', 'extend') or \
                    not is_name(c.func.value, res) or not c.args:
                continue
            arg = c.args[0]
            elems = arg.elts if isinstance(arg, (ast.Tuple, ast.List)) \
                else [arg]
            for e in elems:
                key = f'modutf7_encode: {res}.{call_name(c)}({txt(e)})'
                cst, v = const_value(e)
                if cst:
                    vals = v if isinstance(v, bytes) else [v]
                    R.check(all(0x20 <= b <= 0x7e for b in vals), f, c, key,
                            f'constant {v!r} outside 0x20-0x7e')
                    continue
                srcs = resolve_local(f, e)
                if any(isinstance(s, ast.Call)
                       and call_name(s) == '_modified_b64encode'
                       for s in srcs):
                    R.ok(f, c, key, 'output of _modified_b64encode')
                    continue
                # guarded by 0x20 <= v <= 0x7e
                nm = txt(e)
                guarded = False
                for t in cfg.nodes:
                    if t.kind != 'test' or not cfg.controlled_by(n, t, 't'):
                        continue
                    tt = t.stmt.test
                    if isinstance(tt, ast.Compare) and len(tt.ops) == 2 and \
                            txt(tt.comparators[0]) == nm:
                        lo = const_value(tt.left)
                        hi = const_value(tt.comparators[1])
                        lo_ok = lo[0] and (
                            (isinstance(tt.ops[0], ast.LtE) and lo[1] >= 0x20)
                            or (isinstance(tt.ops[0], ast.Lt)
                                and lo[1] >= 0x1f))
                        hi_ok = hi[0] and (
                            (isinstance(tt.ops[1], ast.LtE) and hi[1] <= 0x7e)
                            or (isinstance(tt.ops[1], ast.Lt)
                                and hi[1] <= 0x7f))
                        if lo_ok and hi_ok:
                            guarded = True
                R.check(guarded, f, c, key,
                        f'`{nm}` is written to the encoded name without a '
                        f'0x20 <= {nm} <= 0x7e guard: control characters '
                        f'or 8-bit bytes reach LIST/STATUS output inside a '
                        f'quoted string')
    b64 = m.funcs.get('_modified_b64encode')
    if b64 is None:
        raise AnchorError('modutf7._modified_b64encode vanished')
    key = '_modified_b64encode yields base64 digits only (0x20-0x7e)'
    via7 = [c for c in calls_in(b64.node, 'encode') if c.args and str(
        const_value(c.args[0])[1]).lower().replace('_', '-') in ('utf-7',
                                                                 'utf7')]
    if via7:
        R.fail(b64, via7[0], key,
               f'`{txt(via7[0])}`: the utf-7 codec writes TAB, CR and LF '
               f'directly; the caller passes it every run outside '
               f'0x20-0x7e, so a mailbox named "x<CR><LF><TAB>y" is spelled '
               f'b"x&<LF>-y" — a raw LF inside the name that LIST/STATUS '
               f'write')
    else:
        rets = [r for r in walk_local(b64.node) if isinstance(r, ast.Return)]
        ok = bool(rets)
        for r in rets:
            good = False
            for v in resolve_local(b64, r.value):
                # peel constant-argument bytes methods
                while isinstance(v, ast.Call) and isinstance(
                        v.func, ast.Attribute) and v.func.attr in (
                            'replace', 'strip', 'rstrip', 'lstrip') and all(
                            const_value(a)[0] for a in v.args):
                    nxt = resolve_local(b64, v.func.value)
                    v = nxt[0] if len(nxt) == 1 else v.func.value
                if isinstance(v, ast.Call) and call_name(v) in (
                        'b2a_base64', 'b64encode', 'standard_b64encode'):
                    good = call_name(v) != 'b2a_base64' or const_value(
                        kwarg(v, 'newline')) == (True, False)
            ok = ok and good
        R.check(ok, b64, b64.node, key,
                'a returned value is not the output of a base64 encoder '
                '(without its trailing newline) passed through constant '
                'replace/strip calls only', 'base64 encoder output')


def _response_classes(ctx):
    out = []
    for rel, base in (('pymap/parsing/response/__init__.py', 'Response'),
                      ('pymap/sieve/manage/response.py', 'Response')):
        b = ctx.proj.cls(rel, base)
        out.append(b)
        for c in ctx.proj.subclasses(b, 'pymap/'):
            if c.rel.startswith(('pymap/admin/',)):
                continue
            out.append(c)
    return out


def r75(ctx) -> None:
    R = ctx.rule('R7.5', 'every response writer ends with CRLF', 6)
    for c in _response_classes(ctx):
        for mname in ('write', 'async_write'):
            f = c.own_method(mname)
            if f is None:
                continue
            cfg = cfg_of(f)
            # terminal events: a write of a constant ending in CRLF, a call
            # of super().write / self.write (which itself terminates)
            def terminal(n):
                for cc in n.calls():
                    if call_name(cc) in ('write', 'async_write') and \
                            isinstance(cc.func, ast.Attribute):
                        recv = txt(cc.func.value)
                        if recv in ('super()', 'self') and \
                                call_name(cc) != f.name or recv == 'super()':
                            return True
                        if recv == 'self' and call_name(cc) == 'write':
                            return True
                        if cc.args:
                            a = cc.args[0]
                            consts = [x.value for x in ast.walk(a)
                                      if isinstance(x, ast.Constant)
                                      and isinstance(x.value, bytes)]
                            fmt = a.left if isinstance(a, ast.BinOp) else a
                            cst, v = const_value(fmt)
                            if cst and isinstance(v, bytes) and \
                                    v.endswith(b'\r\n'):
                                return True
                            for vv in resolve_local(f, a):
                                fm = vv.left if isinstance(vv, ast.BinOp) \
                                    else vv
                                c2, v2 = const_value(fm)
                                if c2 and isinstance(v2, bytes) and \
                                        v2.endswith(b'\r\n'):
                                    return True
                return False
            terms = cfg.find(terminal)
            # last write on every normal path must be a terminal one: no
            # non-terminal write reachable after the last terminal, and every
            # path to exit passes a terminal
            ok = bool(terms) and cfg.exit not in cfg.reach(
                [cfg.entry], avoid=terms, labels=NORMAL,
                first_labels=NORMAL)
            after = set()
            for t in terms:
                after |= cfg.reach([t], labels=NORMAL)
            trailing = [n.lineno for n in after if n not in terms and any(
                call_name(cc) == 'write' and isinstance(cc.func, ast.Attribute)
                and txt(cc.func.value) == 'writer' for cc in n.calls())
                and not (cfg.reach([n], labels=NORMAL) & set(terms))]
            R.check(ok and not trailing, f, f.node,
                    f'{c.name}.{mname} ends every path with CRLF',
                    f'{c.name}.{mname} has a normal path that ' + (
                        f'writes at line(s) {trailing} after the '
                        f'terminating CRLF' if trailing else
                        'returns without writing a line terminator') +
                    ': the response runs into the next one')


def r76(ctx) -> None:
    R = ctx.rule('R7.6', 'echoed tags and command words cannot break a line',
                 3)
    sites = [(TAG, 'Tag', '_pattern'), (PARSING, 'Parseable',
                                        '_atom_pattern'),
             (ASTR, 'AString', '_pattern')]
    for rel, cn, pn in sites:
        c = ctx.proj.cls(rel, cn)
        pat, node = class_pattern(ctx, c, pn)
        cs = rx.consumable(pat)
        bad = sorted(nm for b, nm in ECHO_FORBIDDEN.items() if b in cs)
        from ..report import Site
        R.check(not bad, Site(rel, node.lineno, cn), None,
                f'{cn}.{pn} admits none of CR LF SP NUL " ( ) {{',
                f'{cn}.{pn} admits {bad}: a tag or command word echoed in a '
                f'BAD/NO line could terminate the line or open a '
                f'string/list/literal')


    # what AString writes BARE is exactly ASTRING-CHAR (RFC 3501 section 9):
    # ATOM-CHAR plus "]" — no atom-specials "(" ")" "{" SP CTL "%" "*"
    # DQUOTE "\\", nothing above 0x7e
    c = ctx.proj.cls(ASTR, 'AString')
    pat, node = class_pattern(ctx, c, '_pattern')
    cs = rx.consumable(pat)
    specials = set(range(0, 0x21)) | {0x7f} | set(b'(){%*"\\') | set(
        range(0x80, 0x100))
    bad = sorted(cs & specials)
    from ..report import Site
    R.check(not bad, Site(ASTR, node.lineno, 'AString'), None,
            'AString._pattern is within ASTRING-CHAR',
            f'AString._pattern admits {[hex(b) for b in bad]}: the same '
            f'pattern decides in AString.__bytes__ whether a value is '
            f'written bare, so a client-chosen mailbox or header name with '
            f'that octet and nothing else that forces quoting is echoed as '
            f'an atom — `* LIST (\\HasNoChildren) "/" Archive\\2020`, '
            f'`BODY[HEADER.FIELDS (X\\SPAM)]` — which is not an astring')


def _balanced(b: bytes) -> bool:
    depth = {'(': 0, '[': 0}
    pairs = {ord(')'): '(', ord(']'): '['}
    for ch in b:
        if chr(ch) in depth:
            depth[chr(ch)] += 1
        elif ch in pairs:
            depth[pairs[ch]] -= 1
            if depth[pairs[ch]] < 0:
                return False
    return all(v == 0 for v in depth.values())


def r77(ctx) -> None:
    R = ctx.rule('R7.7', 'balanced delimiters', 10)
    n = 0
    for rel, m in ctx.proj.modules.items():
        if not rel.startswith(RESP_DIRS):
            continue
        ctx.proj.consulted.add(rel)
        for f in m.funcs.values():
            opens = closes = None
            for x in walk_local(f.node):
                if isinstance(x, ast.Constant) and \
                        isinstance(x.value, bytes) and \
                        any(ch in x.value for ch in b'()[]') and \
                        (b'%' in x.value or len(x.value) > 1):
                    if f.cls is not None and 'parse' in f.name:
                        continue
                    if not _is_output_const(f, x):
                        continue
                    n += 1
                    R.check(_balanced(x.value), f, x,
                            f'{f.qualname}: constant {x.value!r} is balanced',
                            f'output constant {x.value!r} has unbalanced '
                            f'parentheses/brackets')
            # functions writing single-byte brackets: balanced on all paths
            cfg = None
            singles = [c for c in calls_in(f.node, 'write')
                       if c.args and const_value(c.args[0])[0]
                       and const_value(c.args[0])[1] in (b'(', b')', b'[',
                                                         b']')]
            if singles:
                cfg = cfg_of(f)
                for o, cl in ((b'(', b')'), (b'[', b']')):
                    on = cfg.find(lambda nd: any(
                        cc in singles and const_value(cc.args[0])[1] == o
                        for cc in nd.calls()))
                    cn = cfg.find(lambda nd: any(
                        cc in singles and const_value(cc.args[0])[1] == cl
                        for cc in nd.calls()))
                    if not on and not cn:
                        continue
                    n += 1
                    ok = bool(on) and bool(cn) and all(
                        cfg.always_followed_by(a, cn, labels=NORMAL)
                        for a in on) and all(
                        cfg.dominated_by(b, on, labels=NORMAL) for b in cn)
                    R.check(ok, f, f.node,
                            f'{f.qualname}: every {o!r} is closed by {cl!r} '
                            f'on all paths',
                            f'{f.qualname} writes {o!r} and can return '
                            f'without writing {cl!r} (or the reverse): '
                            f'unbalanced list in the response')
    if n == 0:
        raise AnchorError('no bracket constants found in response modules')


def _is_output_const(f, x) -> bool:
    """Heuristic kept deliberately narrow: format constants (contain %b/%i/%d
    /%s) or constants passed to write()."""
    v = x.value
    return b'%' in v


def r78(ctx) -> None:
    R = ctx.rule('R7.8', 'literal length = len of what is written', 3)
    ls = ctx.proj.cls(PRIM, 'LiteralString')
    init = ls.own_method('__init__')
    w = ls.own_method('write')
    pre = ls.own_method('_prefix')
    st = [s for s in walk_local(init.node) if isinstance(s, ast.Assign)
          and any(is_attr(t, '_length', 'self') for t in s.targets)]
    p = init.params()[1]
    stored = [s for s in walk_local(init.node) if isinstance(s, ast.Assign)
              and any(is_attr(t, '_string', 'self') for t in s.targets)]
    ok = bool(st) and all(txt(s.value) == f'len({p})' for s in st) and \
        bool(stored) and all(txt(s.value) == p for s in stored)
    R.check(ok, init, init.node, 'LiteralString._length = len(the stored '
            'payload object)',
            'the announced literal length is not len() of the very object '
            'stored for writing (e.g. len(bytes(x)) of a Writeable whose '
            'write() emits something else)')
    written = [txt(c.func.value) if call_name(c) == 'write'
               and txt(c.func.value) != 'writer' else
               (txt(c.args[0]) if c.args else '')
               for c in calls_in(w.node, 'write')]
    ok = 'self._prefix' in written and 'self._string' in written and \
        all(x in ('self._prefix', 'self._string') for x in written)
    R.check(ok, w, w.node, 'LiteralString.write emits prefix then exactly '
            'the stored payload',
            f'LiteralString.write emits {written}: the bytes that follow '
            f'the {{n}} prefix are not exactly the stored payload')
    ok = any('self.length' in txt(x) or 'self._length' in txt(x)
             for x in walk_local(pre.node) if isinstance(x, ast.BinOp))
    R.check(ok, pre, pre.node, 'literal prefix announces self.length',
            'the {n} prefix is not built from the stored length')


def r79(ctx) -> None:
    R = ctx.rule('R7.9', 'client-chosen FETCH section parts are echoed in '
                 'wire-safe form', 2)
    fa = ctx.proj.cls('pymap/parsing/specials/fetchattr.py', 'FetchAttribute')
    ps = fa.own_method('_parse_section')
    raw = fa.own_method('raw')
    if ps is None or raw is None:
        raise AnchorError('FetchAttribute._parse_section/raw vanished')
    # what raw writes for headers
    echoes_verbatim = any('headers' in txt(x) for x in walk_local(raw.node)
                          if isinstance(x, ast.Attribute))
    requotes = any(call_name(c) in ('AString', 'QuotedString', 'build')
                   for c in calls_in(raw.node))
    # what the parser stores as the header set
    stored = []
    for c in calls_in(ps.node, 'Section'):
        if len(c.args) >= 3:
            stored += resolve_local(ps, c.args[2])
    n = 0
    for v in stored:
        for comp in [x for x in ast.walk(v)
                     if isinstance(x, (ast.ListComp, ast.GeneratorExp,
                                       ast.SetComp))]:
            n += 1
            elt = comp.elt
            safe = isinstance(elt, ast.Call) and call_name(elt) == 'bytes' \
                and len(elt.args) == 1
            R.check(safe or requotes or not echoes_verbatim, ps, comp,
                    '_parse_section stores header names as bytes(<parsed '
                    'AString>)',
                    f'header names of HEADER.FIELDS are stored as '
                    f'`{txt(elt)}` (the decoded value) and '
                    f'FetchAttribute.raw writes them back verbatim: a name '
                    f'sent as a quoted string or literal with ( ) ] " SP CR '
                    f'LF is echoed unquoted, e.g. BODY[HEADER.FIELDS '
                    f'(X-A(B)]')
    if n == 0:
        R.undecided(ps, ps.node, '_parse_section stores header names as '
                    'bytes(<parsed AString>)', 'header-set construction '
                    'not recognised')
    R.ok(raw, raw.node, 'FetchAttribute.raw echo analysed',
         f'verbatim echo of stored headers: {echoes_verbatim}; re-quotes: '
         f'{requotes}')


def r710(ctx) -> None:
    R = ctx.rule('R7.10', 'lazily rendered FETCH values are only written '
                 'with their content provider set', 1)
    ma = ctx.proj.cls('pymap/fetch.py', 'MessageAttributes')
    f = ma.own_method('load_hook')
    if f is None:
        raise AnchorError('MessageAttributes.load_hook vanished')
    from ..facts import enclosing
    ys = [y for y in walk_local(f.node) if isinstance(y, (ast.Yield,
                                                          ast.YieldFrom))]
    if not ys:
        raise AnchorError('load_hook does not yield')
    loaded = {t.id for s_ in walk_local(f.node) if isinstance(s_, ast.Assign)
              and isinstance(strip_await(s_.value), ast.Call)
              and call_name(strip_await(s_.value)) == 'load_content'
              for t in s_.targets if isinstance(t, ast.Name)}
    for y in ys:
        inside = False
        for cur in enclosing(f.node, y, (ast.With, ast.AsyncWith)):
            if True:
                for it in cur.items:
                    c = it.context_expr
                    if isinstance(c, ast.Call) and call_name(c) == 'apply' \
                            and '_get_loaded' in txt(c.func.value) and c.args \
                            and isinstance(c.args[0], ast.Name) and \
                            c.args[0].id in loaded:
                        inside = True
        R.check(inside, f, y, 'load_hook yields inside `with '
                'self._get_loaded.apply(<load_content result>)`',
                'load_hook yields on a path where no loaded message was '
                'handed to the provider (e.g. skipping load_content for '
                'expunged messages): FetchResponse.write renders the values '
                'lazily inside this hook, and every content value without a '
                'provider writes the log placeholder — the wire carries '
                '`* 4 FETCH (RFC822.SIZE ... ENVELOPE ...)`, which is not an '
                'nstring, number or list')


def r711(ctx) -> None:
    """FETCH values are rendered while the response line is being written
    (R7.10).  An accessor of the loaded message that lets the "no content"
    signal out at that moment leaves `* n FETCH (FLAGS (...) UID 1 ` on the
    wire with the BYE appended to it: an unterminated line with unbalanced
    parentheses.  Every accessor fetch.py calls on the loaded message
    therefore handles that signal itself."""
    R = ctx.rule('R7.11', 'loaded-message accessors used while a FETCH line '
                 'is written contain the no-content signal', 6)
    proj = ctx.proj
    blm = proj.cls('pymap/message.py', 'BaseLoadedMessage')
    # the signalling properties: a property of the class that raises
    props = {}
    for fs in blm.methods.values():
        for f in fs:
            if 'property' in f.decorators:
                rs = [r for r in walk_local(f.node) if isinstance(r, ast.Raise)
                      and r.exc is not None]
                if rs:
                    e = rs[0].exc
                    props[f.name] = txt(e.func if isinstance(e, ast.Call)
                                        else e).split('.')[-1]
    if not props:
        raise AnchorError('no raising property on BaseLoadedMessage: the '
                          'no-content signal moved, re-audit R7.11')
    from ..escape import Escapes
    from ..callgraph import CallGraph
    es = Escapes(proj, CallGraph(proj))
    # accessors by role: what fetch.py calls on a loaded message
    fetch = proj.module('pymap/fetch.py')
    used = set()
    for n in ast.walk(fetch.tree):
        if isinstance(n, ast.Call) and isinstance(n.func, ast.Attribute) and \
                isinstance(n.func.value, ast.Name) and \
                n.func.value.id == 'loaded_msg':
            used.add(n.func.attr)
    if len(used) < 6:
        raise AnchorError(f'only {sorted(used)} accessor(s) called on '
                          f'loaded_msg in fetch.py (6 confirmed by hand)')
    # methods that let the signal out (fixpoint over self-calls)
    leaky: dict[str, tuple] = {}
    methods = {f.name: f for fs in blm.methods.values() for f in fs
               if 'property' not in f.decorators}
    changed = True
    while changed:
        changed = False
        for nm, f in methods.items():
            if nm in leaky:
                continue
            for n in walk_local(f.node):
                src = None
                if isinstance(n, ast.Attribute) and is_name(n.value, 'self') \
                        and n.attr in props and isinstance(n.ctx, ast.Load):
                    src = (props[n.attr], f'self.{n.attr}')
                elif isinstance(n, ast.Call) and \
                        isinstance(n.func, ast.Attribute) and \
                        is_name(n.func.value, 'self') and \
                        n.func.attr in leaky:
                    src = (leaky[n.func.attr][0], f'self.{n.func.attr}()')
                if src and not es.caught(f, n, src[0]):
                    leaky[nm] = (src[0], src[1], n)
                    changed = True
                    break
    for nm in sorted(used):
        f = methods.get(nm)
        if f is None:
            R.undecided(blm.own_method('__init__') or next(iter(
                methods.values())), None, f'accessor {nm}',
                f'fetch.py calls loaded_msg.{nm}() but BaseLoadedMessage '
                f'has no such method')
            continue
        if nm in leaky:
            exc, what, node = leaky[nm]
            R.fail(f, node, f'BaseLoadedMessage.{nm} contains {exc}',
                   f'`{what}` in {nm}() is not under a handler for {exc}: '
                   f'when the backend has no content for the message (its '
                   f'file was unlinked by another session\'s EXPUNGE before '
                   f'this session learnt of it), the exception is raised '
                   f'while FetchResponse.write is in the middle of the line; '
                   f'the wire carries `* 1 FETCH (FLAGS (..) UID 1 * BYE '
                   f'[SERVERBUG] ...` — an unterminated FETCH with '
                   f'unbalanced parentheses')
        else:
            R.ok(f, f.node, f'BaseLoadedMessage.{nm} contains '
                 f'{sorted(set(props.values()))}',
                 'every read of the signalling property is under a handler')


RESP_FETCH = 'pymap/parsing/response/fetch.py'


def _nonempty_guard(cfg, n, atom: str) -> bool:
    """runs_only_when(.., atom, True), but a test that only compares the
    value with None does not count: an empty sequence passes it."""
    if not runs_only_when(cfg, n, atom, True):
        return False
    for t in cfg.nodes:
        if t.kind != 'test' or getattr(t.stmt, 'test', None) is None:
            continue
        if not (cfg.controlled_by(n, t, 't') or cfg.controlled_by(n, t, 'f')):
            continue
        for c in ast.walk(t.stmt.test):
            if isinstance(c, ast.Compare) and txt(c.left) == atom and \
                    isinstance(c.ops[0], (ast.Is, ast.IsNot)) and \
                    const_value(c.comparators[0]) == (True, None):
                return False
    return True


def r712(ctx) -> None:
    """RFC 3501 section 9 has no empty list in ENVELOPE / BODYSTRUCTURE:
    env-to = "(" 1*address ")" / nil, body-fld-param = "(" string SP string
    *(SP string SP string) ")" / nil.  A parenthesised list built from a
    sequence of run-time length is therefore written only when that sequence
    is non-empty (NIL otherwise)."""
    R = ctx.rule('R7.12', 'variable-length lists of ENVELOPE/BODYSTRUCTURE '
                 'are written only when non-empty', 2)
    m = ctx.proj.module(RESP_FETCH)
    n = 0
    for f in m.funcs.values():
        cfg = None
        for c in calls_in(f.node, 'List'):
            if not c.args:
                continue
            a = c.args[0]
            if isinstance(a, (ast.List, ast.Tuple)):
                continue                      # fixed number of fields
            # the sequences the list is drawn from
            srcs = set()
            work = [a]
            seen = 0
            while work and seen < 12:
                e = work.pop()
                seen += 1
                if isinstance(e, (ast.ListComp, ast.GeneratorExp)):
                    for g in e.generators:
                        it = g.iter
                        while isinstance(it, ast.Call) and isinstance(
                                it.func, ast.Attribute) and it.func.attr in (
                                    'items', 'values', 'keys'):
                            it = it.func.value
                        srcs.add(txt(it))
                        work.append(it)
                elif isinstance(e, ast.Call):
                    work += list(e.args)
                elif isinstance(e, ast.Name):
                    srcs.add(e.id)
                    work += [v for v in resolve_local(f, e)
                             if v is not None and v is not e]
                elif isinstance(e, ast.Attribute):
                    srcs.add(txt(e))
            n += 1
            cfg = cfg or cfg_of(f)
            nodes = cfg.node_containing(c)
            ok = bool(nodes) and all(any(_nonempty_guard(cfg, nd, s_)
                                         for s_ in srcs) for nd in nodes)
            R.check(ok, f, c, f'{f.qualname}: `{txt(c)[:46]}` only when its '
                    f'source is non-empty',
                    f'`{txt(c)[:60]}` is written for a sequence that can be '
                    f'empty (drawn from {sorted(srcs)}; no truth test on it '
                    f'controls this statement): a header that is present '
                    f'but holds no address — `To: undisclosed-recipients:;` '
                    f'— is written as `()`, and RFC 3501 has only "(" '
                    f'1*address ")" / nil in that position',
                    f'under a truth test on one of {sorted(srcs)}')
    if n < 2:
        raise AnchorError(f'{RESP_FETCH}: only {n} variable-length List() '
                          f'construction(s) found (2 confirmed by hand)')


def r713(ctx) -> None:
    """RFC 3501 section 9: body-fld-dsp = "(" string SP body-fld-param ")" /
    nil.  The disposition position of BODYSTRUCTURE extension data never
    holds a plain string."""
    R = ctx.rule('R7.13', 'BODYSTRUCTURE disposition is a (type params) list '
                 'or NIL', 4)
    m = ctx.proj.module(RESP_FETCH)
    n = 0
    for f in m.funcs.values():
        for lst in calls_in(f.node, 'List'):
            if not lst.args or not isinstance(lst.args[0], (ast.List,
                                                            ast.Tuple)):
                continue
            if len(lst.args[0].elts) <= 2:
                continue      # the (type params) pair itself, not a body
            for el in lst.args[0].elts:
                if not any(isinstance(x, ast.Attribute)
                           and x.attr == 'content_disposition'
                           for x in ast.walk(el)):
                    continue
                n += 1
                key = f'{f.qualname}: disposition field'
                if isinstance(el, ast.Call) and txt(el.func) in (
                        'String.build', 'QuotedString', 'LiteralString',
                        'String'):
                    R.fail(f, el, key,
                           f'`{txt(el)}` writes the Content-Disposition '
                           f'header as ONE string (`"attachment; '
                           f'filename=\\"x\\""`): the grammar has only "(" '
                           f'string SP body-fld-param ")" / nil there, so '
                           f'FETCH BODYSTRUCTURE of any message with an '
                           f'attachment does not parse under RFC 3501')
                    continue
                cls = m.classes.get(call_name(el)) if isinstance(
                    el, ast.Call) else None
                v = cls.own_method('_value') if cls is not None else None
                if v is None:
                    R.undecided(f, el, key, f'`{txt(el)}` is not a writer '
                                f'class of this module with a _value')
                    continue
                shapes = []
                for r in walk_local(v.node):
                    if not isinstance(r, ast.Return) or r.value is None:
                        continue
                    rv = r.value
                    if isinstance(rv, ast.Call) and call_name(rv) == 'Nil':
                        shapes.append('nil')
                    elif isinstance(rv, ast.Call) and \
                            call_name(rv) == 'List' and rv.args and \
                            isinstance(rv.args[0], (ast.List, ast.Tuple)) \
                            and len(rv.args[0].elts) == 2 and \
                            txt(rv.args[0].elts[0]).startswith(
                                'String.build(') and \
                            call_name(rv.args[0].elts[1]) == '_ParamsList':
                        shapes.append('list')
                    else:
                        shapes.append('other:' + txt(rv)[:40])
                R.check(bool(shapes) and set(shapes) <= {'nil', 'list'}, f,
                        el, key, f'{cls.name}._value returns {shapes}: not '
                        f'only NIL / (string params)',
                        f'{cls.name}: {sorted(set(shapes))}')
    if n < 4:
        raise AnchorError(f'{RESP_FETCH}: only {n} disposition field(s) in '
                          f'List displays (4 confirmed by hand)')


def r714(ctx) -> None:
    """RFC 3501 section 9: body-type-mpart = 1*body SP media-subtype.  The
    multipart writer concatenates its parts and appends the subtype, so with
    zero parts it writes `( "mixed")`.  Every construction of it is therefore
    under a test that the part list is non-empty."""
    R = ctx.rule('R7.14', 'a multipart BODYSTRUCTURE is built only from at '
                 'least one part', 1)
    n = 0
    for f in ctx.proj.all_funcs('pymap/'):
        if f.rel.startswith(('pymap/admin/', 'pymap/backend/redis/')):
            continue
        cs = list(calls_in(f.node, 'MultipartBodyStructure'))
        if not cs:
            continue
        cfg = cfg_of(f)
        for c in cs:
            n += 1
            parts = c.args[-1] if c.args else None
            atoms = set()
            for v in ([parts] if parts is not None else []) + [
                    x for x in (resolve_local(f, parts)
                                if parts is not None else []) if x is not None]:
                atoms.add(txt(v))
                for b in built_sequence(f, v) or []:
                    it = txt(b['iter'])
                    atoms.add(it)
                    if it.endswith('.nested'):
                        atoms.add(it[:-len('.nested')] + '.has_nested')
            nodes = cfg.node_containing(c)
            ok = bool(nodes) and all(any(runs_only_when(cfg, nd, a, True)
                                         for a in atoms) for nd in nodes)
            R.check(ok, f, c, f'{f.qualname}: MultipartBodyStructure only '
                    f'with parts',
                    f'`{txt(c)[:50]}...` is built without a test that the '
                    f'part list ({sorted(atoms)}) is non-empty: a message '
                    f'that declares multipart/mixed but has no boundary '
                    f'line has no parts, and its BODYSTRUCTURE is written '
                    f'as `( "mixed")`, which RFC 3501 (1*body SP '
                    f'media-subtype) does not have',
                    f'under a truth test on one of {sorted(atoms)}')
    if n < 1:
        raise AnchorError('no construction of MultipartBodyStructure found')


# RFC 3501 section 9, position by position.  N nstring, S! string that is
# never NIL, # number, P body-fld-param, D body-fld-dsp, A address list,
# ENV envelope, BODY body, PARTS 1*body.
_EXT = ['N', 'D', 'N', 'N']               # md5 dsp lang loc
_FIELDS = ['N', 'N', 'P', 'N', 'N', 'S!', '#']
GRAMMAR_POSITIONS = {
    ('_AddressList', '_parse'): ['N', 'N', 'N', 'N'],
    ('EnvelopeStructure', '_value'):
        ['N', 'N', 'A', 'A', 'A', 'A', 'A', 'A', 'N', 'N'],
    ('MultipartBodyStructure', '_value'): ['PARTS', 'N'],
    ('MultipartBodyStructure', 'extended'): ['PARTS', 'N', 'P', 'D', 'N',
                                             'N'],
    ('ContentBodyStructure', '_value'): _FIELDS,
    ('ContentBodyStructure', 'extended'): _FIELDS + _EXT,
    ('TextBodyStructure', '_value'): _FIELDS + ['#'],
    ('TextBodyStructure', 'extended'): _FIELDS + ['#'] + _EXT,
    ('MessageBodyStructure', '_value'): _FIELDS + ['ENV', 'BODY', '#'],
    ('MessageBodyStructure', 'extended'):
        _FIELDS + ['ENV', 'BODY', '#'] + _EXT,
}


def _kind(m, f, e, depth=0) -> str:
    """Grammar kind of one element expression of a structure display."""
    if isinstance(e, ast.Name):
        ks = {_kind(m, f, v, depth + 1) for v in resolve_local(f, e)
              if v is not None and v is not e}
        return ks.pop() if len(ks) == 1 else '?' + txt(e)
    if isinstance(e, ast.IfExp):
        ks = {_kind(m, f, e.body, depth + 1), _kind(m, f, e.orelse,
                                                    depth + 1)}
        return ks.pop() if len(ks) == 1 else '?' + txt(e)[:30]
    if isinstance(e, ast.Attribute):
        t = txt(e)
        if 'envelope_structure' in t:
            return 'ENV'
        if 'body_structure' in t:
            return 'BODY'
        return '?' + t
    if not isinstance(e, ast.Call):
        return '?' + txt(e)[:30]
    fn = txt(e.func)
    if fn == 'String.build':
        return 'S!' if kwarg(e, 'fallback') is not None or len(e.args) >= 3 \
            else 'N'
    if fn in ('Nil', 'DateTime', 'QuotedString', 'LiteralString'):
        return 'N'
    if fn == 'Number':
        return '#'
    if fn == '_Concatenated':
        return 'PARTS'
    table = {'_ParamsList': 'P', '_Disposition': 'D', '_AddressList': 'A'}
    if fn in table:
        return table[fn]
    if isinstance(e.func, ast.Attribute) and is_name(e.func.value, 'self') \
            and f.cls is not None and depth < 3:
        g = f.cls.find_method(e.func.attr)
        if g is not None:
            ks = set()
            for r in walk_local(g.node):
                if isinstance(r, ast.Return) and r.value is not None:
                    if isinstance(r.value, ast.Call) and isinstance(
                            r.value.func, ast.Attribute) and \
                            r.value.func.attr == g.name:
                        continue               # tail call of itself
                    ks.add(_kind(m, g, r.value, depth + 1))
            if len(ks) == 1:
                return ks.pop()
    return '?' + txt(e)[:30]


def r715(ctx) -> None:
    R = ctx.rule('R7.15', 'ENVELOPE / BODYSTRUCTURE writers agree with the '
                 'grammar position by position', 10)
    m = ctx.proj.module(RESP_FETCH)
    for (cn, fname), want in GRAMMAR_POSITIONS.items():
        cls = m.classes.get(cn)
        f = cls.own_method(fname) if cls is not None else None
        if f is None:
            raise AnchorError(f'{RESP_FETCH}: {cn}.{fname} vanished; '
                              f're-audit the grammar table of R7.15')
        shown = []
        for r in walk_local(f.node):
            if not isinstance(r, ast.Return) or r.value is None:
                continue
            for v in resolve_local(f, r.value):
                if isinstance(v, ast.Call) and call_name(v) == 'List' and \
                        v.args and isinstance(v.args[0], (ast.List,
                                                          ast.Tuple)):
                    shown.append((v, [_kind(m, f, el)
                                      for el in v.args[0].elts]))
        key = f'{cn}.{fname}: fields match RFC 3501 section 9'
        if not shown:
            R.undecided(f, f.node, key, 'no List([...]) display returned')
            continue
        for v, got in shown:
            norm = [('N' if (g == 'S!' and w == 'N') else g)
                    for g, w in zip(got, want)] + got[len(want):]
            if any(g.startswith('?') for g in norm):
                R.undecided(f, v, key, f'element kinds {got}')
            else:
                R.check(norm == want, f, v, key,
                        f'the display has {got} where the grammar has '
                        f'{want} (N nstring, S! string never NIL, # number, '
                        f'P parameter list, D disposition, A address list): '
                        f'a field is missing, doubled, swapped or of a kind '
                        f'the position does not allow, so FETCH '
                        f'{"ENVELOPE" if "A" in want or cn == "_AddressList" else "BODYSTRUCTURE"}'
                        f' does not parse', f'{len(want)} fields')


STATUS_CLASSES = ('ResponseOk', 'ResponseNo', 'ResponseBad', 'ResponseBye',
                  'ResponsePreAuth', 'ResponseContinuation')


def _text_kind(ctx, f, e, depth=0) -> str:
    """'nonempty' | 'empty' (may be the empty string) | 'unknown:<txt>'."""
    if e is None:
        return 'empty'
    ok, v = const_value(e)
    if ok:
        return 'nonempty' if v else 'empty'
    if isinstance(e, ast.BinOp) and isinstance(e.op, (ast.Add, ast.Mod)):
        ks = (_text_kind(ctx, f, e.left, depth + 1),
              _text_kind(ctx, f, e.right, depth + 1))
        if isinstance(e.op, ast.Mod):
            return ks[0]                   # the format string
        return 'nonempty' if 'nonempty' in ks else (
            'empty' if set(ks) == {'empty'} else ks[0] if
            ks[0].startswith('unknown') else ks[1])
    if isinstance(e, ast.BoolOp) and isinstance(e.op, ast.Or):
        return _text_kind(ctx, f, e.values[-1], depth + 1)
    if isinstance(e, ast.IfExp):
        ks = {_text_kind(ctx, f, e.body, depth + 1),
              _text_kind(ctx, f, e.orelse, depth + 1)}
        return ks.pop() if len(ks) == 1 else (
            'empty' if 'empty' in ks else sorted(ks)[-1])
    if isinstance(e, ast.Name) and depth < 4:
        from ..facts import reaching_values
        only_truthy: set = set()
        vals = reaching_values(f, e, only_truthy)
        if vals is None:
            vals = [v for v in resolve_local(f, e)
                    if v is not None and v is not e]
        ks = set()
        for v in vals:
            k = _text_kind(ctx, f, v, depth + 1)
            # a possibly empty value that gets here only after `if not x:
            # x = <fallback>` was not taken is not empty
            ks.add('nonempty' if k == 'empty' and id(v) in only_truthy
                   else k)
        if not ks:
            return 'unknown:' + e.id
        return 'empty' if 'empty' in ks else (
            'nonempty' if ks == {'nonempty'} else sorted(ks)[-1])
    if isinstance(e, ast.Call) and call_name(e) in ('bytes', 'str',
                                                    'encode') and (
            e.args or isinstance(e.func, ast.Attribute)):
        # a conversion of a value: empty when the value is
        inner = e.args[0] if e.args else e.func.value
        if isinstance(inner, ast.Call) and call_name(inner) in ('str',
                                                                 'bytes'):
            inner = inner.args[0] if inner.args else inner
        if isinstance(inner, ast.Name):
            hs = [h for h in walk_local(f.node)
                  if isinstance(h, ast.ExceptHandler) and h.name == inner.id]
            if hs:
                return 'empty'           # str(exc) of an exception: may be ''
        return _text_kind(ctx, f, inner, depth + 1) if depth < 4 \
            else 'unknown:' + txt(e)[:30]
    if isinstance(e, ast.Attribute) and e.attr == 'message' and depth < 3:
        # InvalidCommand.message and the like: a property of a parsing class
        ks = set()
        for c in ctx.proj.all_classes('pymap/parsing/'):
            g = c.own_method('message')
            if g is not None:
                for r in walk_local(g.node):
                    if isinstance(r, ast.Return):
                        ks.add(_text_kind(ctx, g, r.value, depth + 1))
        if ks:
            return 'nonempty' if ks == {'nonempty'} else sorted(ks)[0]
    return 'unknown:' + txt(e)[:30]


def r716(ctx) -> None:
    """RFC 3501 section 9: resp-text = ["[" resp-text-code "]" SP] text,
    text = 1*TEXT-CHAR: a status response always carries some text."""
    R = ctx.rule('R7.16', 'the text of a status response is never empty', 40)
    n = 0
    for f in ctx.proj.all_funcs('pymap/imap/'):
        for c in calls_in(f.node):
            if call_name(c) not in STATUS_CLASSES or \
                    isinstance(c.func, ast.Attribute):
                continue
            pos = 0 if call_name(c) in ('ResponseBye', 'ResponsePreAuth',
                                        'ResponseContinuation') else 1
            arg = c.args[pos] if len(c.args) > pos else kwarg(c, 'text')
            if call_name(c) == 'ResponseContinuation':
                continue      # continue-req may carry empty base64
            n += 1
            k = _text_kind(ctx, f, arg)
            key = f'{f.qualname}: text of `{txt(c)[:44]}`'
            if k == 'nonempty':
                R.ok(f, c, key, 'contains a non-empty constant')
            elif k == 'empty':
                R.fail(f, c, key,
                       f'`{txt(arg)}` can be the empty string (the text of '
                       f'an exception raised without a message): the line '
                       f'written is `tag BAD ` + CRLF, and the grammar has '
                       f'text = 1*TEXT-CHAR — AUTHENTICATE PLAIN answered '
                       f'with a line that is not base64 gets exactly that')
            else:
                R.undecided(f, c, key, k)
    if n < 40:
        raise AnchorError(f'only {n} status response constructions found in '
                          f'pymap/imap/ (40 confirmed by hand)')

"""C06 — every input is answered: R6.1-R6.7."""
from __future__ import annotations

import ast
import json
import os
import subprocess
import sys

from ..cfg import NORMAL, ALL, walk_local, has_suspension
from ..facts import (runs_only_when, cfg_of, call_name, calls_in, targets_of, guard_atoms,
                     is_attr, is_name, enclosing, local_assigns, kwarg,
                     const_value, strip_await, resolve_local, bind_args,
                     writers_of, names_in)
from ..loader import txt, AnchorError
from ..callgraph import CallGraph
from ..escape import Escapes, handler_names
from ..progress import Progress
from ..report import VERIF, Site
from .. import regexfacts as rx

IMAP = 'pymap/imap/__init__.py'
SIEVE = 'pymap/sieve/manage/__init__.py'
CMDS = 'pymap/parsing/commands.py'
SCMD = 'pymap/sieve/manage/command.py'
PRIM = 'pymap/parsing/primitives.py'

LOOP_SCOPE = ('pymap/parsing/', 'pymap/mime/', 'pymap/threads.py',
              'pymap/listtree.py', 'pymap/search.py', 'pymap/message.py',
              'pymap/fetch.py', 'pymap/flags.py', 'pymap/selected.py')
PARSE_ALLOWED = ('NotParseable', 'ParsingInterrupt')


def check(ctx) -> None:
    ctx.explanation = (
        'Static decision of structural necessary conditions of C06: every '
        'non-I/O while loop of the parsers, MIME code and helpers strictly '
        'advances one variable on every path round the loop (abstract '
        'interpretation with a consuming-parser fixpoint); only the '
        'NotParseable family and ParsingInterrupt can leave the IMAP and '
        'ManageSieve command parsers (exception-escape sets over the '
        'name-resolved call graph, with a frozen may-raise table for '
        'decode/encode/int/strptime/b64decode/zip(strict)/next and '
        'regex-provenance recognisers); every call-graph cycle is bounded '
        'by a depth parameter or by construction, is derived from a listed '
        'root, or is listed; every write of a command response in the '
        'command loop lies under a handler that says BYE, and nothing is '
        'attached to a response after it was written; size limits are '
        'tested before allocation; no Optional value flows into a '
        'constructor that needs a value (mypy None-flow codes); on the '
        'lazily evaluated fetch/search path only ResponseError subclasses '
        'escape.')
    ctx.not_decided = ('totality for all byte strings; exceptions from '
                       'inside stdlib email header parsing and from the '
                       'maildir backend\'s filesystem calls; KeyError/'
                       'IndexError/TypeError/AttributeError from value '
                       'invariants; step/time bounds.')
    cg = CallGraph(ctx.proj)
    r61(ctx, cg)
    r62(ctx, cg)
    r63(ctx, cg)
    r64(ctx)
    r65(ctx)
    r66(ctx)
    r67(ctx, cg)
    r68(ctx)
    r69(ctx)
    r610(ctx)
    r611(ctx)
    r612(ctx)
    r613(ctx)
    r614(ctx, cg)
    r615(ctx, cg)
    r616(ctx, cg)
    r617(ctx, cg)
    r618(ctx)
    ctx.extra_coverage['call_graph'] = {
        'functions': len(cg.funcs), 'call_sites_resolved': cg.resolved,
        'call_sites_unresolved': cg.unresolved,
        'expected_dispatch': [c.name for c in cg.expected],
        'registered_commands': len(cg.commands)}


# ----------------------------------------------------------------------
def r61(ctx, cg) -> None:
    R = ctx.rule('R6.1', 'loop progress', 9)
    pg = Progress(ctx.proj, cg)
    rounds = pg.solve([f for f in cg.funcs
                       if f.rel.startswith(('pymap/parsing/', SCMD))])
    tally: dict[str, int] = {}
    for f in cg.funcs:
        st = pg.consuming.get(id(f.node))
        if st is not None:
            tally[st] = tally.get(st, 0) + 1
    ctx.extra_coverage['consuming_parsers'] = {
        'fixpoint_rounds': rounds, 'strictly_consuming': tally.get('S', 0),
        'suffix_preserving': tally.get('0', 0),
        'unknown': tally.get('?', 0)}
    seen = set()
    for f in sorted(cg.funcs, key=lambda f: -f.qualname.count('.')):
        if not f.rel.startswith(LOOP_SCOPE):
            continue
        for l in walk_local(f.node):
            if not isinstance(l, ast.While) or id(l) in seen:
                continue
            seen.add(id(l))
            key = f'{f.qualname}: while {txt(l.test)[:30]}'
            verdict, detail = pg.check_loop(f, l)
            if verdict == 'skip':
                continue
            if verdict == 'ok':
                R.ok(f, l, key, detail)
            elif verdict == 'fail':
                R.fail(f, l, key,
                       f'{detail}: some path round this loop consumes '
                       f'nothing and changes no loop variable, so the loop '
                       f'spins forever on that input and blocks the event '
                       f'loop for every connection')
            else:
                R.undecided(f, l, key, detail)
    # the delegate chase in ConnectionState._get_func_name is decided by the
    # acyclicity clause of R5.1 (C05)


# ----------------------------------------------------------------------
def _invariant_ok(ctx, cg, es, e) -> str | None:
    """Triage table for explicit raises / primitives guarded by a parser
    invariant.  Each reason is a CHECKED fact; returns the reason or None."""
    origin = e.origin.split('::')[1]
    rel = e.origin.split('::')[0]
    f = ctx.proj.try_func(rel, origin)
    if f is None:
        return None
    # compound prefix commands are never parsed directly
    if e.what == 'raise TypeError' and f.cls is not None and \
            f.name == 'parse':
        comp = f.cls.find_attr('compound')
        if comp is not None and const_value(comp[1]) == (True, True):
            cp = ctx.proj.func(CMDS, 'Commands.parse')
            cfg = cfg_of(cp)
            calls = cfg.find(lambda n: any(txt(c.func) == 'cmd_type.parse'
                                           for c in n.calls()))
            guard = [t for t in cfg.nodes if t.kind == 'test'
                     and 'compound' in txt(t.stmt.test)]
            if calls and guard:
                return ('compound prefix command: Commands.parse leaves the '
                        'name loop only when `not cmd_type.compound`')
        # `ret` of super().parse(...) is an instance of cls by construction
        sup = [c for c in calls_in(f.node)
               if call_name(c) == 'parse' and txt(c.func.value) == 'super()']
        tests = [t for t in walk_local(f.node) if isinstance(t, ast.If)
                 and 'isinstance(ret' in txt(t.test)]
        if sup and tests:
            base = f.cls.bases[0].find_method('parse') if f.cls.bases \
                else None
            if base is not None and any(
                    isinstance(r.value, ast.Tuple) and r.value.elts
                    and call_name(r.value.elts[0]) == 'cls'
                    for r in walk_local(base.node)
                    if isinstance(r, ast.Return) and r.value is not None):
                return ('super().parse() returns cls(...): the isinstance '
                        'check cannot fail')
    # int() of a value guarded by a digits-only pattern
    if e.what == 'int(…)' and f.cls is not None:
        for c in calls_in(f.node, 'int'):
            if c.lineno != e.line or not c.args:
                continue
            a = c.args[0]
            # (a) M.group(k) with a digits-only group
            if isinstance(a, ast.Call) and call_name(a) == 'group' and \
                    a.args:
                ok, k = const_value(a.args[0])
                for v in resolve_local(f, a.func.value):
                    if isinstance(v, ast.Call) and \
                            isinstance(v.func, ast.Attribute) and \
                            isinstance(v.func.value, ast.Attribute):
                        pa = f.cls.find_attr(v.func.value.attr)
                        if pa and isinstance(pa[1], ast.Call):
                            c2, src = const_value(pa[1].args[0])
                            if c2 and ok and isinstance(k, int):
                                gs = _group_set(src, k)
                                if gs is not None and \
                                        gs <= frozenset(range(0x30, 0x3a)) \
                                        and _short(src, k):
                                    return (f'group({k}) of '
                                            f'{v.func.value.attr} is '
                                            f'digits-only and at most '
                                            f'{INT_DIGITS} long')
                # (b) guarded by `if not P.match(atom): raise`
                for t in walk_local(f.node):
                    if isinstance(t, ast.If) and any(
                            isinstance(b, ast.Raise) for b in t.body):
                        at = guard_atoms(t.test)
                        if len(at) == 1 and not at[0][1] and \
                                '.match(' in at[0][0]:
                            pn = at[0][0].split('.match(')[0].split('.')[-1]
                            pa = f.cls.find_attr(pn)
                            if pa and isinstance(pa[1], ast.Call):
                                c2, src = const_value(pa[1].args[0])
                                if c2 and rx.consumable(src) <= frozenset(
                                        range(0x30, 0x3a)) and (
                                        src.startswith(b'^')
                                        and src.endswith(b'$')) and \
                                        _short(src, 0):
                                    return (f'guarded by the digits-only '
                                            f'pattern {pn}')
            # (c) pieces of a group over digits, spaces and the separator
            for gen in walk_local(f.node):
                if isinstance(gen, (ast.ListComp, ast.GeneratorExp)) and \
                        any(x is c for x in ast.walk(gen)):
                    it = gen.generators[0].iter
                    if isinstance(it, ast.Call) and \
                            call_name(it) == 'split' and \
                            isinstance(it.func.value, ast.Call) and \
                            call_name(it.func.value) == 'group':
                        g = it.func.value
                        ok, k = const_value(g.args[0]) if g.args \
                            else (True, 0)
                        ok2, sep = const_value(it.args[0]) if it.args \
                            else (False, None)
                        for v in resolve_local(f, g.func.value):
                            if isinstance(v, ast.Call) and isinstance(
                                    v.func, ast.Attribute) and isinstance(
                                    v.func.value, ast.Attribute):
                                pa = f.cls.find_attr(v.func.value.attr)
                                if pa and isinstance(pa[1], ast.Call):
                                    c2, src = const_value(pa[1].args[0])
                                    gs = _group_set(src, k) if c2 else None
                                    allowed = set(range(0x30, 0x3a)) | \
                                        {0x20} | (set(sep) if ok2 else set())
                                    if gs is not None and gs <= allowed \
                                            and _short(src, k):
                                        return (f'pieces of group({k}) of '
                                                f'{v.func.value.attr}: '
                                                f'digits, spaces and the '
                                                f'separator only (int() '
                                                f'tolerates surrounding '
                                                f'blanks)')
    # ObjectId(b'') cannot come from the parser: the pattern is non-empty
    if e.what == 'raise ValueError' and origin == 'ObjectId.__init__':
        pa = f.cls.find_attr('_pattern')
        if pa and isinstance(pa[1], ast.Call):
            c2, src = const_value(pa[1].args[0])
            if c2 and rx.min_width(src) >= 1:
                return 'ObjectId._pattern has minimum width 1: never empty'
    # Flag(str) branch: the conversion sits on the not-bytes branch of an
    # isinstance test, and Flag.parse constructs from Atom values (bytes)
    if origin == 'Flag.__init__' and e.exc.startswith('Unicode'):
        cfgf = cfg_of(f)
        nodes = [n for n in cfgf.stmt_nodes() if n.lineno == e.line]
        on_str_branch = any(
            runs_only_when(cfgf, n, 'isinstance(value, bytes)', False)
            for n in nodes)
        p = f.cls.find_method('parse')
        from_bytes = p is not None and all(
            'atom.value' in txt(r.value.elts[0])
            or 'group(' in txt(r.value.elts[0])
            for r in walk_local(p.node)
            if isinstance(r, ast.Return) and isinstance(r.value, ast.Tuple)
            and call_name(r.value.elts[0]) == 'cls')
        if on_str_branch and from_bytes:
            return ('str branch of Flag.__init__ (not isinstance(value, '
                    'bytes)); Flag.parse constructs from Atom bytes')
    return None


INT_DIGITS = 4300      # sys.get_int_max_str_digits(): int() of a longer
#                        digit string raises ValueError


def _short(src, k: int) -> bool:
    try:
        w = rx.group_max_width(src, k)
    except Exception:
        return False
    return w is not None and w <= INT_DIGITS


def _group_set(src, k: int):
    """Byte set group k of a pattern can contain (None when unknown)."""
    import re._parser as sp
    try:
        tree = sp.parse(src)
    except Exception:
        return None
    if k == 0:
        return rx.consumable(src)
    found = []

    def walk(items):
        for op, av in items:
            n = str(op)
            if n == 'SUBPATTERN':
                if av[0] == k:
                    found.append(list(av[3]))
                walk(list(av[3]))
            elif n in ('MAX_REPEAT', 'MIN_REPEAT'):
                walk(list(av[2]))
            elif n == 'BRANCH':
                for alt in av[1]:
                    walk(list(alt))
    walk(list(tree))
    if not found:
        return None
    out: set[int] = set()

    def collect(items):
        for op, av in items:
            n = str(op)
            if n == 'LITERAL':
                out.add(av)
            elif n == 'IN':
                out.update(rx.class_set(av))
            elif n == 'ANY':
                out.update(range(256))
            elif n == 'NOT_LITERAL':
                out.update(set(range(256)) - {av})
            elif n in ('MAX_REPEAT', 'MIN_REPEAT'):
                collect(list(av[2]))
            elif n == 'SUBPATTERN':
                collect(list(av[3]))
            elif n == 'BRANCH':
                for alt in av[1]:
                    collect(list(alt))
    collect(found[0])
    return frozenset(out)


def r62(ctx, cg) -> None:
    R = ctx.rule('R6.2', 'exception containment at the parse boundary', 10)
    roots = [(ctx.proj.func(CMDS, 'Commands.parse'), 'IMAP'),
             (ctx.proj.func(SCMD, 'Command.parse'), 'ManageSieve')]
    reach = cg.reachable([r for r, _ in roots])
    es = Escapes(ctx.proj, cg)
    es.solve(reach)
    ctx.extra_coverage['parse_boundary'] = {
        'functions_reachable': len(reach), 'fixpoint_rounds': es.rounds}
    n_sites = 0
    for f in reach:
        n_sites += len(es.raise_sites(f)) + len(es.prim_sites(f))
    ctx.extra_coverage['parse_boundary']['raise_and_conversion_sites'] = \
        n_sites
    for root, label in roots:
        bad = 0
        for e in sorted(es.of(root), key=lambda e: (e.origin, e.line)):
            if any(es.is_sub(None, e.exc, a) for a in PARSE_ALLOWED):
                continue
            reason = _invariant_ok(ctx, cg, es, e)
            origin = e.origin.split('::')[1]
            st = Site(e.origin.split('::')[0], e.line, origin)
            key = f'{label}: {origin}: {e.what} -> {e.exc}'
            if reason is not None:
                R.ok(st, None, key, f'invariant (checked): {reason}')
            else:
                bad += 1
                R.fail(st, None, key,
                       f'{e.exc} raised at {e.origin}:{e.line} ({e.what}) '
                       f'is not caught on some call chain from {label} '
                       f'command parsing: it is not NotParseable, so the '
                       f'client gets * BYE [SERVERBUG] (IMAP) / the '
                       f'connection task dies (ManageSieve) instead of BAD')
        R.ok(root, root.node, f'{label}: escape set of {root.qualname} '
             f'computed', f'{len(es.of(root))} escaping site(s), {bad} not '
             f'allowed')


# ----------------------------------------------------------------------
BOUNDED_BY_CONSTRUCTION = {
    # anchor qualname -> (checked predicate name, reason)
    'String.build': 'fallback',
    'EnvelopeStructure._addresses': 'fallback',
    'List.__eq__': 'value',
}
DERIVED = {
    'BaseLoadedMessage._get_body_structure': 'mirrors the MIME tree built '
    'by MessageContent._parse',
    'MessageBody.from_json': 'mirrors a previously parsed MIME tree',
    'MessageContent.from_json': 'mirrors a previously parsed MIME tree',
    'InverseSearchCriteria.__init__': 'mirrors the key tree built by '
    'SearchKey.parse',
    'OrSearchCriteria.__init__': 'mirrors the key tree built by '
    'SearchKey.parse',
    'SearchCriteria.of': 'mirrors the key tree built by SearchKey.parse',
    'SearchCriteriaSet.__init__': 'mirrors the key tree built by '
    'SearchKey.parse',
}
OUT_OF_SCOPE = ('pymap/sieve/runner.py', 'pymap/sieve/tests.py',
                'pymap/sieve/', 'pymap/health/', 'pymap/plugin/',
                'pymap/main.py', 'pymap/token/')


def _depth_bounded(comp) -> str | None:
    members = {id(f.node) for f in comp}
    for f in comp:
        for p in f.params():
            if p in ('self', 'cls'):
                continue
            passes = False
            for c in calls_in(f.node):
                for a in list(c.args) + [k.value for k in c.keywords]:
                    if isinstance(a, ast.BinOp) and \
                            isinstance(a.op, (ast.Add, ast.Sub)) and \
                            p in (txt(a.left), txt(a.right)) and (
                                const_value(a.right)[0]
                                or const_value(a.left)[0]):
                        passes = True
            if not passes:
                continue
            for t in walk_local(f.node):
                if isinstance(t, ast.If) and p in {
                        n.id for n in ast.walk(t.test)
                        if isinstance(n, ast.Name)} and \
                        isinstance(t.test, ast.Compare) and any(
                            isinstance(b, (ast.Raise, ast.Return))
                            for b in t.body):
                    return f'`{p}` is compared with a limit in ' \
                           f'{f.qualname} and passed on as {p}±k'
    return None


def _fallback_bounded(f, pname: str) -> bool:
    """Self-recursion only when parameter ``pname`` is set, and the recursive
    call does not pass it on (it takes its default): depth <= 2."""
    if pname not in f.params():
        return False
    for c in calls_in(f.node, f.name):
        b = {k.arg for k in c.keywords}
        pos = f.params()
        off = 1 if pos[:1] in (['self'], ['cls']) else 0
        idx = pos.index(pname) - off
        if pname in b or len(c.args) > idx:
            return False
    return True


def r63(ctx, cg) -> None:
    R = ctx.rule('R6.3', 'recursion bounds', 8)
    comps = cg.sccs(cg.funcs)
    ctx.extra_coverage['recursion'] = {'cycles': len(comps)}
    for comp in sorted(comps, key=lambda c: sorted(f.fq for f in c)[0]):
        names = sorted(f.qualname for f in comp)
        anchor = sorted(comp, key=lambda f: f.fq)[0]
        key = f'recursion cycle at {anchor.qualname} ({len(comp)} ' \
              f'function(s))'
        if all(f.rel.startswith(OUT_OF_SCOPE) for f in comp):
            R.ok(anchor, anchor.node, key, 'out of scope for C06 (not on a '
                 'client-input path: script evaluation / tooling)')
            continue
        why = _depth_bounded(comp)
        if why:
            R.ok(anchor, anchor.node, key, f'depth-bounded: {why}')
            continue
        if len(comp) == 1 and anchor.qualname in BOUNDED_BY_CONSTRUCTION:
            pn = BOUNDED_BY_CONSTRUCTION[anchor.qualname]
            ok = _fallback_bounded(anchor, pn) if pn != 'value' else any(
                txt(a).endswith('.value') for c in calls_in(
                    anchor.node, '__eq__') for a in c.args)
            if ok:
                R.ok(anchor, anchor.node, key, f'bounded by construction '
                     f'(checked): the recursive call does not pass '
                     f'`{pn}` on, depth <= 2')
                continue
        if all(n in DERIVED for n in names):
            R.ok(anchor, anchor.node, key, f'derived: '
                 f'{DERIVED[anchor.qualname]} (bounded as soon as that '
                 f'root is)')
            continue
        R.fail(anchor, anchor.node, key,
               f'call-graph cycle {names[:5]}{"…" if len(names) > 5 else ""} '
               f'has no depth bound: its depth follows client-controlled '
               f'nesting, so a deep enough input raises RecursionError '
               f'(BYE [SERVERBUG], or the command loop dies)')


# ----------------------------------------------------------------------
def r64(ctx) -> None:
    R = ctx.rule('R6.4', 'every response write in the command loop is '
                 'contained', 3)
    f = ctx.proj.func(IMAP, 'IMAPConnection._run_state')
    loops = [l for l in walk_local(f.node) if isinstance(l, ast.While)]
    if not loops:
        raise AnchorError('_run_state: command loop vanished')
    loop = loops[0]
    writes = [c for c in calls_in(loop, 'write_response')]
    for w in writes:
        arg = txt(w.args[0]) if w.args else ''
        tries = enclosing(f.node, w, (ast.Try,))
        handlers = enclosing(f.node, w, (ast.ExceptHandler,))
        contained = False
        for t in tries:
            if not any(x is w for s in t.body for x in ast.walk(s)):
                continue
            for h in t.handlers:
                ht = txt(h.type) if h.type is not None else 'BaseException'
                if ('Exception' in ht.split('.')[-1:] or
                        ht in ('Exception', 'BaseException')) and any(
                        call_name(c) in ('send_error_disconnect',
                                         'write_response')
                        for s in h.body for c in calls_in(s)):
                    contained = True
        in_handler = bool(handlers)
        key = f'_run_state: write_response({arg}) is under a handler that ' \
              f'says BYE'
        if in_handler and arg in ('resp',):
            # error responses written from inside a handler: their content is
            # server-chosen constant text
            R.ok(f, w, key, 'written from an except handler (server-chosen '
                 'text)')
            continue
        R.check(contained, f, w, key,
                f'`await self.write_response({arg})` is not covered by any '
                f'`except Exception` handler that sends a BYE: fetch values '
                f'are rendered lazily while the response is written, so an '
                f'exception there closes the socket mid-response without '
                f'BYE')
    # nothing is attached to a response after it has been written
    cfg = cfg_of(f)
    wnodes = cfg.find(lambda n: any(call_name(c) == 'write_response'
                                    and c.args and txt(c.args[0]) ==
                                    'response' for c in n.calls()))
    adds = cfg.find(lambda n: any(
        call_name(c) in ('add_untagged', 'add_untagged_ok')
        and txt(c.func.value) == 'response' for c in n.calls()))
    late = []
    for a in adds:
        # reachable from a write without passing the loop head again
        heads = [n for n in cfg.nodes if n.kind == 'test'
                 and n.stmt is loop]
        r = cfg.reach(wnodes, avoid=heads, labels=NORMAL)
        if a in r:
            late.append(a.lineno)
    R.check(not late, f, f.node,
            '_run_state: nothing is added to a response after writing it',
            f'response.add_untagged(...) at line(s) {late} runs after the '
            f'response was written: the "too many errors" BYE is never '
            f'sent and the connection closes silently')
    # ManageSieve: the loop answers every exception from executing a command
    g = ctx.proj.func(SIEVE, 'ManageSieveConnection.run')
    gl = [l for l in walk_local(g.node) if isinstance(l, ast.While)]
    ok = False
    for t in [x for x in walk_local(gl[0])
              if isinstance(x, ast.Try)] if gl else []:
        for h in t.handlers:
            if h.type is not None and txt(h.type) == 'Exception' and any(
                    isinstance(s, ast.Assign) and 'Response(' in txt(s.value)
                    for s in h.body):
                ok = True
    R.check(ok, g, g.node, 'sieve run: `except Exception` answers NO',
            'the ManageSieve loop has no catch-all that answers the client')


def r65(ctx) -> None:
    R = ctx.rule('R6.5', 'bound before allocation', 2)
    ls = ctx.proj.cls(PRIM, 'LiteralString')
    f = ls.own_method('parse')
    cfg = cfg_of(f)
    chk = [t for t in cfg.nodes if t.kind == 'test'
           and '_check_too_big' in txt(t.stmt.test)]
    allocs = cfg.find(lambda n: any(call_name(c) in ('expect',
                                                     'ExpectContinuation')
                                    for c in n.calls())
                      or ('literal_length]' in txt(n.stmt)
                          and n.kind == 'stmt'))
    ok = bool(chk) and bool(allocs)
    for t in chk:
        tb = [m for m, lab in t.succ if lab == 't']
        r = cfg.reach(tb, labels=NORMAL, first_labels=NORMAL,
                      include_starts=True) | set(tb)
        if any(a in r for a in allocs):
            ok = False
    ok = ok and all(cfg.dominated_by(a, chk) for a in allocs)
    R.check(ok, f, f.node, 'LiteralString.parse: size test precedes the '
            'continuation request and the slice',
            'the literal size limit is not tested before the server asks '
            'for / copies the literal: a client can make it buffer '
            'arbitrarily large literals')
    li = ctx.proj.cls(PRIM, 'List')
    g = li.own_method('parse')
    gcfg = cfg_of(g)
    apps = gcfg.find(lambda n: any(call_name(c) == 'append'
                                   for c in n.calls()))
    lim = [t for t in gcfg.nodes if t.kind == 'test'
           and 'limit' in txt(t.stmt.test)]
    ok = bool(apps) and bool(lim) and all(gcfg.dominated_by(a, lim)
                                          for a in apps)
    R.check(ok, g, g.node, 'List.parse: list_limit test precedes append',
            'list items are appended without a preceding list_limit test')
    # sequence-set expansion: every range handed out ends at most at the
    # mailbox's max value ("1:4294967295" must not become 4e9 integers)
    ss = ctx.proj.cls('pymap/parsing/specials/sequenceset.py', 'SequenceSet')
    h = ss.own_method('_get_range')
    if h is None or 'max_value' not in h.params():
        raise AnchorError('SequenceSet._get_range(elem, max_value) vanished')
    hcfg = cfg_of(h)

    def bounded(e, node, depth=0) -> bool:
        """e <= max_value whenever control is at node."""
        if depth > 4:
            return False
        if is_name(e, 'max_value'):
            return True
        if isinstance(e, ast.Call) and call_name(e) == 'min' and \
                not e.keywords and any(bounded(a, node, depth + 1)
                                       for a in e.args):
            return True
        if isinstance(e, ast.Call) and call_name(e) == 'max' and \
                not e.keywords and e.args and all(
                    bounded(a, node, depth + 1) for a in e.args):
            return True
        if isinstance(e, ast.Name):
            # guarded: control-dependent on `e <= max_value`
            for t in hcfg.nodes:
                if not (t.kind == 'test' and isinstance(t.stmt.test,
                                                        ast.Compare)
                        and len(t.stmt.test.ops) == 1):
                    continue
                c_ = t.stmt.test
                l_, r_, op = txt(c_.left), txt(c_.comparators[0]), c_.ops[0]
                # e <= max (true edge)  ==  not (e > max) (false edge), and
                # the mirrored spellings max >= e / not (max < e)
                if (l_, r_) == (e.id, 'max_value'):
                    edge = 't' if isinstance(op, (ast.LtE, ast.Lt)) else (
                        'f' if isinstance(op, (ast.Gt, ast.GtE)) else None)
                elif (l_, r_) == ('max_value', e.id):
                    edge = 't' if isinstance(op, (ast.GtE, ast.Gt)) else (
                        'f' if isinstance(op, (ast.Lt, ast.LtE)) else None)
                else:
                    edge = None
                if edge and hcfg.controlled_by(node, t, edge):
                    return True
            defs = [(st, v) for st, v in local_assigns(h, e.id)
                    if v is not None]
            # tuple unpacking etc. (value None) makes the name unbounded
            if any(v is None for _, v in local_assigns(h, e.id)):
                return False
            return bool(defs) and all(
                bounded(v, hcfg.nodes_of(st)[0] if hcfg.nodes_of(st)
                        else node, depth + 1) for st, v in defs)
        return False
    nr = 0
    for n in hcfg.stmt_nodes():
        if not isinstance(n.stmt, ast.Return) or n.stmt.value is None:
            continue
        v = n.stmt.value
        if not (isinstance(v, ast.Call) and call_name(v) == 'range'):
            continue
        nr += 1
        stop = v.args[1] if len(v.args) >= 2 else v.args[0]
        inner = stop.left if (isinstance(stop, ast.BinOp) and isinstance(
            stop.op, ast.Add) and const_value(stop.right) == (True, 1)) \
            else None
        R.check(inner is not None and bounded(inner, n), h, n.stmt,
                f'_get_range: `{txt(v)}` ends at most at max_value',
                f'the range `{txt(v)}` is not clamped to max_value on '
                f'this path: a sequence set like 1:4294967295 (or "2:1" '
                f'written backwards) is expanded into as many integers as '
                f'the client names — FETCH/SEARCH/STORE with it allocates '
                f'gigabytes or runs for minutes instead of answering')
    if nr < 3:
        raise AnchorError(f'_get_range: only {nr} range returns recognised')


# ----------------------------------------------------------------------
MYPY_CODES = ('arg-type', 'union-attr', 'index')
MYPY_SCOPE = ('pymap/parsing/response/', 'pymap/fetch.py', 'pymap/message.py',
              'pymap/search.py', 'pymap/mime/', 'pymap/imap/',
              'pymap/selected.py', 'pymap/flags.py', 'pymap/backend/'
              'session.py', 'pymap/backend/dict/')
MYPY_BENIGN = (
    # (file suffix, substring of the message) : reason
    ('imap/__init__.py', '"bytearray"', 'bytearray is bytes-like for the '
     'debug printer'),
    ('imap/__init__.py', 'memoryview', 'memoryview item typing'),
)


def _mypy_errors(ctx) -> list[dict] | None:
    digest = ctx.proj.digest()
    cache = os.path.join(VERIF, '.cache')
    path = os.path.join(cache, f'mypy-{digest[:24]}.json')
    if os.path.exists(path):
        try:
            return json.load(open(path))
        except Exception:
            pass
    helper = os.path.join(VERIF, 'sa', 'mypy_helper.py')
    try:
        pr = subprocess.run([sys.executable, helper, ctx.proj.root],
                            capture_output=True, text=True, timeout=240)
        data = json.loads(pr.stdout.strip().splitlines()[-1])
    except Exception as exc:
        ctx.notes.append(f'R6.6: mypy unavailable ({exc})')
        return None
    if not os.environ.get('SA_NO_CACHE_WRITE'):
        try:
            os.makedirs(cache, exist_ok=True)
            json.dump(data, open(path, 'w'))
        except OSError:
            pass
    return data


def r66(ctx) -> None:
    R = ctx.rule('R6.6', 'None-flow (mypy arg-type / union-attr / index)', 1)
    errs = _mypy_errors(ctx)
    if errs is None:
        R.undecided(None, None, 'mypy None-flow codes in command-reachable '
                    'modules', 'mypy could not be run in this environment')
        return
    n = 0
    for e in errs:
        if e['code'] not in MYPY_CODES:
            continue
        if not e['file'].startswith(MYPY_SCOPE):
            continue
        if 'None' not in e['message'] and 'Optional' not in e['message']:
            continue
        benign = next((r for suf, sub, r in MYPY_BENIGN
                       if e['file'].endswith(suf) and sub in e['message']),
                      None)
        n += 1
        st = Site(e['file'], e['line'], '')
        key = f'{e["file"]}: [{e["code"]}] {e["message"][:80]}'
        if benign:
            R.ok(st, None, key, f'triaged benign: {benign}')
        else:
            R.fail(st, None, key,
                   f'mypy [{e["code"]}]: {e["message"]} — a value that can '
                   f'be None reaches a place that needs a value: hostile '
                   f'message content (e.g. an unparseable Date header with '
                   f'FETCH ENVELOPE) raises while the response is written')
    R.ok(None, None, 'mypy None-flow scan completed',
         f'{len(errs)} diagnostics read, {n} None-flow in scope')


# ----------------------------------------------------------------------
EXEC_ROOT_MODS = ('pymap/message.py', 'pymap/mime/', 'pymap/search.py',
                  'pymap/fetch.py', 'pymap/parsing/response/',
                  'pymap/threads.py', 'pymap/listtree.py', 'pymap/flags.py',
                  'pymap/selected.py')
SERIALISE_MODS = ('pymap/parsing/primitives.py',
                  'pymap/bytes/')
EXEC_INVARIANTS = {
    # origin qualname, what -> reason (each is a documented/checked invariant)
    ('DynamicLoadedFetchValue._get_data', 'raise RuntimeError'):
        'section is None only for attributes that never reach _get_data '
        '(BODY without section returns the structure)',
    ('DynamicLoadedFetchValue._get_data', 'raise ValueError'):
        'specifier set is closed: FetchAttribute._parse_section admits '
        'only MIME/HEADER/TEXT/HEADER.FIELDS(.NOT)',
    ('MessageAttributes._get', 'raise KeyError'):
        'attribute names accepted by FetchAttribute.parse = keys of '
        '_simple_attrs + _loaded_attrs (checked below)',
    ('DateSearchCriteria.matches', 'raise ValueError'):
        'operator strings are those SearchCriteria.of passes (C13 R13.2)',
    ('SizeSearchCriteria.matches', 'raise ValueError'):
        'operator strings are those SearchCriteria.of passes (C13 R13.2)',
    ('EnvelopeSearchCriteria.matches', 'raise ValueError'):
        'keys are those SearchCriteria.of passes',
    ('ListTree.get_renames', 'zip(strict=True)'):
        'both iterators walk the same sub-tree',
    ('CopyUid.__init__', 'zip(strict=True)'):
        'zip(*pairs) of 2-tuples',
    ('MessageHeader._to_bytes', 'b64decode'):
        'decodes keys produced by _to_str (base64 of the header name)',
    ('FlagOp.__bytes__', "bytes(x, 'ascii')"):
        'enum member name (ASCII identifier)',
    ('ParsedHeaders.__contains__', 'raise TypeError'): 'API misuse only',
    ('ResponseCode.__bytes__', 'raise NotImplementedError'): 'abstract',
    ('UntaggedResponse.merge_key', 'raise TypeError'):
        'caught by CommandResponse.add_untagged',
    ('UntaggedResponse.merge', 'raise TypeError'): 'never called when '
        'merge_key raises',
    ('BodyStructure._value', 'raise NotImplementedError'): 'abstract',
    ('BodyStructure.extended', 'raise NotImplementedError'): 'abstract',
    ('FetchResponse.merge', 'raise ValueError'):
        'merge key is the sequence number',
    ('BaseLoadedMessage._get_subpart', 'raise IndexError'):
        'caught by every get_* caller',
    ('BaseLoadedMessage.content', 'raise _NoContent'):
        'caught by every get_* caller',
    ('BytesFormat.__mod__', 'raise NotImplementedError'):
        'type-dispatch fall-through (operand neither bytes-like nor '
        'iterable): static type of the operand, not client data',
    ('BytesFormat._fix_join_arg', ".encode('ascii')"):
        'str() of a numbers.Number (isinstance-guarded) is ASCII',
    ('String.build', 'raise TypeError'):
        'type-dispatch fall-through of the isinstance chain on `value`',
    ('String.__bytes__', 'raise NotImplementedError'):
        'abstract: QuotedString and LiteralString override (checked below)',
}


def r67(ctx, cg) -> None:
    R = ctx.rule('R6.7', 'execution-time containment on the fetch/search '
                 'path', 10)
    funcs = [f for f in cg.funcs if f.rel.startswith(EXEC_ROOT_MODS)]
    # the serialisation side of the wire objects a response is made of
    # (String.build, __bytes__, write ...): everything but the parsers
    funcs += [f for f in cg.funcs if f.rel.startswith(SERIALISE_MODS)
              and not f.name.startswith(('parse', '_parse'))
              and 'parse' not in f.name]
    es = Escapes(ctx.proj, cg)
    reach = cg.reachable(funcs)
    es.solve(reach)
    seen = set()
    for f in funcs:
        for e in es.local(f):
            k = (e.origin, e.what)
            if k in seen:
                continue
            seen.add(k)
            if es.is_sub(None, e.exc, 'ResponseError'):
                continue
            origin = e.origin.split('::')[1]
            st = Site(e.origin.split('::')[0], e.line, origin)
            key = f'{origin}: {e.what} -> {e.exc}'
            reason = EXEC_INVARIANTS.get((origin, e.what))
            if reason is not None:
                R.ok(st, None, key, f'invariant: {reason}')
            else:
                R.fail(st, None, key,
                       f'{e.exc} can be raised at {e.origin}:{e.line} '
                       f'({e.what}) while a FETCH/SEARCH is evaluated or '
                       f'its response is written; it is not a '
                       f'ResponseError, so the client gets * BYE '
                       f'[SERVERBUG] instead of a tagged NO')
    # the facts two of the serialisation invariants rest on
    prim = ctx.proj.module(PRIM)
    for cn in ('QuotedString', 'LiteralString'):
        c = prim.classes.get(cn)
        R.check(c is not None and c.own_method('__bytes__') is not None,
                None, getattr(c, 'node', None),
                f'{cn} overrides String.__bytes__',
                f'{cn} inherits the abstract String.__bytes__ (raises '
                f'NotImplementedError when a response is written)')
    fj = ctx.proj.cls('pymap/bytes/__init__.py',
                      'BytesFormat').own_method('_fix_join_arg')
    okj = False
    if fj is not None:
        fcfg = cfg_of(fj)
        for c in calls_in(fj.node, 'encode'):
            for nd in fcfg.node_containing(c):
                for t in fcfg.nodes:
                    if t.kind == 'test' and 'isinstance(data, Number)' in \
                            txt(t.stmt.test) and fcfg.controlled_by(nd, t,
                                                                    't') \
                            and txt(c.func.value) == 'str(data)':
                        okj = True
    R.check(okj, fj, getattr(fj, 'node', None),
            '_fix_join_arg encodes str(<Number>) only',
            '.encode(\'ascii\') is applied to something other than '
            'str(data) under isinstance(data, Number)')
    # the fact the KeyError invariant rests on
    fa = ctx.proj.cls('pymap/parsing/specials/fetchattr.py', 'FetchAttribute')
    p = fa.own_method('parse')
    accepted: set[bytes] = set()
    for t in walk_local(p.node):
        if isinstance(t, ast.Compare) and txt(t.left) == 'attr':
            for c in t.comparators:
                ok, v = const_value(c)
                if ok:
                    accepted |= set(v) if isinstance(v, tuple) else {v}
    ma = ctx.proj.cls('pymap/fetch.py', 'MessageAttributes')
    keys: set[bytes] = set()
    for nm in ('_simple_attrs', '_loaded_attrs'):
        a = ma.find_attr(nm)
        if a is not None and isinstance(a[1], ast.Dict):
            for k in a[1].keys:
                ok, v = const_value(k)
                if ok:
                    keys.add(v)
    R.check(bool(accepted) and accepted <= keys, p, p.node,
            'every attribute FetchAttribute.parse accepts has a fetch value '
            'class', f'accepted but not dispatched: '
            f'{sorted(accepted - keys)}: FETCH of it raises KeyError')


# ----------------------------------------------------------------------
def _is_lock_call(e) -> bool:
    return isinstance(e, ast.Call) and call_name(e) in ('read_lock',
                                                        'write_lock') and \
        isinstance(e.func, ast.Attribute) and \
        isinstance(e.func.value, ast.Attribute) and \
        isinstance(e.func.value.value, ast.Name)


def r68(ctx) -> None:
    R = ctx.rule('R6.8', 'no self-deadlock on a non-reentrant lock', 2)
    n = 0
    for f in ctx.proj.all_funcs('pymap/backend/'):
        if f.rel.startswith('pymap/backend/redis/') or f.cls is None:
            continue
        if 'write_lock' not in f.module.src:
            continue
        # parameters that may alias self: annotated with the own class
        aliases = []
        a = f.node.args
        for p in a.posonlyargs + a.args + a.kwonlyargs:
            if p.arg in ('self', 'cls') or p.annotation is None:
                continue
            t = txt(p.annotation).strip('"\'')
            if t.split('[')[0].split('.')[-1] in (f.cls.name, 'MailboxDataT',
                                                  'Self'):
                aliases.append(p.arg)
        if not aliases:
            continue
        # acquisitions: (receiver, lock attr, kind, syntax node, scope node)
        acqs = []
        for w in walk_local(f.node):
            if isinstance(w, ast.AsyncWith):
                for it in w.items:
                    e = it.context_expr
                    if _is_lock_call(e):
                        acqs.append((e.func.value.value.id,
                                     e.func.value.attr.lstrip('_'),
                                     call_name(e), e, w))
            elif isinstance(w, ast.Call) and \
                    call_name(w) == 'enter_async_context' and w.args and \
                    _is_lock_call(w.args[0]):
                e = w.args[0]
                scope = next(iter(enclosing(f.node, w, (ast.AsyncWith,))),
                             f.node)
                acqs.append((e.func.value.value.id,
                             e.func.value.attr.lstrip('_'), call_name(e), e,
                             scope))

        def active_with(a, b) -> bool:
            """b is acquired while a is still held."""
            sa, sb = a[4], b[4]
            if sa is sb:
                return True
            return any(x is sb for x in ast.walk(sa)) or \
                any(x is b[3] for x in ast.walk(sa))
        for al in aliases:
            for a in acqs:
                if a[0] != 'self':
                    continue
                for b in acqs:
                    if b[0] != al or b[1] != a[1]:
                        continue
                    if 'write_lock' not in (a[2], b[2]):
                        continue
                    if not (active_with(a, b) or active_with(b, a)):
                        continue
                    n += 1
                    la = a[1]
                    guarded = False
                    for node in (a[3], b[3]):
                        for t in enclosing(f.node, node, (ast.If,)):
                            s_ = txt(t.test).replace(' ', '')
                            if s_ in (f'{al}isnotself', f'selfisnot{al}',
                                      f'{al}!=self') and any(
                                    x is node for bb in t.body
                                    for x in ast.walk(bb)):
                                guarded = True
                    R.check(guarded, f, b[3],
                            f'{f.qualname}: self.{la} and {al}.{la} are '
                            f'not held together unless `{al} is not self`',
                            f'`{al}` may be the same object as `self` '
                            f'(both come from the per-session mailbox '
                            f'cache) and both `{la}` locks are held '
                            f'together; the lock is not reentrant, so a '
                            f'command whose destination is the selected '
                            f'mailbox itself (MOVE 1 INBOX with INBOX '
                            f'selected) waits for itself forever and is '
                            f'never answered')
    R.ok(None, None, 'nested same-class lock acquisitions scanned',
         f'{n} site(s) where self and an alias parameter are locked '
         f'together')
    R.minimum = 1


# ----------------------------------------------------------------------
def r69(ctx) -> None:
    R = ctx.rule('R6.9', 'a continuation request (ParsingInterrupt) is raised '
                 'only where the front end handles it', 4)
    # 1. every expect() (the only raiser of ParsingInterrupt) is controlled
    #    by params.allow_continuations
    n_exp = 0
    for f in ctx.proj.all_funcs('pymap/parsing/'):
        if f.rel.endswith('parsing/state.py'):
            continue
        cs = [c for c in calls_in(f.node, 'expect')]
        if not cs:
            continue
        cfg = cfg_of(f)
        for c in cs:
            n_exp += 1
            ok = False
            for n in cfg.node_containing(c):
                if runs_only_when(cfg, n, 'params.allow_continuations',
                                  True):
                    ok = True
            R.check(ok, f, c, f'{f.qualname}: expect() only under '
                    f'params.allow_continuations',
                    'a continuation is requested (ParsingInterrupt raised) '
                    'without testing params.allow_continuations: front ends '
                    'that cannot answer it (ManageSieve) crash on "{5}"')
    if not n_exp:
        raise AnchorError('no expect() call found in pymap/parsing')
    # 2. Params.copy keeps an explicit falsy override
    P = ctx.proj.cls('pymap/parsing/__init__.py', 'Params')
    sin = P.own_method('_set_if_none')
    cp = P.own_method('copy')
    if cp is None:
        raise AnchorError('Params.copy vanished')
    holders = [sin] if sin is not None else [cp]
    for f in holders:
        bad = []
        for t in walk_local(f.node):
            if isinstance(t, ast.BoolOp) and isinstance(t.op, ast.Or) and \
                    any('getattr' in txt(v) or txt(v).startswith('self.')
                        for v in t.values[1:]):
                bad.append(t.lineno)
            test = t.test if isinstance(t, (ast.If, ast.IfExp)) else None
            if test is not None:
                # a bare truth test of a parameter (guard_atoms folds
                # `x is not None` and `x` together, so look at the syntax)
                for a in ast.walk(test):
                    if isinstance(a, ast.Compare):
                        break
                else:
                    if any(isinstance(a, ast.Name) and a.id in f.params()
                           and a.id != 'self' for a in ast.walk(test)):
                        bad.append(t.lineno)
        R.check(not bad, f, f.node,
                f'{f.qualname}: an override is taken whenever it is not None',
                f'line(s) {bad}: the override is tested for truth, not for '
                f'`is not None`, so copy(allow_continuations=False) (or '
                f'uid=False) silently keeps the old True: ManageSieve then '
                f'parses "{{5}}" as a synchronizing literal and the '
                f'ParsingInterrupt escapes its command loop (connection '
                f'dies instead of answering NO)')
    # 3. the sieve front end switches continuations off, with a constant
    conn = ctx.proj.cls('pymap/sieve/manage/__init__.py',
                        'ManageSieveConnection')
    found = False
    for fs in conn.methods.values():
        for f in fs:
            for s_ in walk_local(f.node):
                if isinstance(s_, ast.Assign) and any(
                        txt(t) == 'self.params' for t in s_.targets):
                    found = True
                    v = s_.value
                    kw = {k.arg: k.value for k in v.keywords} \
                        if isinstance(v, ast.Call) else {}
                    R.check(const_value(kw.get('allow_continuations'))
                            == (True, False), f, s_,
                            'ManageSieve parses with '
                            'allow_continuations=False',
                            'the ManageSieve connection parses with '
                            'continuations allowed, but its command loop has '
                            'no handler for ParsingInterrupt')
    if not found:
        raise AnchorError('ManageSieveConnection.params assignment vanished')
    # 4. ... and every parse in the sieve front end uses those params
    n_use = 0
    for fs in conn.methods.values():
        for f in fs:
            for c in calls_in(f.node, 'parse'):
                if len(c.args) >= 2:
                    n_use += 1
                    R.check(txt(c.args[1]) == 'self.params', f, c,
                            f'{f.qualname}: parse(..., self.params)',
                            f'a sieve parser is called with {txt(c.args[1])} '
                            f'instead of the connection\'s params')
    if not n_use:
        raise AnchorError('no parse() call in ManageSieveConnection')


# ----------------------------------------------------------------------
def r610(ctx) -> None:
    R = ctx.rule('R6.10', 'stream-collecting loops test the line just read '
                 '(EOF and {n+} marker)', 4)
    for rel, cn, meth in (('pymap/imap/__init__.py', 'IMAPConnection',
                           'readline'),
                          ('pymap/sieve/manage/__init__.py',
                           'ManageSieveConnection', '_read_data')):
        f = ctx.proj.cls(rel, cn).own_method(meth)
        if f is None:
            raise AnchorError(f'{cn}.{meth} vanished')
        cfg = cfg_of(f)
        reads = []
        for n in cfg.stmt_nodes():
            for c in n.calls():
                if call_name(c) == 'readline' and \
                        txt(c.func.value).endswith('reader'):
                    reads.append((n, c))
        if not reads:
            raise AnchorError(f'{cn}.{meth}: no reader.readline()')
        fresh_names = set()
        for n, c in reads:
            # the read is bound to a fresh name: `line = await r.readline()`
            st = n.stmt
            val = st.value if isinstance(st, ast.Assign) else None
            while isinstance(val, ast.Call) and call_name(val) in (
                    'bytearray', 'bytes', 'memoryview') and val.args:
                val = val.args[0]
            fresh = isinstance(st, ast.Assign) and len(st.targets) == 1 \
                and isinstance(st.targets[0], ast.Name) \
                and strip_await(val) is c
            name = st.targets[0].id if fresh else None
            ok = False
            why = ('the result of reader.readline() is merged into the '
                   'accumulated buffer before it is tested')
            if fresh:
                fresh_names.add(name)
                # an EOF test on that name, raising/returning, dominates
                # every continuation of the loop from this read
                tests = [t for t in cfg.nodes if t.kind == 'test' and any(
                    isinstance(x, ast.Call) and call_name(x) == 'endswith'
                    and is_name(x.func.value, name)
                    for x in ast.walk(t.stmt.test))
                    or (t.kind == 'test' and guard_atoms(t.stmt.test)
                        == [(name, False)])]
                exits = []

                def still_fresh(t):
                    # no other write of the name between the read and t
                    for m in cfg.between([n], [t]):
                        if m is n or m.kind != 'stmt':
                            continue
                        if any(isinstance(x, ast.Name) and x.id == name
                               for x in targets_of(m.stmt)):
                            return False
                    return True
                for t in tests:
                    if not still_fresh(t):
                        continue
                    pol = guard_atoms(t.stmt.test)
                    eof_lab = 't' if pol and not pol[0][1] else 'f'
                    for m, lab in t.succ:
                        if lab == eof_lab and isinstance(
                                m.stmt, (ast.Raise, ast.Return, ast.Break)):
                            exits.append(t)
                # from the read, the next read (or the same one again) is
                # not reachable without passing such a test
                nxt = cfg.reach([n], avoid=exits, labels=NORMAL)
                again = [m for m, _ in reads if m in nxt]
                ok = bool(exits) and not again
                why = ('no EOF test (`not line.endswith(b"\\n")` -> raise) '
                       'on the line just read lies between this read and '
                       'the next one')
            R.check(ok, f, c, f'{cn}.{meth}: EOF is tested on the line just '
                    f'read (read #{reads.index((n, c)) + 1})',
                    f'{why}: at EOF readline() returns b"" WITHOUT '
                    f'suspending, the accumulated buffer still ends in '
                    f'"{{0+}}\\r\\n", and the loop neither ends nor yields — '
                    f'`a {{0+}}` + disconnect hangs the whole server '
                    f'process')
        # the marker's digit run is short enough for int()
        pa = ctx.proj.cls(rel, cn).find_attr('_literal_plus')
        okw = False
        if pa and isinstance(pa[1], ast.Call) and pa[1].args:
            c2, src = const_value(pa[1].args[0])
            okw = c2 and _short(src, 1)
        ints = [c for c in calls_in(f.node, 'int')]
        guarded = all(any(any(txt(h.type or '') .endswith('ValueError')
                              or h.type is None for h in t.handlers)
                          for t in enclosing(f.node, c, (ast.Try,)))
                      for c in ints)
        R.check(okw or (bool(ints) and guarded), f, f.node,
                f'{cn}.{meth}: the {{n+}} length converts without error',
                f'the marker pattern admits an unbounded digit run and the '
                f'int() conversion is not guarded: "{{" + 5000 digits + '
                f'"+}}" raises ValueError (CPython converts at most '
                f'{INT_DIGITS} digits) inside the read loop, outside any '
                f'command — the connection ends with an internal error')
        # the {n+} marker is searched in the fresh line, not in the buffer
        for c in calls_in(f.node):
            if call_name(c) in ('search', 'match', 'fullmatch') and \
                    '_literal_plus' in txt(c.func.value):
                arg = c.args[0] if c.args else None
                R.check(isinstance(arg, ast.Name) and arg.id in fresh_names,
                        f, c, f'{cn}.{meth}: the {{n+}} marker is looked '
                        f'for in the line just read',
                        f'the marker is searched in `{txt(arg)}`, which '
                        f'includes literal data already read: a literal '
                        f'whose content ends in "{{9+}}" before the CRLF is '
                        f'taken for another marker and swallows the next 9 '
                        f'bytes of the stream (framing depends on literal '
                        f'content)')


# ----------------------------------------------------------------------
RE_FUNCS = ('compile', 'search', 'match', 'fullmatch', 'sub', 'subn', 'split',
            'finditer', 'findall')


def r611(ctx) -> None:
    R = ctx.rule('R6.11', 'regular expressions built at run time contain '
                 'client text only through re.escape', 2)
    proj = ctx.proj

    def attr_safe(f, e, depth) -> bool:
        # self._x / cls._x : every writer assigns a safe expression
        if not (isinstance(e, ast.Attribute) and isinstance(e.value, ast.Name)
                and e.value.id in ('self', 'cls') and f.cls is not None):
            return False
        a = f.cls.find_attr(e.attr)
        if a is not None:
            return safe(f, a[1], depth + 1) if a[1] is not None else False
        ws = [(g, s_) for g, s_, t, rel in writers_of(proj, e.attr)
              if g is not None and g.cls is f.cls]
        return bool(ws) and all(
            safe(g, getattr(s_, 'value', None), depth + 1) for g, s_ in ws)

    def list_safe(f, name: str, depth) -> bool:
        # a local list whose every element is safe: [] + .append(safe)
        defs = [v for _, v in local_assigns(f, name)]
        if not defs or not all(isinstance(v, ast.List) and all(
                safe(f, x, depth + 1) for x in v.elts) for v in defs):
            return False
        for c in calls_in(f.node):
            if isinstance(c.func, ast.Attribute) and is_name(c.func.value,
                                                             name):
                if c.func.attr == 'append' and c.args and \
                        safe(f, c.args[0], depth + 1):
                    continue
                if c.func.attr in ('append', 'extend', 'insert'):
                    return False
        return True

    def safe(f, e, depth=0) -> bool:
        if e is None or depth > 14:
            return False
        if isinstance(e, ast.Constant) and isinstance(e.value, (str, bytes)):
            return True
        if isinstance(e, ast.Call) and call_name(e) == 'escape':
            return True
        if isinstance(e, ast.BinOp) and isinstance(e.op, ast.Add):
            return safe(f, e.left, depth + 1) and safe(f, e.right, depth + 1)
        if isinstance(e, ast.JoinedStr):
            return all(isinstance(v, ast.Constant) or (
                isinstance(v, ast.FormattedValue)
                and safe(f, v.value, depth + 1)) for v in e.values)
        if isinstance(e, ast.Call) and call_name(e) == 'join' and \
                isinstance(e.func, ast.Attribute) and \
                isinstance(e.func.value, ast.Constant) and e.args:
            a = e.args[0]
            if isinstance(a, ast.Name):
                return list_safe(f, a.id, depth)
            if isinstance(a, (ast.ListComp, ast.GeneratorExp)):
                return safe(f, a.elt, depth + 1)
            return False
        if isinstance(e, ast.Attribute):
            return attr_safe(f, e, depth)
        if isinstance(e, ast.Name):
            if e.id in f.params():
                # one level up: every call site passes a safe expression
                sites = []
                for g in proj.all_funcs('pymap/'):
                    if f.name not in g.module.src:
                        continue
                    for c in calls_in(g.node, f.name):
                        b = bind_args(f, c)
                        if e.id in b:
                            sites.append((g, b[e.id]))
                return bool(sites) and depth < 3 and all(
                    safe(g, a, depth + 3) for g, a in sites)
            key = (id(f.node), e.id)
            if key in visiting:
                return True      # x = c + x + c: safe if the other defs are
            visiting.add(key)
            try:
                defs = [v for _, v in local_assigns(f, e.id)]
                return bool(defs) and all(
                    v is not None and safe(f, v, depth + 1) for v in defs)
            finally:
                visiting.discard(key)
        return False
    visiting: set = set()
    n = 0
    for f in proj.all_funcs('pymap/'):
        if f.rel.startswith(('pymap/admin/', 'pymap/backend/redis/')):
            continue
        if 're.' not in f.module.src:
            continue
        for c in calls_in(f.node):
            if call_name(c) not in RE_FUNCS or not isinstance(
                    c.func, ast.Attribute) or txt(c.func.value) != 're' \
                    or not c.args:
                continue
            pat = c.args[0]
            if isinstance(pat, ast.Constant):
                continue
            n += 1
            R.check(safe(f, pat), f, c,
                    f'{f.qualname}: re.{call_name(c)}({txt(pat)[:30]}, …) '
                    f'pattern is constants + re.escape() only',
                    f'the pattern `{txt(pat)}` of re.{call_name(c)}() can '
                    f'contain text that did not pass re.escape(): a search '
                    f'string / mailbox pattern with regex metacharacters '
                    f'raises re.error (SEARCH SUBJECT "(draft" -> * BYE '
                    f'[SERVERBUG]) or backtracks exponentially (SEARCH '
                    f'SUBJECT "(a+)+$" stalls the single event loop for '
                    f'every connection)')
    if n < 2:
        raise AnchorError(f'only {n} run-time regex construction(s) found')


# ----------------------------------------------------------------------
def _unbounded(const) -> bool:
    """The regex fragment contains a quantifier without upper bound."""
    import re._parser as sp           # stdlib regex AST
    import re._constants as sc
    try:
        tree = sp.parse(const)
    except Exception:
        return False

    def walk(t) -> bool:
        for op, av in t:
            if op in (sc.MAX_REPEAT, sc.MIN_REPEAT,
                      getattr(sc, 'POSSESSIVE_REPEAT', None)):
                lo, hi, sub = av
                if hi == sc.MAXREPEAT or walk(sub):
                    return True
            elif op is sc.SUBPATTERN:
                if walk(av[3]):
                    return True
            elif op is sc.BRANCH:
                if any(walk(b) for b in av[1]):
                    return True
        return False
    return walk(tree)


def amplified_patterns(fnode) -> list:
    """re.compile(...) in fnode whose pattern is joined from a list that
    receives, inside a loop, a constant with an unbounded quantifier: the
    NUMBER of unbounded quantifiers is chosen by whoever supplies the looped
    input, and a failing match costs O(n^k)."""
    out = []
    loops = [x for x in ast.walk(fnode) if isinstance(x, (ast.For, ast.While))]
    amplified = set()
    for lp in loops:
        for c in ast.walk(lp):
            if isinstance(c, ast.Call) and isinstance(c.func, ast.Attribute) \
                    and c.func.attr in ('append', 'extend') and c.args and \
                    isinstance(c.func.value, ast.Name):
                a = c.args[0]
                if isinstance(a, ast.Constant) and isinstance(
                        a.value, (str, bytes)) and _unbounded(a.value):
                    amplified.add(c.func.value.id)
    if not amplified:
        return out
    joined = set()
    for s_ in ast.walk(fnode):
        if isinstance(s_, ast.Assign) and len(s_.targets) == 1 and \
                isinstance(s_.targets[0], ast.Name):
            for x in ast.walk(s_.value):
                if isinstance(x, ast.Call) and call_name(x) == 'join' and \
                        x.args and isinstance(x.args[0], ast.Name) and \
                        x.args[0].id in amplified:
                    joined.add(s_.targets[0].id)
    for c in ast.walk(fnode):
        if isinstance(c, ast.Call) and call_name(c) in RE_FUNCS and \
                isinstance(c.func, ast.Attribute) and \
                txt(c.func.value) == 're' and c.args:
            names = {x.id for x in ast.walk(c.args[0])
                     if isinstance(x, ast.Name)}
            if names & (joined | amplified):
                out.append(c)
    return out


def r612(ctx) -> None:
    R = ctx.rule('R6.12', 'the number of unbounded regex quantifiers is not '
                 'chosen by the client', 1)
    n = 0
    for f in ctx.proj.all_funcs('pymap/'):
        # sieve tests run at delivery time through the admin service only
        # (no IMAP / ManageSieve command executes a script): out of scope
        if f.rel.startswith(('pymap/admin/', 'pymap/backend/redis/',
                             'pymap/sieve/tests.py')):
            continue
        if 're.' not in f.module.src:
            continue
        n += 1
        for c in amplified_patterns(f.node):
            R.fail(f, c, f'{f.qualname}: one unbounded quantifier per client '
                   f'wildcard',
                   f'`{txt(c)[:60]}` compiles a pattern with one unbounded '
                   f'(lazy) quantifier per wildcard of the client\'s query: '
                   f'when it does not match, the backtracking engine tries '
                   f'every distribution of the name over the k wildcards '
                   f'(O(n^k)): LIST "" "*a*a*a*a*a*a*a*a*b" against a '
                   f'mailbox named "a"*60 blocks the event loop for minutes')
    R.ok(None, None, f'{n} functions in regex-using modules scanned',
         'no client-amplified quantifier')
    import os
    from ..report import VERIF
    fx = os.path.join(VERIF, 'fixtures', 'r612_positive.py')
    tree = ast.parse(open(fx).read())
    hits = sum(len(amplified_patterns(x)) for x in ast.walk(tree)
               if isinstance(x, ast.FunctionDef))
    R.check(hits == 1, None, None, 'positive fixture still matches',
            f'fixtures/r612_positive.py: {hits} hit(s), expected 1')


# ----------------------------------------------------------------------
# Third-party (pysasl) entry points that are handed client-chosen data and
# raise ValueError on it.  Frozen from reading pysasl 1.x:
#   ServerMechanism.server_attempt  -- decodes the response as UTF-8
#   saslprep (config.password_prep) -- raises ValueError(source) for a code
#                                      point of a prohibited table
def _handles_value_error(f, node, proj) -> bool:
    for t in enclosing(f.node, node, (ast.Try,)):
        if not any(node is x for b in t.body for x in ast.walk(b)):
            continue
        for h in t.handlers:
            names = ['BaseException'] if h.type is None else (
                [txt(e).split('.')[-1] for e in h.type.elts]
                if isinstance(h.type, ast.Tuple)
                else [txt(h.type).split('.')[-1]])
            if {'ValueError', 'Exception', 'BaseException',
                    'UnicodeError'} & set(names):
                return True
    return False


def r613(ctx) -> None:
    R = ctx.rule('R6.13', 'third-party SASL code is handed client data only '
                 'under a ValueError handler', 4)
    proj = ctx.proj
    n = 0
    for f in proj.all_funcs('pymap/'):
        if f.rel.startswith(('pymap/admin/', 'pymap/backend/redis/')):
            continue
        for c in calls_in(f.node, 'server_attempt'):
            n += 1
            ok = _handles_value_error(f, c, proj)
            how = 'handled locally'
            if not ok:
                # handled by every caller of this function?
                sites = [(g, x) for g in proj.all_funcs('pymap/')
                         if f.name in g.module.src
                         for x in calls_in(g.node, f.name)]
                ok = bool(sites) and all(_handles_value_error(g, x, proj)
                                         for g, x in sites)
                how = f'handled at all {len(sites)} call site(s)'
            R.check(ok, f, c, f'{f.qualname}: mech.server_attempt() under a '
                    f'ValueError handler',
                    'the mechanism decodes the client\'s response as UTF-8; '
                    'UnicodeDecodeError (a ValueError) is not an '
                    'AuthenticationError and nothing here handles it: '
                    'AUTHENTICATE PLAIN + base64 of b"\\x00\\xff\\xfe\\x00x" '
                    '-> * BYE [SERVERBUG]', how)
        # prepare = <...>.password_prep ; prepare(<client value>)
        aliases = {t.id for s_ in walk_local(f.node)
                   if isinstance(s_, ast.Assign) and isinstance(
                       s_.value, ast.Attribute)
                   and s_.value.attr == 'password_prep'
                   for t in s_.targets if isinstance(t, ast.Name)}
        for c in calls_in(f.node):
            direct = isinstance(c.func, ast.Attribute) and \
                c.func.attr == 'password_prep'
            if not (direct or (isinstance(c.func, ast.Name)
                               and c.func.id in aliases)) or not c.args:
                continue
            a = c.args[0]
            client = (isinstance(a, ast.Name) and a.id in f.params()) or \
                txt(a) == 'self.authcid'
            if not client:
                continue
            if f.name in ('_hash_password', 'hash_password'):
                # provisioning: every caller is the admin service or the
                # demo-data loader (checked), never a login
                callers = [g.rel for g in proj.all_funcs('pymap/')
                           if 'hash_password' in g.module.src
                           and g.cls is not f.cls
                           for x in calls_in(g.node, 'hash_password')]
                if callers and all(r.startswith('pymap/admin/') or
                                   r == 'pymap/backend/dict/__init__.py'
                                   for r in callers):
                    continue
            n += 1
            R.check(_handles_value_error(f, c, proj), f, c,
                    f'{f.qualname}: string preparation of `{txt(a)}` under '
                    f'a ValueError handler',
                    f'`{txt(c)}` applies SASLprep to a value the client '
                    f'chose; a prohibited code point (a control character, '
                    f'a lone surrogate from 8-bit input) raises ValueError, '
                    f'which is not handled on the login path: LOGIN '
                    f'"\\xff" "\\xfe" -> * BYE [SERVERBUG]')
    if n < 4:
        raise AnchorError(f'only {n} third-party SASL call(s) with client '
                          f'data found')


# ----------------------------------------------------------------------
IMAP_CONN = 'pymap/imap/__init__.py'


def _handler_types(f, call_name_: str) -> set[str]:
    """Exception classes named by the non-generic handlers of the try
    statement(s) of `f` whose body contains a call of `call_name_`."""
    out: set[str] = set()
    for t in walk_local(f.node):
        if not isinstance(t, ast.Try):
            continue
        if not any(call_name(c) == call_name_ for st in t.body
                   for c in calls_in(st)):
            continue
        for h in t.handlers:
            if h.type is None:
                continue
            for nm in handler_names(f, h.type):
                if nm not in ('Exception', 'BaseException'):
                    out.add(nm)
    return out


def r614(ctx, cg) -> None:
    """Between the socket and the parser, and between the parser and the
    command handlers, the connection object runs code of its own on client
    bytes (literal continuation, the IDLE "DONE" line, the SASL exchange).
    Whatever leaves those helpers is answered by the handlers of the command
    loop; anything the loop only knows as `except Exception` is the
    * BYE [SERVERBUG] answer."""
    R = ctx.rule('R6.14', 'exceptions of the connection\'s own I/O helpers '
                 'are answered by a specific handler of the command loop', 6)
    proj = ctx.proj
    loop = proj.func(IMAP_CONN, 'IMAPConnection._run_state')
    roots = {n: proj.try_func(IMAP_CONN, 'IMAPConnection.' + n)
             for n in ('read_command', 'idle', 'authenticate')}
    if any(v is None for v in roots.values()):
        raise AnchorError('IMAPConnection.read_command/idle/authenticate '
                          'vanished')
    allowed = {n: _handler_types(loop, n) for n in roots}
    if not all(allowed.values()):
        raise AnchorError('the command loop no longer calls read_command / '
                          'idle / authenticate under specific handlers')
    cut = [proj.func(CMDS, 'Commands.parse')] + [
        f for n in ('do_command', 'do_authenticate', 'receive_updates',
                    'do_cleanup', 'do_greeting')
        for f in [proj.try_func('pymap/imap/state.py',
                                'ConnectionState.' + n)] if f is not None]
    behind = {id(f.node) for f in cg.reachable(cut)}
    funcs = [f for f in cg.reachable(list(roots.values()))
             if id(f.node) not in behind]
    es = Escapes(proj, cg)
    es.solve(funcs)
    ctx.extra_coverage['connection_helpers'] = {
        'functions': sorted(f.qualname for f in funcs),
        'handled_by_loop': {k: sorted(v) for k, v in allowed.items()}}
    seen = 0
    for name, root in roots.items():
        for e in sorted(es.of(root), key=lambda e: (e.origin, e.line)):
            if e.exc and any(es.is_sub(None, e.exc, a)
                             for a in allowed[name]):
                seen += 1
                continue
            origin = e.origin.split('::')[1]
            rel = e.origin.split('::')[0]
            f = proj.try_func(rel, origin)
            st = Site(rel, e.line, origin)
            key = f'{name}: {origin}: {e.what} -> {e.exc}'
            seen += 1
            reason = _invariant_ok(ctx, cg, es, e) or \
                (_conn_invariant(ctx, es, f, e) if f is not None else None)
            if reason is not None:
                R.ok(st, None, key, f'invariant (checked): {reason}')
            else:
                R.fail(st, None, key,
                       f'{e.exc} from {e.origin}:{e.line} ({e.what}) leaves '
                       f'IMAPConnection.{name} and the command loop has no '
                       f'handler for it except `except Exception`: the '
                       f'client that sent the bytes gets * BYE [SERVERBUG] '
                       f'and is disconnected instead of a tagged BAD/NO '
                       f'(handled there: {sorted(allowed[name])})')
    if seen < 6:
        raise AnchorError(f'only {seen} escaping site(s) of the connection '
                          f'helpers analysed (6 confirmed by hand)')


def _conn_invariant(ctx, es, f, e) -> str | None:
    proj = ctx.proj
    # (i) `raise <local>` that re-raises what an awaited task raised: the
    # task bodies are analysed through their create_task() call sites
    if e.what.startswith('raise ') and f is not None:
        for r in walk_local(f.node):
            if isinstance(r, ast.Raise) and r.lineno == e.line and \
                    isinstance(r.exc, ast.Name):
                bound = {h.name for h in walk_local(f.node)
                         if isinstance(h, ast.ExceptHandler) and h.name}
                defs = local_assigns(f, r.exc.id)
                if defs and all(
                        v is None or const_value(v) == (True, None)
                        or (isinstance(v, ast.Name) and v.id in bound)
                        for _, v in defs):
                    return (f'`{r.exc.id}` is only ever an exception caught '
                            f'from an awaited task, whose body is analysed '
                            f'at its create_task() call site')
    # (ii) raise TypeError(expected) for an expectation that is not a
    # continuation: every concrete expectation is one
    if e.what == 'raise TypeError' and f is not None:
        tests = [c for t in walk_local(f.node) if isinstance(t, ast.If)
                 for c in ast.walk(t.test) if isinstance(c, ast.Call)
                 and call_name(c) == 'isinstance' and len(c.args) == 2]
        for t in tests:
            accepted = {txt(x).split('.')[-1] for x in (
                t.args[1].elts if isinstance(t.args[1], ast.Tuple)
                else [t.args[1]])}
            subs = {c.name for c in proj.subclasses('ParsingExpectation')
                    if c.name != 'ParsingExpectation'}
            built = [c for g in proj.all_funcs('pymap/')
                     for c in calls_in(g.node, 'ParsingInterrupt')]
            if subs and subs <= accepted and built and all(
                    len(c.args) == 1 and txt(c.args[0]) == 'self'
                    for c in built):
                return (f'every ParsingInterrupt carries `self` of a '
                        f'ParsingExpectation and the only concrete '
                        f'expectation(s) {sorted(subs)} are accepted by the '
                        f'isinstance test')
    # (iii) b64decode(<bytes>) raises binascii.Error only, which is caught
    if e.what == 'b64decode' and f is not None:
        for c in calls_in(f.node, 'b64decode'):
            if c.lineno != e.line or not c.args:
                continue
            vals = resolve_local(f, c.args[0])
            ann = {a.arg: txt(a.annotation) for a in f.node.args.args
                   if a.annotation is not None}
            if vals and all(
                    (isinstance(v, ast.Call) and call_name(v) == 'bytes')
                    or (isinstance(v, ast.Name) and ann.get(v.id) == 'bytes')
                    for v in vals) and es.caught(f, c, 'Error'):
                return ('b64decode of a bytes object raises binascii.Error '
                        'only, and the call is under `except binascii.Error`')
    # (iv) `if not P.match(buf): raise` where P matches every string that
    # contains a line feed, and buf is a line that was read up to its LF
    if e.what.startswith('raise ') and f is not None and f.cls is not None:
        cfg = cfg_of(f)
        for n in cfg.find(lambda n: isinstance(n.stmt, ast.Raise)
                          and n.stmt.lineno == e.line):
            for t in [t for t in cfg.nodes if t.kind == 'test'
                      and cfg.controlled_by(n, t, 't')]:
                at = guard_atoms(t.stmt.test)
                if len(at) != 1 or at[0][1]:
                    continue
                for v in resolve_local(f, ast.parse(at[0][0],
                                                    mode='eval').body):
                    if not (isinstance(v, ast.Call) and call_name(v) ==
                            'match' and isinstance(v.func.value,
                                                   ast.Attribute)
                            and len(v.args) == 1):
                        continue
                    pa = f.cls.find_attr(v.func.value.attr)
                    if not pa or not isinstance(pa[1], ast.Call) or \
                            not pa[1].args:
                        continue
                    ok, src = const_value(pa[1].args[0])
                    if not ok or rx.total_on_lf_strings(src) is not True:
                        continue
                    arg = txt(v.args[0])
                    if arg not in f.params():
                        continue
                    why = _lf_terminated_argument(proj, f, arg)
                    if why:
                        return (f'{v.func.value.attr} = {src!r} matches '
                                f'every byte string that contains LF, and '
                                f'{why}')
    return None


def _lf_terminated_argument(proj, f, pname: str) -> str | None:
    """Every caller passes a value obtained from read_continuation(), which
    ends with what readline() returned; readline() returns only after a line
    that ends in LF."""
    idx = f.params().index(pname) - (1 if f.params()[:1] in (['self'],
                                                             ['cls']) else 0)
    conn = proj.cls(IMAP_CONN, 'IMAPConnection')
    rc = conn.own_method('read_continuation')
    rl = conn.own_method('readline')
    if rc is None or rl is None:
        return None
    sites = [(g, c) for g in proj.all_funcs('pymap/')
             if f.name in g.module.src for c in calls_in(g.node, f.name)]
    if not sites:
        return None
    for g, c in sites:
        if len(c.args) <= idx:
            return None
        vals = resolve_local(g, c.args[idx])
        if not vals or not all(
                isinstance(strip_await(v), ast.Call) and
                call_name(strip_await(v)) == 'read_continuation'
                for v in vals):
            return None
    # read_continuation: every returned value contains the readline() result
    line_names = {t.id for s_ in walk_local(rc.node)
                  if isinstance(s_, ast.Assign)
                  and isinstance(strip_await(s_.value), ast.Call)
                  and call_name(strip_await(s_.value)) == 'readline'
                  for t in s_.targets if isinstance(t, ast.Name)}
    rets = [r for r in walk_local(rc.node) if isinstance(r, ast.Return)]
    if not rets or not line_names:
        return None

    def mentions(e_, depth=0):
        if names_in(e_) & line_names:
            return True
        if depth > 3:
            return False
        return any(v is not None and v is not x and mentions(v, depth + 1)
                   for x in ast.walk(e_) if isinstance(x, ast.Name)
                   for v in resolve_local(rc, x))
    for r in rets:
        if r.value is None or not mentions(r.value):
            return None
        # ... as a suffix: a concatenation whose right-most operand is it
        for v in resolve_local(rc, r.value):
            while isinstance(v, ast.Call) and v.args and call_name(v) in (
                    'memoryview', 'bytes', 'bytearray'):
                v = v.args[0]
            for vv in resolve_local(rc, v):
                if isinstance(vv, ast.BinOp) and isinstance(vv.op, ast.Add):
                    if not mentions(vv.right):
                        return None
    # readline: returns only behind the `endswith(b'\n')` test
    cfg = cfg_of(rl)
    tests = [t for t in cfg.nodes if t.kind == 'test'
             and "endswith(b'\\n')" in txt(t.stmt.test)]
    retn = cfg.find(lambda n: isinstance(n.stmt, ast.Return))
    if not tests or not retn or not all(cfg.dominated_by(n, tests)
                                        for n in retn):
        return None
    return (f'all {len(sites)} caller(s) pass the result of '
            f'read_continuation(), which ends with a line readline() '
            f'returned only after seeing its LF')


# demonstrated on CPython 3.12 (triage/test_c06_undecodable_header.py and a
# token fuzz of HeaderRegistry(): counts per 150000 values ValueError 2064,
# IndexError 1014, AttributeError 309, TypeError 22, UnicodeDecodeError 10,
# UnboundLocalError 1)
STDLIB_HEADER_RAISES = ('UnicodeDecodeError', 'UnboundLocalError',
                        'IndexError', 'AttributeError', 'TypeError')


def r615(ctx, cg) -> None:
    """Frozen may-raise fact about the standard library (demonstrated in
    triage/test_c06_undecodable_header.py): calling an
    email.headerregistry.HeaderRegistry on a header value can raise
    UnicodeDecodeError (MimeParameters.params decodes RFC 2231 pieces with
    the declared charset and handles only LookupError/UnicodeEncodeError).
    The header bytes are the client's (APPEND), so every such call needs a
    handler for it where it is made."""
    R = ctx.rule('R6.15', 'the stdlib header parser is called on message '
                 'bytes only under a handler for what it raises', 1)
    es = Escapes(ctx.proj, cg)
    n = 0
    for f in ctx.proj.all_funcs('pymap/'):
        if f.rel.startswith(('pymap/admin/', 'pymap/backend/redis/')):
            continue
        for c in calls_in(f.node):
            fn = c.func
            reg = False
            if isinstance(fn, ast.Attribute) and isinstance(
                    fn.value, ast.Name) and fn.value.id in ('self', 'cls') \
                    and f.cls is not None:
                pa = f.cls.find_attr(fn.attr)
                reg = bool(pa) and isinstance(pa[1], ast.Call) and \
                    call_name(pa[1]) == 'HeaderRegistry'
            elif isinstance(fn, ast.Call) and \
                    call_name(fn) == 'HeaderRegistry':
                reg = True
            elif isinstance(fn, ast.Name):
                reg = any(isinstance(v, ast.Call)
                          and call_name(v) == 'HeaderRegistry'
                          for v in resolve_local(f, fn)
                          if v is not None and v is not fn)
            if not reg:
                continue
            n += 1
            R.check(all(es.caught(f, c, x) for x in STDLIB_HEADER_RAISES),
                    f, c,
                    f'{f.qualname}: `{txt(c)[:50]}` under a ValueError '
                    f'handler',
                    'the email package raises UnicodeDecodeError for some '
                    'header values (Content-Type: text/plain; '
                    'name*0*=utf-7\'\'+AO; name*1*=k-) and nothing here '
                    'handles it (or only some of the classes it raises: '
                    '`From: a@[ ` is an UnboundLocalError): APPEND parses '
                    'Content-Type at once, so one APPEND of such a message '
                    '-> * BYE [SERVERBUG]; with it stored, every FETCH '
                    'ENVELOPE/BODYSTRUCTURE does the same',
                    'handled where it is called')
    if n == 0:
        raise AnchorError('no call of an email HeaderRegistry found: the '
                          'header parser moved, re-audit R6.15')


def _single_address_reads(fnode, src_imports: bool):
    """`.address` reads on a value known to be an email SingleAddressHeader:
    under an isinstance test for it, or through a parameter/variable whose
    annotation names it."""
    if not src_imports:
        return []
    ann = set()
    for a in ast.walk(fnode):
        if isinstance(a, ast.arg) and a.annotation is not None and \
                'SingleAddressHeader' in txt(a.annotation):
            ann.add(a.arg)
        if isinstance(a, ast.AnnAssign) and isinstance(a.target, ast.Name) \
                and 'SingleAddressHeader' in txt(a.annotation):
            ann.add(a.target.id)
    tested = {txt(c.args[0]) for c in ast.walk(fnode)
              if isinstance(c, ast.Call) and call_name(c) == 'isinstance'
              and len(c.args) == 2
              and 'SingleAddressHeader' in txt(c.args[1])}
    # loop variables over an annotated sequence
    for l in ast.walk(fnode):
        if isinstance(l, (ast.For, ast.comprehension)) and \
                isinstance(l.target, ast.Name) and \
                names_in(l.iter) & ann:
            ann.add(l.target.id)
    out = []
    for x in ast.walk(fnode):
        if isinstance(x, ast.Attribute) and x.attr == 'address' and \
                isinstance(x.ctx, ast.Load) and (
                    txt(x.value) in tested or txt(x.value) in ann):
            out.append(x)
    return out


def r616(ctx, cg) -> None:
    """Frozen may-raise fact about the standard library:
    email.headerregistry.SingleAddressHeader.address raises ValueError unless
    the header holds exactly one address (`Sender: a@b, c@d`, `Sender: x:;`).
    The envelope is rendered while the FETCH line is being written."""
    R = ctx.rule('R6.16', 'SingleAddressHeader.address is read only under a '
                 'ValueError handler', 1)
    es = Escapes(ctx.proj, cg)
    n = 0
    for f in ctx.proj.all_funcs('pymap/'):
        if f.rel.startswith(('pymap/admin/', 'pymap/backend/redis/')):
            continue
        n += 1
        for x in _single_address_reads(
                f.node, 'SingleAddressHeader' in f.module.src):
            R.check(es.caught(f, x, 'ValueError'), f, x,
                    f'{f.qualname}: `{txt(x)}` under a ValueError handler',
                    f'`{txt(x)}` raises ValueError when the header does not '
                    f'hold exactly one address, and nothing here handles '
                    f'it: APPEND a message with `Sender: a@b, c@d`, then '
                    f'FETCH n ENVELOPE -> `* n FETCH (ENVELOPE * BYE '
                    f'[SERVERBUG]` (raised while the line is written)')
    R.ok(None, None, f'{n} functions scanned',
         'no unguarded SingleAddressHeader.address read')
    import os
    tree = ast.parse(open(os.path.join(VERIF, 'fixtures',
                                       'r616_positive.py')).read())
    hits = sum(len(_single_address_reads(x, True)) for x in ast.walk(tree)
               if isinstance(x, ast.FunctionDef))
    R.check(hits == 2, None, None, 'positive fixture still matches',
            f'fixtures/r616_positive.py: {hits} read(s) found, expected 2')


def r617(ctx, cg) -> None:
    """An error reply is built from the exception being handled ('%s' % exc,
    str(exc), bytes(exc)); that runs the exception's own __str__ / __bytes__
    INSIDE the handler, where nothing catches a second failure.  Those
    methods therefore contain no conversion that can raise (the may-raise
    table of sa/escape.py: decoding without an error handler, int(), ...)."""
    R = ctx.rule('R6.17', 'formatting an exception for an error reply cannot '
                 'raise', 2)
    es = Escapes(ctx.proj, cg)
    n = 0
    for c in ctx.proj.all_classes('pymap/'):
        if c.rel.startswith(('pymap/admin/', 'pymap/backend/redis/')):
            continue
        import builtins
        is_exc = False
        for k in c.mro():
            for bn in k.base_names:
                b = getattr(builtins, bn.split('.')[-1], None)
                if isinstance(b, type) and issubclass(b, BaseException):
                    is_exc = True
        if not is_exc:
            continue
        for nm in ('__str__', '__bytes__', '__repr__'):
            f = c.own_method(nm)
            if f is None:
                continue
            n += 1
            loc = es.local(f)
            R.check(not loc, f, f.node,
                    f'{c.name}.{nm} cannot raise',
                    f'{[(e.what, e.exc) for e in loc]}: the error reply is '
                    f'formatted from the exception inside its own handler '
                    f'(ManageSieve: `BadCommandResponse(exc)` does '
                    f'"Bad command: %s" % exc), so a line that does not '
                    f'parse AND whose remainder is not valid in that codec '
                    f'(`FOO \\xff`) raises out of the handler: the '
                    f'connection is closed without any reply',
                    'no raising conversion')
    if n < 2:
        raise AnchorError(f'only {n} __str__/__bytes__ method(s) of '
                          f'exception classes found (2 confirmed by hand: '
                          f'NotParseable.__bytes__ and __str__)')


SCAN_METHODS = ('search', 'finditer', 'findall', 'sub', 'subn', 'split')


def r618(ctx) -> None:
    """Compiled patterns that are applied with an unanchored scan to client
    bytes or to text of stored messages: no pattern of the shape
    `c X* <something X* cannot supply>` with c in X (quadratic on c*n)."""
    R = ctx.rule('R6.18', 'unanchored regex scans are not quadratic on a run '
                 'of their own first character', 9)
    n = 0
    for c in ctx.proj.all_classes('pymap/'):
        if c.rel.startswith(('pymap/admin/', 'pymap/backend/redis/',
                             'pymap/sieve/runner', 'pymap/main')):
            continue
        for nm, v in c.class_assigns().items():
            if not (isinstance(v, ast.Call) and call_name(v) == 'compile'
                    and v.args):
                continue
            ok, src = const_value(v.args[0])
            if not ok or not isinstance(src, (str, bytes)):
                continue
            # how is it applied?
            scans = [m for m in SCAN_METHODS
                     if f'{nm}.{m}(' in c.module.src]
            if not scans:
                continue
            n += 1
            w = rx.quadratic_scan_witness(src)
            from ..report import Site
            R.check(w is None, Site(c.rel, v.lineno, c.name), None,
                    f'{c.name}.{nm} ({scans[0]})',
                    f'{c.name}.{nm} = {src!r} is applied with '
                    f'.{scans[0]}(): it can start at {chr(w)!r}, then '
                    f'repeats a class that also contains {chr(w)!r}, then '
                    f'needs something else — on {chr(w)!r}*n every start '
                    f'position scans to the end: n(n+1)/2 steps (80 000 '
                    f'characters ≈ 2.5 s, 800 000 ≈ 4 min) on the one event '
                    f'loop; a References header or a command line of that '
                    f'shape stops every connection being served'
                    if w is not None else '', 'no quadratic shape')
    if n < 9:
        raise AnchorError(f'only {n} scanned class-level patterns found (9 '
                          f'confirmed by hand)')

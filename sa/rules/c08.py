"""C08 — mailbox names stay inside the user's store: R8.1-R8.3."""
from __future__ import annotations

import ast

from ..cfg import NORMAL, ALL, walk_local
from ..facts import (runs_only_when, cfg_of, call_name, calls_in, targets_of, guard_atoms,
                     is_attr, is_name, enclosing, local_assigns, kwarg,
                     const_value, strip_await, resolve_local, names_in)
from ..loader import txt, AnchorError
from . import c11, c19

LAYOUT = 'pymap/backend/maildir/layout.py'
MAILDIR = 'pymap/backend/maildir/mailbox.py'
MD = 'pymap/backend/maildir/'
NAME_PARAMS = {'name', 'source_name', 'dest_name', 'top', 'before', 'after'}
FS_SINKS = {'join', 'rename', 'remove', 'unlink', 'rmdir', 'mkdir',
            'makedirs', 'listdir', 'walk', 'isdir', 'exists', 'open',
            'rmtree', 'stat', 'scandir', 'replace', 'getmtime'}
REQUIRED = {"''": 'the empty part', "'.'": "'.'", "'..'": "'..'",
            'NUL': 'a NUL byte'}


_VTESTS: dict[int, list] = {}


def _validates(f) -> set[str]:
    """Which bad shapes does this function refuse (raise) for the values it
    iterates / tests?  Recognised by the literals compared in tests that
    control a raise — not by names."""
    out: set[str] = set()
    cfg = cfg_of(f)
    raises = cfg.find(lambda n: isinstance(n.stmt, ast.Raise))
    # the WHOLE name (the parameter, or a local that is just the parameter
    # stripped): "." / ".." / "" must be refused per hierarchy part — a test
    # of the whole name lets `cur/../../bob` through
    whole = set(f.params()) & NAME_PARAMS
    for nm in {x.id for x in walk_local(f.node) if isinstance(x, ast.Name)}:
        for v in resolve_local(f, ast.Name(nm, ast.Load())):
            b = v
            while isinstance(b, ast.Call) and isinstance(
                    b.func, ast.Attribute) and b.func.attr in (
                        'strip', 'rstrip', 'lstrip', 'removesuffix',
                        'removeprefix', 'lower', 'upper'):
                b = b.func.value
            if isinstance(b, ast.Name) and b.id in whole and b is not v:
                whole.add(nm)

    def per_part(e) -> bool:
        return not (isinstance(e, ast.Name) and e.id in whole)
    for t in cfg.nodes:
        if t.kind != 'test':
            continue
        if not any(cfg.controlled_by(r, t, 't') for r in raises):
            continue
        tt = t.stmt.test
        # only disjunctions / single tests: any disjunct refuses
        disj = tt.values if isinstance(tt, ast.BoolOp) and \
            isinstance(tt.op, ast.Or) else [tt]
        before = set(out)
        for d in disj:
            s = txt(d)
            if isinstance(d, ast.UnaryOp) and isinstance(d.op, ast.Not) and \
                    isinstance(d.operand, ast.Name) and per_part(d.operand):
                out.add("''")
            if isinstance(d, ast.Compare):
                consts = []
                for c in [d.left] + d.comparators:
                    ok, v = const_value(c)
                    if ok:
                        consts += list(v) if isinstance(v, (tuple, list,
                                                            set, frozenset)) \
                            else [v]
                eq_or_in = isinstance(d.ops[0], (ast.Eq, ast.In))
                subj = [c for c in [d.left] + d.comparators
                        if not const_value(c)[0]]
                part_level = all(per_part(c) for c in subj)
                if eq_or_in:
                    for v in consts:
                        if v == '' and part_level:
                            out.add("''")
                        if v == '.' and part_level:
                            out.add("'.'")
                        if v == '..' and part_level:
                            out.add("'..'")
                        if v in ('\0', '\x00'):
                            out.add('NUL')
                if isinstance(d.ops[0], ast.In) and any(
                        v in ('\0',) for v in consts):
                    out.add('NUL')
            if isinstance(d, ast.Call) and call_name(d) in ('search', 'match',
                                                            'fullmatch'):
                # regex idiom — the pattern must be checked by reading; not
                # recognised here (reported as undecided by the caller)
                out.add('regex?')
        if out != before or (out and any(
                isinstance(d, (ast.Compare, ast.UnaryOp)) for d in disj)
                and before != out):
            _VTESTS.setdefault(id(f.node), []).append(t)
    return out


def sanitisers(ctx) -> dict[str, set[str]]:
    """Layout helper functions whose result derives from a name parameter
    and whose every normal return of such a value is preceded by validation
    -> the shapes they refuse."""
    out: dict[str, set[str]] = {}
    m = ctx.proj.module(LAYOUT)
    for f in m.funcs.values():
        params = set(f.params()) & NAME_PARAMS
        if not params:
            continue
        # returns something derived from the name?
        rets = [r for r in walk_local(f.node) if isinstance(r, ast.Return)
                and r.value is not None]
        derived = False
        for r in rets:
            for v in resolve_local(f, r.value):
                if names_in(v) & params and not isinstance(v, ast.Constant):
                    derived = True
        if not derived:
            continue
        val = _validates(f)
        # helpers: validation delegated to a called function on the parts
        for c in calls_in(f.node):
            h = m.funcs.get(call_name(c)) or (
                f.cls.find_method(call_name(c)) if f.cls else None)
            if h is not None and h is not f:
                val |= _validates(h)
        if not val:
            continue
        # the validating loop / call dominates the derived return
        cfg = cfg_of(f)
        checks = cfg.find(lambda n: isinstance(n.stmt, ast.Raise))
        dom_ok = True
        for r in cfg.find(lambda n: isinstance(n.stmt, ast.Return)
                          and n.stmt.value is not None
                          and not isinstance(n.stmt.value, (ast.List,
                                                            ast.Constant))):
            # the validating tests (those that control a raise), or the
            # loop that contains them, must dominate the return
            vtests = list(_VTESTS.get(id(f.node), []))
            anchors = []
            for t in vtests:
                loops = enclosing(f.node, t.stmt, (ast.For,))
                if loops:
                    anchors += [n for n in cfg.nodes
                                if n.kind == 'for_iter'
                                and n.stmt is loops[-1]]
                else:
                    anchors.append(t)
            called = cfg.find(lambda n: any(
                (m.funcs.get(call_name(c)) or (f.cls.find_method(
                    call_name(c)) if f.cls else None)) is not None
                and call_name(c) != f.name for c in n.calls()))
            if not any(cfg.dominated_by(r, [a]) for a in anchors + called):
                dom_ok = False
        if dom_ok:
            out[f.name] = val
    return out


def check(ctx) -> None:
    ctx.explanation = (
        'Static decision of structural necessary conditions of C08: in the '
        'maildir layouts every value that reaches a filesystem sink '
        '(os.path.join, os.*, open, the Maildir constructor, the path '
        'builders) and derives from a client-supplied mailbox name has '
        'passed through a validator that refuses empty, ".", ".." and '
        'NUL-carrying parts (must-pass-through taint over both layouts and '
        'the mailbox set); DELETE/RENAME/CREATE refuse INBOX (the store '
        'root) before the backend is called; the dict backend keys its '
        'per-user store by the session\'s own identity.')
    ctx.not_decided = ('behaviour on a live filesystem (symlinks, races); '
                       'existing on-disk folder names that were not created '
                       'through this server.')
    r81(ctx)
    r82(ctx)
    r83(ctx)
    r84(ctx)
    r85(ctx)


def r81(ctx) -> None:
    R = ctx.rule('R8.1', 'client names reach path sinks only through the '
                 'validator', 8)
    san = sanitisers(ctx)
    strong = {n for n, v in san.items() if set(REQUIRED) <= v}
    ctx.extra_coverage['validators'] = {k: sorted(v) for k, v in san.items()}
    if san and not strong:
        weak = {k: sorted(set(REQUIRED) - v) for k, v in san.items()}
        ctx.notes.append(f'R8.1: validators found but incomplete: {weak}')
    n_sinks = 0
    # fixpoint: a method whose every name-derived sink is clean (given the
    # current sanitiser set) and that does sanitise is itself a sanitiser
    # for its callers (e.g. get_path = _get_path(_split(name)))
    grown = True
    while grown:
        grown = False
        for f in ctx.proj.module(LAYOUT).funcs.values():
            if f.cls is None or f.name in strong or \
                    not (set(f.params()) & NAME_PARAMS):
                continue
            bad, used = _scan(f, strong, LAYOUT)
            if not bad and used:
                strong.add(f.name)
                san.setdefault(f.name, set(REQUIRED) | {'via'})
                grown = True
    for rel in (LAYOUT, MAILDIR):
        m = ctx.proj.module(rel)
        for f in m.funcs.values():
            if f.cls is None:
                continue
            if rel == MAILDIR and f.cls.name != 'MailboxSet':
                continue
            if rel == LAYOUT and f.cls.name == 'MaildirLayout':
                continue
            params = set(f.params()) & NAME_PARAMS
            parts_params = {p for p in f.params()
                            if p.endswith('parts') or p == 'subdir'}
            if not params:
                continue
            if f.name in strong:
                continue
            bad, _used = _scan(f, strong, rel)
            for c, hit in bad:
                n_sinks += 1
                R.fail(f, c, f'{f.cls.name}.{f.name}: {txt(c.func)}('
                       f'{", ".join(sorted(hit))})',
                       f'`{", ".join(sorted(hit))}` derives from the '
                       f'client-supplied mailbox name and reaches '
                       f'{txt(c.func)}() without passing a validator that '
                       f'refuses {sorted(REQUIRED.values())}'
                       + (f' (validators found: {sorted(san)})' if san else
                          ' (no validator exists in the layout module)') +
                       ": names like '.', '..', '' or 'a/../../x' resolve to "
                       'the store root, its parent, or another user\'s '
                       'directory')
            # every use of the name goes through a sanitiser first
            uses = [c for c in calls_in(f.node) if call_name(c) in strong
                    and any(names_in(a) & params for a in c.args)]
            if uses:
                n_sinks += len(uses)
                for u in uses:
                    R.ok(f, u, f'{f.cls.name}.{f.name}: name -> '
                         f'{call_name(u)}()', f'validated by {call_name(u)} '
                         f'({sorted(san[call_name(u)])})')
    for name, v in san.items():
        if 'via' in v:
            continue
        f = ctx.proj.module(LAYOUT).funcs.get(name) or next(
            (x for x in ctx.proj.module(LAYOUT).funcs.values()
             if x.name == name), None)
        for k, desc in REQUIRED.items():
            R.check(k in v, f, getattr(f, 'node', None),
                    f'validator {name} refuses {desc}',
                    f'{name} validates mailbox name parts but does not '
                    f'refuse {desc}')
    if not san:
        R.fail(None, None, 'a validator for mailbox name parts exists',
               'no function in the maildir layout refuses empty / "." / '
               '".." / NUL parts of a mailbox name')


def _scan(f, strong, rel):
    """-> (tainted sink calls, sanitiser uses) of one function."""
    params = set(f.params()) & NAME_PARAMS
    taint = set(params)
    changed = True
    while changed:
        changed = False
        for s in walk_local(f.node):
            if not isinstance(s, (ast.Assign, ast.AnnAssign)) or \
                    getattr(s, 'value', None) is None:
                continue
            v = s.value
            if isinstance(v, ast.Call) and call_name(v) in strong:
                continue
            if names_in(v) & taint:
                for t in targets_of(s):
                    if isinstance(t, ast.Name) and t.id not in taint:
                        taint.add(t.id)
                        changed = True
    bad = []
    for c in calls_in(f.node):
        nm = call_name(c)
        is_fs = (nm in FS_SINKS and isinstance(c.func, ast.Attribute)
                 and txt(c.func.value) in ('os', 'os.path', 'shutil')
                 ) or (nm == 'open' and isinstance(c.func, ast.Name))
        is_builder = isinstance(c.func, ast.Attribute) and \
            is_name(c.func.value, 'self') and nm in (
                '_get_path', '_get_subdir', '_maildir')
        if not (is_fs or is_builder):
            continue
        args = set()
        for a in list(c.args) + [k.value for k in c.keywords]:
            args |= names_in(a)
        if args & taint:
            bad.append((c, args & taint))
    used = [c for c in calls_in(f.node) if call_name(c) in strong
            and any(names_in(a) & params for a in c.args)]
    return bad, used


def r82(ctx) -> None:
    before = len(ctx.rules)
    c19.r196(ctx)
    r = ctx.rules[before]
    r.id = 'R8.2'
    r.title = 'per-identity store (dict) (= R19.6)'
    for i in r.instances:
        i.rule = 'R8.2'


def r83(ctx) -> None:
    before = len(ctx.rules)
    c11.r113(ctx)
    r = ctx.rules[before]
    r.id = 'R8.3'
    r.title = 'INBOX (the store root) is never created/removed/overwritten'
    for i in r.instances:
        i.rule = 'R8.3'
    m = ctx.proj.cls(MAILDIR, 'MailboxSet')
    f = m.own_method('rename_mailbox')
    cfg = cfg_of(f)
    calls = cfg.find(lambda n: any(call_name(c) == 'rename_folder'
                                   for c in n.calls()))
    ok = False
    for t in cfg.nodes:
        if t.kind == 'test' and "== 'INBOX'" in txt(t.stmt.test) and \
                f.params()[1] in txt(t.stmt.test):
            tb = [x for x, lab in t.succ if lab == 't']
            rr = cfg.reach(tb, labels=ALL, first_labels=ALL,
                           include_starts=True) | set(tb)
            if calls and not any(c in rr for c in calls) and all(
                    cfg.dominated_by(c, [t]) for c in calls):
                ok = True
    r.check(ok, f, f.node, 'maildir rename_mailbox refuses INBOX as source',
            'renaming INBOX on maildir would rename the store root itself')


TRANSFORM_OK = {'join', 'split', 'list', 'tuple', 'len', 'isdir', 'exists',
                'listdir', 'walk', 'rename', 'remove', 'rmdir', 'mkdir',
                'open', 'range', 'enumerate', 'repr', 'str', 'startswith',
                'FileNotFoundError', 'FileExistsError', 'OSError',
                'NotSupportedError', 'getmtime', 'isfile', 'makedirs'}


def r84(ctx) -> None:
    R = ctx.rule('R8.4', 'the validated name is used as validated', 4)
    m = ctx.proj.module(LAYOUT)
    san = sanitisers(ctx)
    # (a) a sanitiser does not rewrite the name before its tests, and only
    # the literal INBOX maps to the store root
    for name in san:
        for f in [x for x in m.funcs.values() if x.name == name]:
            params = [p for p in f.params() if p in NAME_PARAMS]
            for p in params:
                reb = [s_ for s_ in walk_local(f.node)
                       if any(is_name(t, p) for t in targets_of(s_))]
                R.check(not reb, f, reb[0] if reb else f.node,
                        f'{f.qualname}: `{p}` is not rewritten before it is '
                        f'tested',
                        f'`{p}` is reassigned inside {f.qualname} '
                        f'(`{txt(reb[0])[:60] if reb else ""}`): the INBOX '
                        f'guards in DELETE/RENAME/CREATE compare the name '
                        f'the client sent, so any normalisation here makes '
                        f'an alias (e.g. "INBOX/") that passes those guards '
                        f'and resolves to the store root')
            cfg = cfg_of(f)
            for n in cfg.find(lambda n: isinstance(n.stmt, ast.Return)
                              and isinstance(n.stmt.value, (ast.List,
                                                            ast.Tuple))
                              and not n.stmt.value.elts):
                ok = any(runs_only_when(cfg, n, f"{p} == 'INBOX'", True)
                         for p in params)
                R.check(ok, f, n.stmt, f'{f.qualname}: the empty part list '
                        f'(store root) only for the literal INBOX',
                        'the store root is returned for names other than '
                        'the literal INBOX')
    # (b) parts are not transformed between validation and the path sinks
    for f in m.funcs.values():
        if f.cls is None or f.cls.name == 'MaildirLayout':
            continue
        pp = [p for p in f.params() if p.endswith('parts') or p == 'parts']
        if not pp or f.name in san:
            continue
        taint = set(pp)
        for s_ in walk_local(f.node):
            if isinstance(s_, (ast.For, ast.comprehension)):
                if names_in(s_.iter) & taint:
                    taint |= names_in(s_.target)
        bad = []
        for c in calls_in(f.node):
            nm = call_name(c)
            involved = set()
            for a in c.args:
                involved |= names_in(a)
            if isinstance(c.func, ast.Attribute):
                involved |= names_in(c.func.value) - {'os', 'self', 'cls'}
            if not (involved & taint):
                continue
            if nm in TRANSFORM_OK or (isinstance(c.func, ast.Attribute)
                                      and is_name(c.func.value, 'self')) or \
                    (isinstance(c.func, ast.Attribute)
                     and is_name(c.func.value, 'cls')):
                continue
            bad.append(c)
        R.check(not bad, f, bad[0] if bad else f.node,
                f'{f.qualname}: parts reach the path unchanged',
                f'{f.qualname} applies {[txt(c.func) for c in bad]} to the '
                f'validated name parts on the way to the filesystem path: a '
                f'transformation AFTER validation can re-create "..", "." '
                f'or "/" (e.g. NFKC maps U+2025 to ".." and U+FF0F to "/"), '
                f'so the path escapes the store')


MUTATORS_ = ('add', 'append', 'update', 'pop', 'setdefault', 'clear', 'remove',
             'discard', 'insert', 'extend', 'popitem')


def shared_mutable_attrs(cnode) -> list:
    """Class-body attributes bound to a mutable container that the class's
    own methods mutate through self./cls.: ONE object for every instance."""
    cands = {}
    for s_ in cnode.body:
        v = getattr(s_, 'value', None)
        if isinstance(s_, (ast.Assign, ast.AnnAssign)) and v is not None and (
                isinstance(v, (ast.Dict, ast.List, ast.Set)) or (
                    isinstance(v, ast.Call) and call_name(v) in (
                        'dict', 'list', 'set', 'defaultdict', 'OrderedDict',
                        'WeakValueDictionary', 'WeakSet', 'bytearray',
                        'deque'))):
            for t in (s_.targets if isinstance(s_, ast.Assign)
                      else [s_.target]):
                if isinstance(t, ast.Name) and t.id != '__slots__':
                    cands[t.id] = s_
    out = []
    if not cands:
        return out
    rebinds = set()
    for m in cnode.body:
        if isinstance(m, (ast.FunctionDef, ast.AsyncFunctionDef)) and \
                m.name == '__init__':
            for x in ast.walk(m):
                if isinstance(x, (ast.Assign, ast.AnnAssign)):
                    for t in (x.targets if isinstance(x, ast.Assign)
                              else [x.target]):
                        if isinstance(t, ast.Attribute) and \
                                is_name(t.value, 'self'):
                            rebinds.add(t.attr)   # per-instance after all
    for m in cnode.body:
        if not isinstance(m, (ast.FunctionDef, ast.AsyncFunctionDef)):
            continue
        for x in ast.walk(m):
            tgt = None
            if isinstance(x, (ast.Assign, ast.AugAssign, ast.Delete)):
                for t in (x.targets if not isinstance(x, ast.AugAssign)
                          else [x.target]):
                    base = t
                    sub = False
                    while isinstance(base, ast.Subscript):
                        base, sub = base.value, True
                    if isinstance(base, ast.Attribute) and isinstance(
                            base.value, ast.Name) and base.value.id in (
                                'self', 'cls') and (
                                sub or isinstance(x, ast.AugAssign)):
                        tgt = base.attr
            if isinstance(x, ast.Call) and isinstance(x.func, ast.Attribute) \
                    and x.func.attr in MUTATORS_ and isinstance(
                        x.func.value, ast.Attribute) and isinstance(
                        x.func.value.value, ast.Name) and \
                    x.func.value.value.id in ('self', 'cls'):
                tgt = x.func.value.attr
            if tgt in cands and tgt not in rebinds:
                out.append((tgt, cands[tgt], x))
    return out


def r85(ctx) -> None:
    R = ctx.rule('R8.5', 'per-user state lives in instances, not in class '
                 'attributes', 1)
    n = 0
    for rel, m in ctx.proj.modules.items():
        if not rel.startswith(('pymap/backend/dict/', 'pymap/backend/maildir/',
                               'pymap/backend/session.py', 'pymap/imap/',
                               'pymap/sieve/manage/', 'pymap/selected.py',
                               'pymap/user.py', 'pymap/token/')):
            continue
        for c in m.classes.values():
            n += 1
            seen = set()
            for attr, decl, use in shared_mutable_attrs(c.node):
                if attr in seen:
                    continue
                seen.add(attr)
                R.fail(None, decl, f'{c.name}.{attr} is a class-level mutable '
                       f'container mutated through instances',
                       f'{rel}:{decl.lineno} `{txt(decl)[:60]}` is ONE '
                       f'object shared by every {c.name} instance, and '
                       f'line {use.lineno} mutates it through self/cls: '
                       f'every session of every user shares it — the '
                       f'second user to open "INBOX" gets the first user\'s '
                       f'mailbox object (reads and writes land in another '
                       f'user\'s directory)')
    if n < 20:
        raise AnchorError(f'only {n} backend/front-end classes scanned')
    R.ok(None, None, f'{n} classes scanned', 'no shared mutable class '
         'attribute is mutated through instances')
    import os
    from ..report import VERIF
    tree = ast.parse(open(os.path.join(VERIF, 'fixtures',
                                       'r85_positive.py')).read())
    hits = sum(len({a for a, _, _ in shared_mutable_attrs(x)})
               for x in ast.walk(tree) if isinstance(x, ast.ClassDef))
    R.check(hits == 1, None, None, 'positive fixture still matches',
            f'fixtures/r85_positive.py: {hits} hit(s), expected 1')

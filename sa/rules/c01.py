"""C01 — sequence numbers never diverge: structural necessary conditions
R1.1-R1.8 (DESIGN.md section 4)."""
from __future__ import annotations

import ast

from ..cfg import NORMAL, ALL, walk_local
from ..facts import (cfg_of, call_name, calls_in, bind_args, targets_of,
                     writers_of, local_assigns, resolve_local, guard_atoms,
                     is_attr, is_name, kwarg, const_value, strip_await,
                     attr_chain, enclosing, names_in)
from ..loader import txt, AnchorError

SEL = 'pymap/selected.py'
STATE = 'pymap/imap/state.py'
SESS = 'pymap/backend/session.py'

RESP_RANK = {'ResponseBye': 0, 'ExpungeResponse': 1, 'ExistsResponse': 2,
             'RecentResponse': 3, 'FetchResponse': 4}


def compare_func(ctx):
    """Role: the method of SelectedMailbox that constructs ExpungeResponse."""
    sm = ctx.proj.cls(SEL, 'SelectedMailbox')
    cands = [f for fs in sm.methods.values() for f in fs
             if any(True for _ in calls_in(f.node, 'ExpungeResponse'))]
    if not cands:
        raise AnchorError('no SelectedMailbox method builds ExpungeResponse')
    return cands


def check(ctx) -> None:
    ctx.explanation = (
        'Static decision of structural necessary conditions of C01: order of '
        'untagged responses produced by the snapshot comparison (EXPUNGE* '
        'EXISTS? RECENT? FETCH*), EXPUNGE numbers taken from the previous '
        'snapshot in descending order, EXISTS argument = size of the new '
        'view and only on growth, hide-expunged set before the backend call '
        'in every non-UID FETCH/STORE/SEARCH handler and forwarded as the '
        'deferral flag, fork exactly once per command with its untagged '
        'output attached, field ownership of the synchronized index, '
        'sequence = index + 1 in every enumeration, and sequence sets '
        'resolved against the pre-merge view.')
    ctx.not_decided = ('equality of the shadow client and the server view '
                       'over all interleavings (needs executing the index '
                       'arithmetic on values).')
    r11(ctx)
    r12_13(ctx)
    r14(ctx)
    r15(ctx)
    r16(ctx)
    r17(ctx)
    r18(ctx)
    r19(ctx)
    r110(ctx)
    r111(ctx)
    r112(ctx)


# ----------------------------------------------------------------------
def _resp_events(f):
    cfg = cfg_of(f)
    ev = {}
    for n in cfg.stmt_nodes():
        for c in n.calls():
            nm = call_name(c)
            if nm in RESP_RANK:
                ev.setdefault(n, []).append((RESP_RANK[nm], nm, c))
    return cfg, ev


def r11(ctx) -> None:
    R = ctx.rule('R1.1', 'untagged order EXPUNGE* EXISTS? RECENT? FETCH*', 5,
                 'RFC 3501 7.4.1/7.3.1')
    for f in compare_func(ctx):
        cfg, ev = _resp_events(f)
        for a, evs_a in ev.items():
            for ra, na, ca in evs_a:
                later = cfg.reach([a], labels=NORMAL)
                bad = []
                for b in later:
                    for rb, nb, cb in ev.get(b, []):
                        if rb < ra:
                            bad.append((nb, b.lineno))
                        if ra == 0:
                            bad.append((nb, b.lineno))
                        if ra in (2, 3) and rb == ra and b is a:
                            bad.append((nb + ' repeated', b.lineno))
                R.check(not bad, f, ca, f'{f.qualname}: order after {na}',
                        f'{na} can be followed by {bad} on a normal path: '
                        f'violates EXPUNGE* EXISTS? RECENT? FETCH* (a client '
                        f'applying them in order mis-sizes its view)',
                        'no lower-ranked response reachable afterwards')


def r12_13(ctx) -> None:
    R2 = ctx.rule('R1.2', 'EXPUNGE numbers come from the previous snapshot, '
                  'descending', 1)
    R3 = ctx.rule('R1.3', 'EXISTS argument is the size of the new view, only '
                  'on growth', 2)
    sm = ctx.proj.cls(SEL, 'SelectedMailbox')
    for f in compare_func(ctx):
        # how are the snapshot parameters bound at the call site(s)?
        binding: dict[str, str] = {}
        for g in [x for fs in sm.methods.values() for x in fs]:
            for c in calls_in(g.node, f.name):
                if isinstance(c.func, ast.Attribute) and \
                        is_name(c.func.value, 'self'):
                    for p, arg in bind_args(f, c).items():
                        vals = resolve_local(g, arg)
                        binding[p] = ' | '.join(txt(v) for v in vals)
        prev_params = {p for p, v in binding.items() if v == 'self._prev'}
        new_params = {p for p, v in binding.items()
                      if v.startswith('_Frozen(') or v == 'frozen'}
        if not prev_params:
            R2.fail(f, f.node, f'{f.qualname}: previous snapshot parameter',
                    f'no parameter of {f.qualname} is bound to self._prev at '
                    f'its call site (bindings {binding})')
            continue
        for c in calls_in(f.node, 'ExpungeResponse'):
            arg = c.args[0] if c.args else None
            key = f'{f.qualname}: ExpungeResponse argument'
            vals = resolve_local(f, arg) if arg is not None else []
            verdicts = []
            for v in vals:
                base = v
                sub = False
                if isinstance(v, ast.BinOp) and isinstance(v.op, ast.Sub):
                    base, sub = v.left, True
                if isinstance(base, ast.Call) and call_name(base) == 'get' \
                        and isinstance(base.func, ast.Attribute):
                    base = ast.Subscript(value=base.func.value,
                                         slice=ast.Constant(0),
                                         ctx=ast.Load())
                # a local that names the cache (`prev = before.seqs_cache`)
                if isinstance(base, ast.Subscript) and isinstance(
                        base.value, ast.Name):
                    bv = resolve_local(f, base.value)
                    if len(bv) == 1 and isinstance(bv[0], ast.Attribute):
                        base = ast.Subscript(value=bv[0], slice=base.slice,
                                             ctx=ast.Load())
                if isinstance(base, ast.Subscript) and \
                        isinstance(base.value, ast.Attribute) and \
                        base.value.attr == 'seqs_cache' and \
                        isinstance(base.value.value, ast.Name):
                    nm = base.value.value.id
                    if nm in prev_params:
                        verdicts.append(('prev', sub))
                    elif nm in new_params:
                        verdicts.append(('new', sub))
                    else:
                        verdicts.append(('?', sub))
                else:
                    verdicts.append(('?', sub))
            if any(v[0] == 'new' for v in verdicts):
                R2.fail(f, c, key, 'EXPUNGE number is looked up in the NEW '
                        'snapshot; the client still numbers by the previous '
                        'one')
                continue
            if not verdicts or any(v[0] == '?' for v in verdicts):
                R2.undecided(f, c, key, f'unrecognised argument shape '
                             f'{txt(arg)}')
                continue
            R2.ok(f, c, key, 'lookup in the previous snapshot')
            # iteration order
            loops = [x for x in enclosing(f.node, c, (ast.For,))]
            key2 = f'{f.qualname}: EXPUNGE iteration order'
            if not loops:
                R2.undecided(f, c, key2, 'not in a for loop')
                continue
            it = loops[0].iter
            its = resolve_local(f, it)
            okk = None
            for i in its:
                if isinstance(i, ast.Call) and call_name(i) == 'sorted':
                    rv = kwarg(i, 'reverse')
                    cst, val = const_value(rv)
                    if rv is not None and cst and val:
                        okk = True if okk is None else okk
                    elif any(v[1] for v in verdicts):
                        okk = True if okk is None else okk
                    else:
                        okk = False
                elif isinstance(i, ast.Call) and call_name(i) == 'reversed' \
                        and i.args and isinstance(i.args[0], ast.Call) and \
                        call_name(i.args[0]) == 'sorted' and \
                        kwarg(i.args[0], 'reverse') is None:
                    okk = True if okk is None else okk
                else:
                    okk = None
                    break
            if okk is None:
                R2.undecided(f, loops[0], key2,
                             f'unrecognised iteration {txt(it)}')
            else:
                R2.check(okk, f, loops[0], key2,
                         'EXPUNGE numbers taken from the previous snapshot '
                         'are emitted in ascending order without a running '
                         'subtraction: after the first one every later '
                         'number is off by the removals so far',
                         'descending order of previous numbers')
        for c in calls_in(f.node, 'ExistsResponse'):
            arg = c.args[0] if c.args else None
            key = f'{f.qualname}: ExistsResponse argument'
            vals = resolve_local(f, arg) if arg is not None else []
            good = bad = False
            for v in vals:
                if isinstance(v, ast.Call) and call_name(v) == 'len' and \
                        v.args:
                    inner = resolve_local(f, v.args[0])
                    for iv in inner:
                        if isinstance(iv, ast.Attribute) and \
                                isinstance(iv.value, ast.Name):
                            if iv.value.id in new_params and \
                                    iv.attr == 'uids':
                                good = True
                            elif iv.value.id in prev_params:
                                bad = True
            if bad:
                R3.fail(f, c, key, 'EXISTS reports the size of the PREVIOUS '
                        'snapshot')
            elif good:
                R3.ok(f, c, key, 'len(<new snapshot>.uids)')
            else:
                R3.undecided(f, c, key, f'unrecognised argument {txt(arg)}')
            # only on growth: controlled by a truthy test on new - prev
            cfg = cfg_of(f)
            nodes = cfg.node_containing(c)
            key2 = f'{f.qualname}: EXISTS only on growth'
            okg = False
            for n in nodes:
                for t in cfg.nodes:
                    if t.kind != 'test' or not isinstance(t.stmt, ast.If):
                        continue
                    if not cfg.controlled_by(n, t, 't'):
                        continue
                    for e in resolve_local(f, t.stmt.test):
                        while isinstance(e, ast.Call) and \
                                call_name(e) == 'bool' and len(e.args) == 1:
                            e = e.args[0]          # bool(x) tests x
                        if isinstance(e, ast.BinOp) and \
                                isinstance(e.op, ast.Sub) and \
                                isinstance(e.left, ast.Attribute) and \
                                isinstance(e.right, ast.Attribute) and \
                                is_attr(e.left, 'uids') and \
                                is_attr(e.right, 'uids') and \
                                txt(e.left.value) in new_params and \
                                txt(e.right.value) in prev_params:
                            okg = True
            if okg:
                R3.ok(f, c, key2, 'guarded by (new.uids - prev.uids)')
            else:
                R3.undecided(f, c, key2, 'growth guard not recognised')


# ----------------------------------------------------------------------
SEQ_HANDLERS = {'do_fetch': 'FETCH', 'do_store': 'STORE',
                'do_search': 'SEARCH'}


def r14(ctx) -> None:
    R = ctx.rule('R1.4', 'hide-expunged discipline', 8,
                 'RFC 3501 7.4.1: no EXPUNGE while answering non-UID '
                 'FETCH/STORE/SEARCH')
    cs = ctx.proj.cls(STATE, 'ConnectionState')
    for hn, cmdname in SEQ_HANDLERS.items():
        f = cs.own_method(hn)
        if f is None:
            raise AnchorError(f'handler vanished: ConnectionState.{hn}')
        cfg = cfg_of(f)
        sess_calls = cfg.find(lambda n: n.suspends and any(
            'session' in attr_chain(c.func)[:2] for c in n.calls()))
        key = f'{hn}: hide_expunged set before the session call unless UID'
        if not sess_calls:
            R.undecided(f, f.node, key, 'no awaited session call found')
            continue
        stores = []
        for n in cfg.stmt_nodes():
            for t in targets_of(n.stmt) if n.kind == 'stmt' else []:
                if isinstance(t, ast.Attribute) and \
                        t.attr in ('hide_expunged', '_hide_expunged'):
                    stores.append(n)
        good = False
        why = 'no store to hide_expunged'
        for s in stores:
            val = s.stmt.value if isinstance(s.stmt, ast.Assign) else None
            cst, v = const_value(val)
            if cst and v is True:
                # must sit on the not-uid branch of a test that dominates
                for t in cfg.nodes:
                    if t.kind != 'test':
                        continue
                    atoms = guard_atoms(t.stmt.test)
                    if len(atoms) != 1 or not atoms[0][0].endswith('.uid'):
                        continue
                    br = 'f' if atoms[0][1] else 't'
                    if not cfg.controlled_by(s, t, br):
                        continue
                    # every path from that branch to the call passes the store
                    firsts = [m for m, lab in t.succ if lab == br]
                    allok = True
                    for sc in sess_calls:
                        r = set()
                        for m in firsts:
                            if m is s:
                                continue
                            r |= cfg.reach([m], avoid=[s], include_starts=True,
                                           labels=ALL) if m is not s else set()
                            r.add(m)
                        if sc in r:
                            allok = False
                        if not cfg.dominated_by(sc, [t]):
                            allok = False
                    if allok:
                        good = True
                    else:
                        why = 'store does not precede the session call on ' \
                              'every non-UID path'
            elif val is not None and guard_atoms(val) and \
                    len(guard_atoms(val)) == 1 and \
                    guard_atoms(val)[0][0].endswith('.uid') and \
                    guard_atoms(val)[0][1] is False:
                if all(cfg.dominated_by(sc, [s]) for sc in sess_calls):
                    good = True
                else:
                    why = 'store does not dominate the session call'
            else:
                why = f'store of {txt(val)} is not True-under-not-uid'
        R.check(good, f, f.node, key,
                f'{cmdname}: {why}; an expunge learned during the command '
                f'would renumber the view while sequence numbers are being '
                f'reported', 'store under `not cmd.uid` precedes the call')
    # SelectedMailbox side
    sm = ctx.proj.cls(SEL, 'SelectedMailbox')
    au = sm.own_method('add_updates')
    if au is None:
        raise AnchorError('SelectedMailbox.add_updates vanished')
    synced = ctx.proj.cls(SEL, 'SynchronizedMessages')
    removers = [f for fs in synced.methods.values() for f in fs
                if 'pending' in f.params()]
    if not removers:
        raise AnchorError('no SynchronizedMessages method takes `pending`')
    for rm in removers:
        calls = [c for c in calls_in(au.node, rm.name)]
        key = f'add_updates forwards the flag to {rm.name}'
        if not calls:
            R.fail(au, au.node, key, f'add_updates never calls {rm.name}: '
                   f'expunges are not merged at all')
        for c in calls:
            b = bind_args(rm, c).get('pending')
            t = txt(b) if b is not None else ''
            R.check(t in ('self._hide_expunged', 'self.hide_expunged'),
                    au, c, key,
                    f'pending={t or "<missing>"}: removals are applied (or '
                    f'deferred) regardless of the hide-expunged flag',
                    'pending=self._hide_expunged')
        # in the remover, index mutation only when not pending
        cfg = cfg_of(rm)
        muts = _index_mutations(cfg)
        key = f'{rm.name}: index untouched while pending'
        bad = []
        for n in muts:
            ok = False
            for t in cfg.nodes:
                if t.kind == 'test' and isinstance(t.stmt, ast.If):
                    atoms = guard_atoms(t.stmt.test)
                    if atoms == [('pending', True)] and \
                            cfg.controlled_by(n, t, 'f'):
                        ok = True
                    if atoms == [('pending', False)] and \
                            cfg.controlled_by(n, t, 't'):
                        ok = True
            if not ok:
                bad.append(n.lineno)
        R.check(not bad and bool(muts), rm, rm.node, key,
                f'index mutated at lines {bad} on a path where pending may '
                f'be true' if muts else 'no index mutation found',
                f'{len(muts)} mutation(s), all on the not-pending branch')
        # pending set is drained when applied
        key = f'{rm.name}: deferred removals are applied later'
        uses = [n for n in walk_local(rm.node)
                if isinstance(n, ast.Attribute)
                and n.attr == '_pending_remove']
        stored = any(isinstance(c, ast.Call) and call_name(c) in
                     ('update', 'add', '__ior__') and
                     is_attr(c.func.value, '_pending_remove')
                     for c in calls_in(rm.node))
        read_back = any(
            isinstance(n, ast.Attribute) and n.attr == '_pending_remove'
            and isinstance(n.ctx, ast.Load)
            and not any(isinstance(p, ast.Call) and p.func is pp
                        for p in [None] for pp in [None])
            for n in uses)
        consumed = False
        for loop in [x for x in walk_local(rm.node)
                     if isinstance(x, (ast.For, ast.comprehension))]:
            if any(is_attr(a, '_pending_remove')
                   for a in ast.walk(loop.iter)):
                consumed = True
        R.check(stored and consumed, rm, rm.node, key,
                'deferred UIDs are ' + ('never stored' if not stored else
                                        'never iterated when removals are '
                                        'finally applied') +
                ': an expunge hidden during FETCH/STORE/SEARCH is lost',
                'stored under pending, iterated when applied')
    init = sm.own_method('__init__')
    fork = sm.own_method('fork')
    if init is None or fork is None:
        raise AnchorError('SelectedMailbox.__init__/fork vanished')
    st = [(s, t) for s in walk_local(init.node) for t in targets_of(s)
          if is_attr(t, '_hide_expunged', 'self')]
    vals = [const_value(s.value) for s, _ in st if isinstance(s, ast.Assign)]
    R.check(bool(vals) and all(v == (True, False) for v in vals), init,
            init.node, '__init__: hide_expunged starts False',
            'constructor does not initialise _hide_expunged to False')
    prop = [n for n in walk_local(fork.node)
            if (isinstance(n, ast.Attribute)
                and n.attr in ('_hide_expunged', 'hide_expunged'))
            or (isinstance(n, ast.keyword) and n.arg
                and 'hide_expunged' in n.arg)]
    R.check(not prop, fork, fork.node,
            'fork: deferral ends at the next fork',
            'fork propagates hide_expunged to the copy: EXPUNGEs stay hidden '
            'forever and the session never converges',
            'flag not propagated')


def _index_mutations(cfg):
    out = []
    for n in cfg.stmt_nodes():
        hit = False
        if n.kind == 'stmt':
            for t in targets_of(n.stmt):
                base = t.value if isinstance(t, ast.Subscript) else t
                if isinstance(base, ast.Attribute) and \
                        base.attr in ('_uids', '_sorted', '_seqs_cache'):
                    hit = True
        for c in n.calls():
            if isinstance(c.func, ast.Attribute) and \
                    isinstance(c.func.value, ast.Attribute) and \
                    c.func.value.attr in ('_uids', '_sorted', '_seqs_cache') \
                    and c.func.attr in ('remove', 'discard', 'add', 'insert',
                                        'pop', 'clear', 'append', 'update',
                                        'difference_update', 'sort'):
                hit = True
        if hit:
            out.append(n)
    return out


# ----------------------------------------------------------------------
def r15(ctx) -> None:
    R = ctx.rule('R1.5', 'fork exactly once per command; _selected ownership',
                 5)
    allowed = {'__init__', 'do_select', 'do_close', 'do_command',
               'receive_updates'}
    cs = ctx.proj.cls(STATE, 'ConnectionState')
    for f, s, t, rel in writers_of(ctx.proj, '_selected'):
        inside = f is not None and f.cls is cs and is_name(t.value, 'self')
        if not inside and rel != STATE and not (
                f is not None and f.cls is not None and any(
                    is_attr(x, '_selected', 'self') for fs in
                    f.cls.methods.get('__init__', []) for st in
                    walk_local(fs.node) for x in targets_of(st))):
            R.fail(f, s, f'foreign writer of _selected in {rel}',
                   'a function outside ConnectionState stores _selected')
            continue
        if f is None or f.cls is not cs:
            continue
        key = f'{f.qualname}: store to _selected'
        if f.name not in allowed:
            R.fail(f, s, key, f'{f.qualname} writes _selected; only '
                   f'{sorted(allowed)} may (selection changes outside the '
                   f'fork discipline desynchronise the view)')
            continue
        if f.name in ('__init__', 'do_select', 'do_close'):
            v = getattr(s, 'value', None)
            cst, val = const_value(v)
            R.check(cst and val is None, f, s, key,
                    f'{f.qualname} stores {txt(v)} (only None expected here)',
                    'stores None')
            continue
        # do_command / receive_updates: value is first component of X.fork()
        v = strip_await(getattr(s, 'value', None))
        good = False
        untag_exprs: list[str] = []
        fork_names = {nm for nm in {x.id for x in walk_local(f.node)
                                    if isinstance(x, ast.Name)}
                      if any(isinstance(strip_await(val), ast.Call)
                             and call_name(strip_await(val)) == 'fork'
                             for _, val in local_assigns(f, nm)
                             if val is not None
                             and not isinstance(val, ast.AugAssign))}
        tg = s.targets[0] if isinstance(s, ast.Assign) else None
        if isinstance(v, ast.Call) and call_name(v) == 'fork' and \
                isinstance(tg, ast.Tuple) and len(tg.elts) == 2 and \
                tg.elts[0] is t and isinstance(tg.elts[1], ast.Name):
            good = True
            untag_exprs.append(tg.elts[1].id)
        if isinstance(v, ast.Subscript) and \
                const_value(v.slice) == (True, 0):
            base = strip_await(v.value)
            if isinstance(base, ast.Call) and call_name(base) == 'fork':
                good = True
            elif isinstance(base, ast.Name) and base.id in fork_names:
                good = True
                untag_exprs.append(f'{base.id}[1]')
        if isinstance(v, ast.Name):
            # a, b = X.fork(cmd); self._selected = a
            for st, val in local_assigns(f, v.id):
                if isinstance(val, ast.Subscript) and \
                        const_value(val.slice) == (True, 0) and \
                        isinstance(strip_await(val.value), ast.Call) and \
                        call_name(strip_await(val.value)) == 'fork':
                    good = True
                    t0 = st.targets[0] if isinstance(st, ast.Assign) else None
                    if isinstance(t0, ast.Tuple) and len(t0.elts) == 2 and \
                            isinstance(t0.elts[1], ast.Name):
                        untag_exprs.append(t0.elts[1].id)
        R.check(good, f, s, key,
                f'{f.qualname} stores {txt(v)}: the selection kept for the '
                f'next command must be the first component of fork()',
                'first component of fork()')
        if good and untag_exprs:
            used = False
            for ue in untag_exprs:
                for c in calls_in(f.node, 'add_untagged'):
                    if any(ue in txt(a) for a in c.args):
                        used = True
                for n in walk_local(f.node):
                    if isinstance(n, ast.Return) and n.value is not None \
                            and ue in txt(n.value):
                        used = True
            R.check(used, f, s, f'{f.qualname}: fork output is delivered',
                    'the untagged responses computed by fork() are dropped: '
                    'the snapshot advances but the client is never told',
                    'added to the response / returned')
    # do_command forks on every non-None selection returned by a handler
    dc = cs.own_method('do_command')
    if dc is None:
        raise AnchorError('ConnectionState.do_command vanished')
    forks = list(calls_in(dc.node, 'fork'))
    R.check(len(forks) == 1, dc, dc.node, 'do_command: exactly one fork',
            f'{len(forks)} fork() calls in do_command')


def r16(ctx) -> None:
    R = ctx.rule('R1.6', 'synchronized index coherence', 4)
    synced = ctx.proj.cls(SEL, 'SynchronizedMessages')
    fields = ('_uids', '_sorted', '_seqs_cache')
    for fld in fields:
        for f, s, t, rel in writers_of(ctx.proj, fld):
            if fld == '_uids' and rel != SEL:
                # `_uids` is also a field of unrelated classes; receiver must
                # be a SynchronizedMessages: name-based superset restricted to
                # the selected.py module and `.messages.` receivers
                if 'messages' not in txt(t):
                    continue
            own = f is not None and f.cls is synced and \
                is_name(t.value, 'self')
            if rel == SEL and not own and f is not None and \
                    f.cls is not None and f.cls.name != 'SynchronizedMessages'\
                    and is_name(t.value, 'self'):
                continue            # another class's own field of that name
            R.check(own, f, s, f'writer of {fld}: '
                    f'{f.qualname if f else rel}',
                    f'{fld} written outside SynchronizedMessages')
    # the order list is always recomputed from the authoritative UID set
    for f, s_, t, rel in writers_of(ctx.proj, '_sorted'):
        if f is None or f.cls is not synced or f.name == '__init__' or \
                not isinstance(s_, ast.Assign):
            continue
        v = s_.value
        from_uids = isinstance(v, ast.Call) and call_name(v) == 'sorted' \
            and v.args and any(is_attr(x, '_uids', 'self')
                               for x in ast.walk(v.args[0]))
        R.check(from_uids, f, s_,
                f'{f.qualname}: _sorted is recomputed from self._uids',
                f'`{txt(s_)[:70]}` derives the new order from something '
                f'other than the UID set itself (the previous order minus '
                f'the UIDs of THIS call, say): UIDs removed by flushing the '
                f'deferred set are gone from _uids — their EXPUNGE is sent '
                f'— but stay in _sorted and _seqs_cache, and every later '
                f'sequence number is resolved against a numbering the '
                f'client no longer has', 'sorted(self._uids)')
    for fs in synced.methods.values():
        for f in fs:
            if f.name == '__init__':
                continue
            cfg = cfg_of(f)
            muts = []
            rebuilds = []
            for n in _index_mutations(cfg):
                is_cache = False
                for t in targets_of(n.stmt) if n.kind == 'stmt' else []:
                    base = t.value if isinstance(t, ast.Subscript) else t
                    if is_attr(base, '_seqs_cache'):
                        is_cache = True
                (rebuilds if is_cache else muts).append(n)
            for m in muts:
                if m in rebuilds:
                    continue
                r = cfg.reach([m], labels=NORMAL)
                R.check(bool(r & set(rebuilds)), f, m.stmt,
                        f'{f.qualname}: {txt(m.stmt)[:50]} -> cache refresh',
                        'the UID set/order is changed but no statement that '
                        'refreshes _seqs_cache is reachable afterwards: '
                        'sequence numbers reported from the cache go stale',
                        'a _seqs_cache write is reachable')


def r17(ctx) -> None:
    R = ctx.rule('R1.7', 'sequence number = index + 1', 4)
    m = ctx.proj.module(SEL)
    for f in m.funcs.values():
        if f.cls is None or f.cls.name != 'SynchronizedMessages':
            continue
        for c in calls_in(f.node, 'enumerate'):
            if not c.args:
                continue
            src = resolve_local(f, c.args[0])
            start = c.args[1] if len(c.args) > 1 else kwarg(c, 'start')
            key = f'{f.qualname}: enumerate({txt(c.args[0])[:30]}, …)'
            k = None           # offset of the iterated slice
            known = True
            for s in src:
                if isinstance(s, ast.Call) and call_name(s) == 'islice' and \
                        len(s.args) >= 3:
                    k = s.args[1]
                elif isinstance(s, ast.Call) and call_name(s) == 'islice':
                    known = False
            if not known:
                R.undecided(f, c, key, 'islice form not recognised')
                continue
            if k is None:
                cst, v = const_value(start)
                R.check(cst and v == 1, f, c, key,
                        f'enumeration of the sorted UID list starts at '
                        f'{txt(start) or 0}, not 1: every sequence number is '
                        f'shifted', 'start = 1')
            else:
                good = isinstance(start, ast.BinOp) and \
                    isinstance(start.op, ast.Add) and (
                        (txt(start.left) == txt(k)
                         and const_value(start.right) == (True, 1)) or
                        (txt(start.right) == txt(k)
                         and const_value(start.left) == (True, 1)))
                R.check(good, f, c, key,
                        f'slice starts at index {txt(k)} but numbering '
                        f'starts at {txt(start)} (must be {txt(k)} + 1)',
                        f'start = {txt(k)} + 1')


def r18(ctx) -> None:
    R = ctx.rule('R1.8', 'sequence sets resolved against the pre-merge view',
                 6)
    bs = ctx.proj.cls(SESS, 'BaseSession')
    for fs in bs.methods.values():
        for f in fs:
            params = f.params()
            if not any(p in ('sequence_set', 'uid_set', 'keys')
                       for p in params):
                continue
            cfg = cfg_of(f)
            resolves = cfg.find(lambda n: any(
                call_name(c) in ('get_all', 'get_uids', 'find',
                                 'find_deleted') for c in n.calls()))
            merges = cfg.find(lambda n: any(
                call_name(c) in ('update_selected', '_load_updates')
                for c in n.calls()))
            key = f'{f.qualname}: resolution precedes merge'
            if not resolves or not merges:
                R.undecided(f, f.node, key, 'no resolution or no merge call')
                continue
            bad = []
            for mg in merges:
                if mg in resolves:
                    # same statement: return x, await update_selected(...)
                    pass
                # a resolution reachable after a merge = numbers interpreted
                # against a view the client has not been told about yet
                after = cfg.reach([mg], labels=NORMAL)
                bad += [r.lineno for r in resolves if r in after
                        and r is not mg]
                if not cfg.dominated_by(mg, resolves):
                    bad.append(mg.lineno)
            R.check(not bad, f, f.node, key,
                    f'update_selected can run before the sequence set is '
                    f'resolved (lines {sorted(set(bad))}): numbers would be '
                    f'interpreted against a view the client does not have',
                    'every merge is dominated by the resolution')


def r19(ctx) -> None:
    R = ctx.rule('R1.9', 'every forked diff is delivered (IDLE loop)', 1)
    f = ctx.proj.func('pymap/imap/__init__.py',
                      'IMAPConnection.handle_updates')
    cfg = cfg_of(f)
    recv = cfg.find(lambda n: any(call_name(c) == 'receive_updates'
                                  for c in n.calls()))
    if not recv:
        R.fail(f, f.node, 'handle_updates calls receive_updates',
               'the IDLE loop never collects updates')
        return
    for r in recv:
        tg = [t.id for t in targets_of(r.stmt) if isinstance(t, ast.Name)] \
            if r.kind == 'stmt' else []
        writes = cfg.find(lambda n: any(
            call_name(c) in ('write_updates', 'write_response')
            and any(set(tg) & {x.id for x in ast.walk(a)
                               if isinstance(x, ast.Name)}
                    for a in c.args) for c in n.calls()))
        # from the receive, every normal path back to the loop head or to an
        # exit passes the write
        heads = [n for n in cfg.nodes if n.kind == 'test'
                 and isinstance(n.stmt, ast.While)]
        reach = cfg.reach([r], avoid=writes, labels=NORMAL)
        leak = [n for n in reach if n in heads or n is cfg.exit]
        R.check(bool(writes) and not leak, f, r.stmt,
                'handle_updates: the result of receive_updates is written '
                'on every path',
                'receive_updates() has already forked the selection (the '
                'snapshot advanced); on some path its untagged output is '
                'dropped (e.g. `if done.is_set(): break` before the write), '
                'and no later fork re-emits it: the client never sees that '
                'EXISTS/EXPUNGE and its numbering diverges for good')


def r110(ctx, rid: str = 'R1.10') -> None:
    R = ctx.rule(rid, 'per-command marks do not outlive a command that '
                 'failed', 2)
    STATE_ = 'pymap/imap/state.py'
    cs = ctx.proj.cls(STATE_, 'ConnectionState')
    sm = ctx.proj.cls('pymap/selected.py', 'SelectedMailbox')
    # which fields do the handlers mark before calling the session?
    marks = set()
    for fs in cs.methods.values():
        for f in fs:
            if not f.name.startswith('do_'):
                continue
            for s_ in walk_local(f.node):
                if isinstance(s_, ast.Assign):
                    for t in s_.targets:
                        if isinstance(t, ast.Attribute) and \
                                txt(t.value) == 'self.selected':
                            marks.add(t.attr)
                if isinstance(s_, ast.Call) and isinstance(
                        s_.func, ast.Attribute) and \
                        txt(s_.func.value) == 'self.selected' and \
                        s_.func.attr == 'silence':
                    marks.add('silence')
    if not {'hide_expunged', 'silence'} <= marks:
        raise AnchorError(f'command handlers mark {sorted(marks)}: '
                          f'hide_expunged / silence() not found')
    # fork() creates the next selection WITHOUT those marks ...
    fork = sm.own_method('fork')
    init = sm.own_method('__init__')
    ctor = next((c for c in calls_in(fork.node)
                 if call_name(c) in ('cls', 'SelectedMailbox')), None)
    carried = {k.arg for k in ctor.keywords} if ctor is not None else set()
    R.check(ctor is not None and not (carried & {'_hide_expunged',
                                                 '_silenced_flags',
                                                 '_silenced_sflags'}),
            fork, fork.node, 'fork() starts the next command with clean '
            'marks', 'fork() carries the per-command marks over')
    # ... and do_command resets them when the handler raises instead
    dc = cs.own_method('do_command')
    call = next((c for c in calls_in(dc.node) if call_name(c) == 'func'),
                None)
    if call is None:
        raise AnchorError('do_command: handler call `func(cmd)` not found')
    resets: set[str] = set()
    broad = False
    for t in enclosing(dc.node, call, (ast.Try,)):
        if not any(call is x for b in t.body for x in ast.walk(b)):
            continue
        for h in t.handlers:
            names = ['BaseException'] if h.type is None else (
                [txt(e).split('.')[-1] for e in h.type.elts]
                if isinstance(h.type, ast.Tuple)
                else [txt(h.type).split('.')[-1]])
            if not ({'BaseException', 'Exception'} & set(names)):
                continue
            if not any(isinstance(x, ast.Raise) for x in h.body):
                continue
            broad = True
            for x in [y for b in h.body for y in ast.walk(b)]:
                if isinstance(x, ast.Assign):
                    for tg in x.targets:
                        if isinstance(tg, ast.Attribute) and \
                                'selected' in txt(tg.value) and \
                                const_value(x.value) == (True, False):
                            resets.add(tg.attr.lstrip('_'))
                if isinstance(x, ast.Call) and isinstance(
                        x.func, ast.Attribute) and \
                        'selected' in txt(x.func.value):
                    m = sm.own_method(x.func.attr)
                    if m is None:
                        continue
                    for y in walk_local(m.node):
                        if isinstance(y, ast.Assign):
                            for tg in y.targets:
                                if isinstance(tg, ast.Attribute) and \
                                        is_name(tg.value, 'self') and \
                                        const_value(y.value) == (True,
                                                                 False):
                                    resets.add(tg.attr.lstrip('_'))
                        if isinstance(y, ast.Call) and isinstance(
                                y.func, ast.Attribute) and \
                                y.func.attr == 'clear' and isinstance(
                                    y.func.value, ast.Attribute):
                            resets.add(y.func.value.attr.lstrip('_'))
    need = {'hide_expunged', 'silenced_flags', 'silenced_sflags'}
    R.check(broad and need <= resets, dc, call,
            'do_command resets hide_expunged and the silenced flags when '
            'the handler raises',
            f'the handler call is not under an `except (Base)Exception: '
            f'<reset>; raise` that resets {sorted(need - resets)}: the '
            f'marks are set BEFORE the session call and only fork() (after '
            f'a successful handler) drops them, so a refused command '
            f'(STORE in an EXAMINE session -> NO [READ-ONLY]) leaves them '
            f'on the selection and the next NOOP withholds * n EXPUNGE / '
            f'swallows a flag change')


def r111(ctx) -> None:
    """A count announced outside the snapshot comparison (SELECT/EXAMINE)
    must be the count of the view that later sequence numbers are resolved
    against: <the SelectedMailbox of select_mailbox()>.messages.exists.  The
    MailboxSnapshot is taken by an earlier await; anything that lands between
    the two awaits makes the two numbers differ, and no later response
    corrects the client."""
    R = ctx.rule('R1.11', 'a count announced outside the comparison is the '
                 'synchronized view\'s', 1)
    own = {id(f.node) for f in compare_func(ctx)}
    for f in ctx.proj.all_funcs('pymap/'):
        if id(f.node) in own:
            continue
        for c in calls_in(f.node, 'ExistsResponse'):
            key = f'{f.qualname}: ExistsResponse argument'
            if not c.args:
                R.undecided(f, c, key, 'no argument')
                continue
            # role: (snapshot, view) = await ...select_mailbox(...)
            snap = view = None
            for st in walk_local(f.node):
                if isinstance(st, ast.Assign) and \
                        isinstance(st.targets[0], ast.Tuple) and \
                        len(st.targets[0].elts) == 2 and \
                        isinstance(strip_await(st.value), ast.Call) and \
                        call_name(strip_await(st.value)) == 'select_mailbox':
                    a, b = st.targets[0].elts
                    snap, view = txt(a), txt(b)
            if view is None:
                R.undecided(f, c, key, 'no (snapshot, view) = '
                            'select_mailbox(...) in this function')
                continue
            verdicts = set()
            for v in resolve_local(f, c.args[0]):
                base = None
                if isinstance(v, ast.Attribute) and v.attr == 'exists':
                    bases = {txt(b) for b in resolve_local(f, v.value)}
                    if bases == {f'{view}.messages'}:
                        verdicts.add('view')
                        continue
                    base = bases
                if isinstance(v, ast.Call) and call_name(v) == 'len' and \
                        v.args and txt(v.args[0]).startswith(
                            f'{view}.messages'):
                    verdicts.add('view')
                    continue
                if snap in names_in(v) or (base and any(
                        b == snap or b.startswith(snap + '.') for b in base)):
                    verdicts.add('snapshot')
                else:
                    verdicts.add('unknown:' + txt(v))
            if 'snapshot' in verdicts:
                R.fail(f, c, key,
                       f'EXISTS is taken from the snapshot `{snap}` and not '
                       f'from `{view}.messages`: select_mailbox() builds '
                       f'them by two separate awaits; an APPEND or EXPUNGE '
                       f'of another session between the two makes the '
                       f'announced count differ from the view that '
                       f'interprets every later sequence number, and the '
                       f'next comparison starts from the view, so nothing '
                       f'ever corrects the client')
            elif verdicts == {'view'}:
                R.ok(f, c, key, f'{view}.messages.exists')
            else:
                R.undecided(f, c, key, f'argument resolves to '
                            f'{sorted(verdicts)}')


RESP = 'pymap/parsing/response/__init__.py'
SPEC = 'pymap/parsing/response/specials.py'


def r112(ctx) -> None:
    """One command's untagged FETCH responses are merged by sequence number.
    A UID command does not defer expunges, so its response can hold an
    EXPUNGE between FETCH lines numbered before it and FETCH lines numbered
    after it.  The merge index must not survive the EXPUNGE: otherwise the
    update of the message that is number n afterwards is folded into the
    line of the message that was number n before, and written before the
    EXPUNGE."""
    R = ctx.rule('R1.12', 'FETCH responses are never merged across an '
                 'EXPUNGE', 1)
    cr = ctx.proj.cls(RESP, 'CommandResponse')
    f = cr.own_method('add_untagged')
    if f is None:
        raise AnchorError('CommandResponse.add_untagged vanished')
    cfg = cfg_of(f)
    # the merge index: the mapping subscripted to find where to merge
    merges = [c for c in calls_in(f.node, 'merge')]
    if not merges:
        R.ok(f, f.node, 'add_untagged does not merge responses',
             'nothing to separate')
        return
    # the merge index: the self.<mapping> that is read by key; the response
    # list itself is the one that .append() is called on
    appended = {c.func.value.attr for c in calls_in(f.node, 'append')
                if isinstance(c.func.value, ast.Attribute)}
    idx_fields = {x.value.attr for x in walk_local(f.node)
                  if isinstance(x, ast.Subscript)
                  and isinstance(x.ctx, ast.Load)
                  and isinstance(x.value, ast.Attribute)
                  and is_name(x.value.value, 'self')} - appended
    key = 'add_untagged: the merge index is dropped when an EXPUNGE is added'
    if len(idx_fields) != 1:
        R.undecided(f, f.node, key, f'merge index field not unique: '
                    f'{sorted(idx_fields)}')
        return
    fld = idx_fields.pop()
    exp = ctx.proj.cls(SPEC, 'ExpungeResponse')
    drops = []
    for n in cfg.stmt_nodes():
        for c in n.calls():
            if call_name(c) == 'clear' and is_attr(c.func.value, fld):
                drops.append(n)
        for t in targets_of(n.stmt) if n.kind == 'stmt' else []:
            if is_attr(t, fld, 'self'):
                drops.append(n)
    loop_var = None
    for l in walk_local(f.node):
        if isinstance(l, ast.For) and isinstance(l.target, ast.Name):
            loop_var = l.target.id
    ok = False
    why = f'no statement of add_untagged drops `self.{fld}`'
    for d in drops:
        tests = [t for t in cfg.nodes if t.kind == 'test'
                 and isinstance(t.stmt, (ast.If, ast.While))
                 and (cfg.controlled_by(d, t, 't')
                      or cfg.controlled_by(d, t, 'f'))]
        conds = []
        for t in tests:
            pol = cfg.controlled_by(d, t, 't')
            for a, p_ in guard_atoms(t.stmt.test if pol else ast.UnaryOp(
                    ast.Not(), t.stmt.test)):
                conds.append((a, p_))
        holds = True
        for a, p_ in conds:
            a_ = a.replace(' ', '')
            if loop_var and a_.startswith(loop_var + '.'):
                attr = a_[len(loop_var) + 1:]
                pa = exp.find_attr(attr)
                val = const_value(pa[1]) if pa else (False, None)
                if not (val[0] and bool(val[1]) == p_):
                    holds = False
                    why = (f'`{a}` is not a constant {p_} on '
                           f'ExpungeResponse')
            elif a_ == f'isinstance({loop_var},ExpungeResponse)' and p_:
                continue
            else:
                holds = False
                why = f'drop is under `{a}`, not known for ExpungeResponse'
        if holds:
            ok = True
    R.check(ok, f, f.node, key,
            f'{why}: a UID FETCH/STORE whose response contains `* 2 '
            f'EXPUNGE` (another session expunged) folds the flag update of '
            f'the message that is number 3 AFTER the expunge into the line '
            f'of the message that was number 3 BEFORE it — `* 3 FETCH (UID '
            f'104 FLAGS ..)`, `* 4 FETCH (UID 104)`, `* 2 EXPUNGE`: the '
            f'client holds one UID for two numbers and has lost another',
            f'self.{fld} dropped for ExpungeResponse')

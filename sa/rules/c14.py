"""C14 — nothing lost when a command fails midway: R14.1-R14.3."""
from __future__ import annotations

import ast

from ..cfg import NORMAL, ALL, walk_local
from ..facts import (cfg_of, call_name, calls_in, targets_of, guard_atoms,
                     is_attr, is_name, enclosing, local_assigns,
                     strip_await, attr_chain)
from ..loader import txt, AnchorError
from ..suspend import SuspModel
from .c02 import mutation_sites, dict_mailbox

DICT = 'pymap/backend/dict/mailbox.py'
MAILDIR = 'pymap/backend/maildir/mailbox.py'
SESS = 'pymap/backend/session.py'

BACKEND_MUTATORS = {'append', 'copy', 'move', 'update', 'delete',
                    'add_mailbox', 'delete_mailbox', 'rename_mailbox',
                    'set_subscribed', 'claim_recent'}


def check(ctx) -> None:
    ctx.explanation = (
        'Static decision of structural necessary conditions of C14: in the '
        'dict MOVE no REAL suspension point (one where the scheduler can '
        'switch tasks or deliver a cancellation) lies between removing the '
        'message from the source and inserting it into the destination; the '
        'maildir MOVE is a single rename; a loop that performs one '
        'persistent append per iteration has a handler that undoes the '
        'prefix when a later iteration fails; every explicit refusal in the '
        'session layer precedes the first mutating backend call.')
    ctx.not_decided = ('conservation under injected faults at every storage '
                       'call; maildir kill points (C15).')
    r141(ctx)
    r142(ctx)
    r143(ctx)
    r145(ctx)
    from . import c06
    before = len(ctx.rules)
    c06.r68(ctx)
    r = ctx.rules[before]
    r.id = 'R14.6'
    r.title = 'a message in transit never waits for a lock its own task ' \
              'holds (= R6.8)'
    for i in r.instances:
        i.rule = 'R14.6'
    from . import c04
    before = len(ctx.rules)
    c04.r41(ctx)
    r = ctx.rules[before]
    r.id = 'R14.4'
    r.title = 'an insertion never overwrites: the UID is chosen under the ' \
              'destination lock (= R4.1)'
    for i in r.instances:
        i.rule = 'R14.4'


def r141(ctx) -> None:
    R = ctx.rule('R14.1', 'MOVE: no real suspension between removal and '
                 'insertion', 2)
    cls = dict_mailbox(ctx)
    f = cls.own_method('move')
    if f is None:
        raise AnchorError('dict move vanished')
    cfg = cfg_of(f)
    sites = mutation_sites(cfg)
    rem = [n for n, r, k, w in sites if k == 'expunge' and r == 'self']
    ins = [n for n, r, k, w in sites if k == 'update' and r != 'self']
    if not rem or not ins:
        R.fail(f, f.node, 'dict move: the message is TAKEN out of the source '
               'by the read that yields it',
               'move() contains no removing read of self._messages (pop '
               'under the source write lock) feeding an insert into the '
               'destination: looking the message up and removing it in '
               'separate critical sections lets two sessions move (or one '
               'move and one expunge) the same message — it ends up in two '
               'mailboxes, or reappears after EXPUNGE')
        return
    # the inserted object derives from the removing read
    pops = {t.id for n_, r_, k_, w_ in sites if k_ == 'expunge'
            for t in targets_of(n_.stmt) if isinstance(t, ast.Name)} \
        if rem else set()
    flows = any(pops & {x.id for x in ast.walk(n_.stmt)
                        if isinstance(x, ast.Name)}
                or any(pops & {y.id for _, v in local_assigns(f, nm)
                               if v is not None for y in ast.walk(v)
                               if isinstance(y, ast.Name)}
                       for nm in {x.id for x in ast.walk(n_.stmt)
                                  if isinstance(x, ast.Name)})
                for n_ in ins)
    R.check(flows or not pops, f, f.node, 'dict move: the inserted message '
            'derives from the removing read',
            'what is inserted into the destination is not the object popped '
            'from the source')
    model = SuspModel(ctx.proj, [DICT])
    real = model.real_nodes(f, cfg)
    # insertion before removal is always fine
    ins_first = all(cfg.dominated_by(r, ins, labels=NORMAL) for r in rem)
    mid = cfg.between(rem, ins)
    bad = sorted({n.lineno for n in mid if n in real})
    syntactic = sorted({n.lineno for n in mid if n.suspends})
    R.check(ins_first or not bad, f, f.node,
            'dict move: window between pop and insert',
            f'real suspension point(s) at line(s) {bad} between removing '
            f'the message from the source and inserting it into the '
            f'destination: a cancellation (client disconnect) or a task '
            f'switch there leaves the message in NEITHER mailbox '
            f'({model.describe()})',
            'insert precedes removal' if ins_first else
            f'{len(syntactic)} syntactic suspension node(s) at '
            f'{syntactic}, none can really suspend: {model.describe()}')
    ctx.extra_coverage['suspension_model'] = model.describe()
    # maildir: single rename
    md = ctx.proj.cls(MAILDIR, 'Maildir')
    mm = md.own_method('move_message')
    mcls = ctx.proj.cls(MAILDIR, 'MailboxData')
    mv = mcls.own_method('move')
    if mm is None or mv is None:
        raise AnchorError('maildir move/move_message vanished')
    renames = [c for c in calls_in(mm.node, 'rename')]
    others = [c for c in calls_in(mm.node)
              if call_name(c) in ('remove', 'unlink', 'copy', 'copyfile',
                                  'copy2', 'link')]
    uses = list(calls_in(mv.node, 'move_message'))
    sep = [c for c in calls_in(mv.node)
           if call_name(c) in ('remove', 'discard', 'add')
           and 'maildir' in txt(c.func.value)]
    R.check(len(renames) == 1 and not others and bool(uses) and not sep,
            mv, mv.node, 'maildir move: removal and insertion are one '
            'os.rename',
            'the maildir MOVE is not a single rename (copy+delete or '
            'add+remove): a crash between the steps duplicates or loses '
            'the message')


def r142(ctx) -> None:
    R = ctx.rule('R14.2', 'a loop of persistent appends undoes its prefix on '
                 'failure', 1)
    bs = ctx.proj.cls(SESS, 'BaseSession')
    f = bs.own_method('append_messages')
    if f is None:
        raise AnchorError('append_messages vanished')
    found = False
    # the storage step must stay inside the command's task: shield() /
    # create_task() let it finish AFTER the rollback has run
    detached = [c for c in ast.walk(f.node) if isinstance(c, ast.Call)
                and call_name(c) in ('shield', 'create_task',
                                     'ensure_future', 'gather')]
    if detached:
        R.fail(f, detached[0], 'append_messages: MULTIAPPEND prefix is '
               'undone when a later message fails',
               f'`{txt(detached[0])[:60]}` detaches the storage step from '
               f'the command: when the command is cancelled while an '
               f'append waits for the mailbox lock, CancelledError reaches '
               f'append_messages, the rollback deletes the UIDs collected '
               f'so far — and the shielded append then completes and '
               f'stores its message: a failed MULTIAPPEND leaves one '
               f'message behind')
        return
    for loop in [x for x in walk_local(f.node)
                 if isinstance(x, (ast.For, ast.AsyncFor))]:
        apps = [c for s in loop.body for c in calls_in(s, 'append')
                if isinstance(c.func.value, ast.Name)
                and any(isinstance(strip_await(v), ast.Call)
                        and call_name(strip_await(v)) in ('_get_mailbox',
                                                          'get_mailbox')
                        for _, v in local_assigns(f, c.func.value.id)
                        if v is not None)]
        if not apps:
            continue
        found = True
        mbx = apps[0].func.value.id
        # enclosing try (around the loop, or the body) with a handler that
        # deletes what was appended and re-raises
        tries = [t for t in enclosing(f.node, loop, (ast.Try,))] + \
                [t for s in loop.body for t in ast.walk(s)
                 if isinstance(t, ast.Try)]
        ok = False
        narrow_note = False
        conditional: list = []
        for t in tries:
            for h in t.handlers:
                # task cancellation (asyncio.CancelledError) is a
                # BaseException: `except Exception` does not see it
                names = ['BaseException'] if h.type is None else (
                    [txt(e).split('.')[-1] for e in h.type.elts]
                    if isinstance(h.type, ast.Tuple)
                    else [txt(h.type).split('.')[-1]])
                broad = 'BaseException' in names or (
                    'Exception' in names and 'CancelledError' in names)
                if 'Exception' in names and not broad:
                    narrow_note = True
                undos = [c for s in h.body for c in calls_in(s)
                         if call_name(c) == 'delete'
                         and txt(c.func.value) == mbx]
                undo = bool(undos)
                reraise = any(isinstance(s, ast.Raise) for s in h.body)
                # ... and the undo is not subject to a condition other than
                # "something was stored"
                for c in undos:
                    arg = txt(c.args[0]) if c.args else ''
                    for g in enclosing(f.node, c, (ast.If, ast.While,
                                                   ast.For, ast.IfExp)):
                        if not any(x is g for s in h.body
                                   for x in ast.walk(s)):
                            continue
                        t_ = txt(getattr(g, 'test', g)).replace(' ', '')
                        if isinstance(g, ast.If) and t_ in (
                                arg, f'len({arg})>0', f'len({arg})>=1',
                                f'len({arg})!=0', f'{arg}!=[]'):
                            continue
                        conditional.append((c, txt(getattr(g, 'test', g))))
                if broad and undo and reraise:
                    ok = True
            if t.finalbody and any(call_name(c) == 'delete'
                                   for s in t.finalbody for c in calls_in(s)):
                ok = True
        # ... and it undoes what THIS loop has stored so far: the list handed
        # to delete() grows inside the loop, once per stored message
        stale = None
        for t in tries:
            for h in t.handlers:
                for s2 in h.body:
                    for c in calls_in(s2):
                        if call_name(c) == 'delete' and \
                                txt(c.func.value) == mbx and c.args and \
                                isinstance(c.args[0], ast.Name):
                            lst = c.args[0].id
                            grows = any(
                                call_name(a) in ('append', 'extend', 'add')
                                and txt(a.func.value) == lst
                                for st in loop.body for a in calls_in(st))
                            if not grows:
                                stale = (c, lst)
        if ok and stale:
            c, lst = stale
            R.fail(f, c, 'append_messages: MULTIAPPEND prefix is undone '
                   'when a later message fails',
                   f'the rollback deletes `{lst}`, but the loop that stores '
                   f'the messages never adds to `{lst}` (it is filled only '
                   f'after the loop): when message n fails the list is '
                   f'still empty, nothing is undone and the first n-1 '
                   f'messages of a MULTIAPPEND that did not end in OK stay '
                   f'in the mailbox')
            continue
        if ok and conditional:
            c, test = conditional[0]
            R.fail(f, c, 'append_messages: MULTIAPPEND prefix is undone '
                   'when a later message fails',
                   f'the undo `{txt(c)}` runs only if `{test}`: the test is '
                   f'on what has been STORED so far, not on the size of the '
                   f'command — a MULTIAPPEND that fails in its second '
                   f'message has stored exactly one, keeps it, and the '
                   f'command still ends without OK (RFC 3502: all or '
                   f'nothing)')
            continue
        R.check(ok, f, loop, 'append_messages: MULTIAPPEND prefix is undone '
                'when a later message fails',
                'each iteration stores one message persistently and a later '
                'iteration can fail (content parsing / thread keys raise on '
                'hostile content; cancellation), but no handler removes the '
                'messages already stored (a handler for `Exception` alone '
                'does not run on task cancellation, which is a '
                'BaseException): MULTIAPPEND (good, bad) — or a client '
                'disconnect after the first message — ends without OK and '
                'the first message stays in the mailbox (RFC 3502: all or '
                'nothing)',
                'handler deletes the stored prefix and re-raises')
    if not found:
        raise AnchorError('append_messages: append loop not found')


def r143(ctx) -> None:
    R = ctx.rule('R14.3', 'refusals precede the first mutation', 5)
    bs = ctx.proj.cls(SESS, 'BaseSession')
    for fs in bs.methods.values():
        for f in fs:
            cfg = cfg_of(f)
            raises = cfg.find(lambda n: isinstance(n.stmt, ast.Raise)
                              and n.stmt.exc is not None)
            if not raises:
                continue
            muts = cfg.find(lambda n: any(
                call_name(c) in BACKEND_MUTATORS
                and isinstance(c.func, ast.Attribute)
                and not is_name(c.func.value, 'self')
                and ('mailbox_set' in txt(c.func.value) or any(
                    isinstance(strip_await(v), ast.Call) and call_name(
                        strip_await(v)) in ('_get_mailbox', '_get_selected',
                                            'get_mailbox')
                    for _, v in local_assigns(
                        f, c.func.value.id if isinstance(
                            c.func.value, ast.Name) else '')
                    if v is not None))
                for c in n.calls()))
            after = cfg.reach(muts, labels=NORMAL) if muts else set()
            # raises inside handlers that translate the mutator's own error
            # are part of the same (failed) step
            bad = []
            for r in raises:
                if r not in after:
                    continue
                hs = enclosing(f.node, r.stmt, (ast.ExceptHandler,))
                if hs:
                    continue
                bad.append(r.lineno)
            R.check(not bad, f, f.node,
                    f'{f.qualname}: every explicit refusal precedes the '
                    f'first mutating call',
                    f'raise at line(s) {bad} is reachable after a mutating '
                    f'backend call: the command answers NO/BAD although '
                    f'part of its effect is already applied',
                    f'{len(raises)} raise(s), {len(muts)} mutating '
                    f'call node(s)')


def r145(ctx) -> None:
    R = ctx.rule('R14.5', 'maildir: a message file that gets no UID record is '
                 'removed again', 2)
    cls = ctx.proj.cls(MAILDIR, 'MailboxData')
    for name in ('append', 'copy'):
        f = cls.own_method(name)
        if f is None:
            raise AnchorError(f'maildir {name} vanished')
        adds = [(s_, c) for s_ in walk_local(f.node)
                if isinstance(s_, ast.Assign) for c in [s_.value]
                if isinstance(c, ast.Call) and call_name(c) == 'add'
                and 'maildir' in txt(c.func.value)]
        blocks = [w for w in walk_local(f.node)
                  if isinstance(w, ast.AsyncWith) and any(
                      isinstance(i.context_expr, ast.Call)
                      and call_name(i.context_expr) == 'with_write'
                      for i in w.items)]
        if len(adds) != 1 or not blocks:
            raise AnchorError(f'maildir {name}: add() / with_write block '
                              f'not found')
        st, addc = adds[0]
        key = txt(st.targets[0])
        recv = txt(addc.func.value)
        ok = False
        for w in blocks:
            if not any(isinstance(x, ast.Call) and call_name(x) == 'set'
                       for b in w.body for x in ast.walk(b)):
                continue            # not the block that records the UID
            for t in enclosing(f.node, w, (ast.Try,)):
                if not any(w is x for b in t.body for x in ast.walk(b)):
                    continue
                for h in t.handlers:
                    names = ['BaseException'] if h.type is None else (
                        [txt(e).split('.')[-1] for e in h.type.elts]
                        if isinstance(h.type, ast.Tuple)
                        else [txt(h.type).split('.')[-1]])
                    broad = 'BaseException' in names or (
                        'Exception' in names and 'CancelledError' in names)
                    undo = any(isinstance(x, ast.Call) and call_name(x) in (
                        'discard', 'remove') and txt(x.func.value) == recv
                        and x.args and txt(x.args[0]) == key
                        for b in h.body for x in ast.walk(b))
                    rer = any(isinstance(x, ast.Raise) for x in h.body)
                    if broad and undo and rer:
                        ok = True
        R.check(ok, f, addc, f'maildir {name}: the added file is discarded '
                f'when the UID-list update fails',
                f'`{txt(st)}` puts the message file into the mailbox before '
                f'the UID list is updated under its lock, and no `except '
                f'BaseException: {recv}.discard({key}); raise` surrounds '
                f'that update: a command cancelled while waiting for the '
                f'lock (client went away) or a lock timeout leaves a file '
                f'without UID, which the next reset() adopts — a message '
                f'of an APPEND/COPY that never completed appears later, and '
                f'the MULTIAPPEND rollback cannot remove it')

"""C09 — authentication and authorization: R9.1-R9.8."""
from __future__ import annotations

import ast
import itertools

from ..cfg import NORMAL, ALL, walk_local
from ..facts import (cfg_of, call_name, calls_in, targets_of, guard_atoms,
                     is_attr, is_name, enclosing, local_assigns, kwarg,
                     const_value, strip_await, resolve_local, writers_of,
                     bind_args, names_in)
from ..loader import txt, AnchorError
from . import c05

STATE = 'pymap/imap/state.py'
SIEVE = 'pymap/sieve/manage/__init__.py'
USER = 'pymap/user.py'
BACKENDS = ('pymap/backend/dict/__init__.py',
            'pymap/backend/maildir/__init__.py')


def check(ctx) -> None:
    ctx.explanation = (
        'Static decision of structural necessary conditions of C09: the '
        'session / sieve-state / mechanism fields have the enumerated '
        'writers only and are assigned from the login chain; _login calls '
        'authenticate, then authorize on its result with the credentials\' '
        'authzid, then opens the session on the authorized identity; every '
        'backend authenticate returns only after check_password succeeded '
        '(falsy result raises InvalidAuth) and substitutes a password-less '
        'user for an unknown one; check_password resolves to '
        'credentials.verify(user); authorize raises exactly when '
        'authcid != authzid and the user is not privileged; LOGIN tests '
        'LOGINDISABLED before building credentials and the token is '
        'advertised exactly when PLAIN is not offered; every route to the '
        'authentication handler passes the state gate.')
    ctx.not_decided = ('pysasl mechanism internals and hash verification; '
                       'soundness over all credential strings.')
    r91(ctx)
    r92(ctx)
    r93(ctx)
    r94(ctx)
    r95(ctx)
    r96(ctx)
    r98(ctx)
    r99(ctx)


def r91(ctx) -> None:
    # IMAP part
    before = len(ctx.rules)
    c05.r57(ctx)
    r = ctx.rules[before]
    r.id = 'R9.1'
    r.title = '_session / _state ownership'
    for i in r.instances:
        i.rule = 'R9.1'
    R = r
    conn = ctx.proj.cls(SIEVE, 'ManageSieveConnection')
    allowed = {'__init__', '_do_greeting', '_do_authenticate',
               '_do_unauthenticate'}
    n = 0
    for f, s, t, rel in writers_of(ctx.proj, '_state'):
        if not rel.startswith('pymap/sieve/manage/'):
            continue
        if f is None or f.cls is not conn:
            if f is not None and f.cls is not None and \
                    is_name(t.value, 'self'):
                continue
            R.fail(f, s, f'foreign writer of sieve _state in {rel}',
                   'ManageSieve authentication state written from outside '
                   'the connection class')
            continue
        n += 1
        who = f.qualname
        R.check(f.name in allowed, f, s, f'writer of sieve _state: {who}',
                f'{who} stores ManageSieveConnection._state; only '
                f'{sorted(allowed)} may')
        v = getattr(s, 'value', None)
        if f.name in ('__init__', '_do_unauthenticate'):
            R.check(const_value(v) == (True, None), f, s,
                    f'{who}: stores None', f'{who} stores {txt(v)}')
        elif f.name in allowed:
            # R9.7: value derives from the session returned by _login, and
            # the store is dominated by the awaited login
            ok = False
            if isinstance(v, ast.Call) and v.args:
                for a in resolve_local(f, v.args[0]):
                    a = strip_await(a)
                    if isinstance(a, ast.Call) and call_name(a) == '_login':
                        ok = True
            R.check(ok, f, s, f'{who}: _state built from the session '
                    f'returned by _login',
                    f'_state is assigned {txt(v)}, which does not derive '
                    f'from the result of the login chain: the connection '
                    f'becomes authenticated without verified credentials')
    if n < 4:
        raise AnchorError('sieve _state writers not found')


def r92(ctx) -> None:
    R = ctx.rule('R9.2', 'authenticate -> authorize -> session chain', 2)
    cs = ctx.proj.cls(STATE, 'ConnectionState')
    f = cs.own_method('_login')
    if f is None:
        raise AnchorError('ConnectionState._login vanished')
    creds = f.params()[1] if len(f.params()) > 1 else 'creds'
    calls = {call_name(c): c for c in calls_in(f.node)}
    au, az, ns = (calls.get('authenticate'), calls.get('authorize'),
                  calls.get('new_session'))
    ok = au is not None and az is not None and ns is not None
    why = 'authenticate/authorize/new_session not all called'
    if ok:
        ok = False
        a_args = [txt(x) for x in au.args]
        if a_args != [creds]:
            why = f'authenticate({a_args}) is not given the credentials'
        else:
            z0 = resolve_local(f, az.args[0]) if az.args else []
            z_ok = any(strip_await(v) is au or (
                isinstance(strip_await(v), ast.Call)
                and call_name(strip_await(v)) == 'authenticate') for v in z0)
            z1 = txt(az.args[1]) if len(az.args) > 1 else ''
            if not z_ok:
                why = 'authorize() is not applied to the result of ' \
                      'authenticate()'
            elif z1 != f'{creds}.authzid':
                why = f'authorize(…, {z1}) does not use the credentials\' ' \
                      f'authzid'
            else:
                base = ns.func.value if isinstance(ns.func, ast.Attribute) \
                    else None
                n0 = resolve_local(f, base) if base is not None else []
                if any(isinstance(strip_await(v), ast.Call) and call_name(
                        strip_await(v)) == 'authorize' for v in n0):
                    ok = True
                else:
                    why = 'the session is opened on an identity that did ' \
                          'not pass authorize()'
        # no handler swallowing failures
        if ok and any(isinstance(x, ast.Try) for x in walk_local(f.node)):
            for t in [x for x in walk_local(f.node)
                      if isinstance(x, ast.Try)]:
                for h in t.handlers:
                    if not any(isinstance(s, ast.Raise) for s in h.body):
                        ok = False
                        why = 'a handler in _login swallows a login failure'
    R.check(ok, f, f.node, 'IMAP _login: authenticate, authorize(result, '
            'authzid), new_session on the authorized identity', why)
    conn = ctx.proj.cls(SIEVE, 'ManageSieveConnection')
    g = conn.own_method('_login')
    if g is None:
        raise AnchorError('ManageSieveConnection._login vanished')
    calls = {call_name(c): c for c in calls_in(g.node)}
    au, ns = calls.get('authenticate'), calls.get('new_session')
    ok = False
    why = 'authenticate/new_session not both called'
    if au is not None and ns is not None:
        base = ns.func.value if isinstance(ns.func, ast.Attribute) else None
        n0 = [strip_await(v) for v in resolve_local(g, base)] \
            if base is not None else []
        ok = any(isinstance(v, ast.Call) and call_name(v) in
                 ('authenticate', 'authorize') for v in n0)
        why = 'the sieve session is opened on an identity that is not the ' \
              'result of authenticate()/authorize()'
    R.check(ok, g, g.node, 'sieve _login: session on the authenticated '
            'identity', why)
    login_dominated(ctx, R, f, 'IMAP')
    login_dominated(ctx, R, g, 'sieve')


def login_dominated(ctx, R, f, label: str) -> None:
    """Every normal return of a _login coroutine passed authenticate()."""
    cfg = cfg_of(f)
    auth = cfg.find(lambda n: any(call_name(c) == 'authenticate'
                                  for c in n.calls()))
    rets = cfg.find(lambda n: isinstance(n.stmt, ast.Return))
    bad = [r.lineno for r in rets
           if not cfg.dominated_by(r, auth, labels=NORMAL)]
    if cfg.exit in cfg.reach([cfg.entry], avoid=auth, labels=NORMAL,
                             first_labels=NORMAL) and not rets:
        bad.append(f.node.lineno)
    R.check(bool(auth) and not bad, f, f.node,
            f'{label} _login: every return passed login.authenticate(creds)',
            f'return at line(s) {bad} is reachable without calling '
            f'login.authenticate(): a session is handed out for credentials '
            f'that were never verified (e.g. a per-connection session cache '
            f'keyed by authcid: AUTHENTICATE ok, UNAUTHENTICATE, '
            f'AUTHENTICATE with a wrong password -> OK)')


def login_classes(ctx):
    out = []
    for rel in BACKENDS:
        m = ctx.proj.module(rel)
        for c in m.classes.values():
            if c.own_method('authenticate') and c.own_method('authorize'):
                out.append(c)
    if len(out) < 2:
        raise AnchorError('backend Login classes (dict, maildir) not found')
    return out


def r93(ctx) -> None:
    R = ctx.rule('R9.3', 'verify-or-raise in every backend authenticate', 6)
    for c in login_classes(ctx):
        f = c.own_method('authenticate')
        cfg = cfg_of(f)
        cred = f.params()[1]
        tests = [t for t in cfg.nodes if t.kind == 'test' and any(
            call_name(x) == 'check_password' for x in t.calls())]
        key = f'{c.rel}: authenticate returns only after check_password'
        rets = cfg.find(lambda n: isinstance(n.stmt, ast.Return))
        if cfg.exit in cfg.live() and not rets:
            rets = []
        good = bool(tests) and bool(rets)
        why = 'no test of check_password(...) found'
        for t in tests:
            atoms = guard_atoms(t.stmt.test)
            pol = [p for a, p in atoms if 'check_password' in a]
            if len(atoms) != 1 or pol != [False]:
                good = False
                why = (f'the test `{txt(t.stmt.test)}` does not refuse '
                       f'exactly when check_password is falsy')
                continue
            tb = [m for m, lab in t.succ if lab == 't']
            reach = cfg.reach(tb, labels=NORMAL, first_labels=NORMAL,
                              include_starts=True) | set(tb)
            if cfg.exit in reach or any(r in reach for r in rets):
                good = False
                why = 'the failing branch can still return an identity'
            raises = [n for n in reach if isinstance(n.stmt, ast.Raise)
                      and 'InvalidAuth' in txt(n.stmt)]
            if not raises:
                good = False
                why = 'the failing branch does not raise InvalidAuth'
            cp = next(x for x in t.calls()
                      if call_name(x) == 'check_password')
            if len(cp.args) < 2 or txt(cp.args[1]) != cred:
                good = False
                why = 'check_password is not given the presented ' \
                      'credentials'
        if good:
            for r in rets:
                if not cfg.dominated_by(r, tests, labels=NORMAL):
                    good = False
                    why = f'return at line {r.lineno} is reachable without ' \
                          f'the password check'
        R.check(good, f, f.node, key,
                f'{why}: a connection can become authenticated without '
                f'credentials that verify', 'all returns dominated by the '
                'check; falsy result raises InvalidAuth')
        # unknown user -> password-less stand-in, not an early success
        hs = [h for h in walk_local(f.node)
              if isinstance(h, ast.ExceptHandler) and h.type is not None
              and 'UserNotFound' in txt(h.type)]
        ok = bool(hs)
        for h in hs:
            if any(isinstance(s, ast.Return) for x in h.body
                   for s in ast.walk(x)):
                ok = False
            built = [cc for x in h.body for cc in calls_in(x, 'UserMetadata')]
            if not built or any(kwarg(b, 'password') is not None or
                                len(b.args) > 2 for b in built):
                ok = False
        R.check(ok, f, f.node,
                f'{c.rel}: unknown user is replaced by a password-less '
                f'stand-in', 'an unknown user is not turned into a '
                'password-less UserMetadata (early success, or a stand-in '
                'with a password)')
    # the chain check_password -> credentials.verify(identity)
    pw = ctx.proj.cls(USER, 'Passwords')
    cp = pw.own_method('check_password')
    icp = pw.own_method('_check_password')
    ok = cp is not None and icp is not None
    if ok:
        ok = any(call_name(c) == '_check_password'
                 and [txt(a) for a in c.args] == cp.params()[1:3]
                 for c in calls_in(cp.node))
        rets = [r for r in walk_local(icp.node) if isinstance(r, ast.Return)]
        p = icp.params()
        ok = ok and bool(rets) and all(
            isinstance(strip_await(r.value), ast.Call)
            and call_name(strip_await(r.value)) == 'verify'
            and txt(strip_await(r.value).func.value) == p[2]
            and [txt(a) for a in strip_await(r.value).args] == [p[1]]
            for r in rets)
    R.check(ok, cp, getattr(cp, 'node', None),
            'Passwords.check_password = credentials.verify(identity)',
            'check_password does not resolve to credentials.verify(<the '
            'stored identity>): the presented secret is not compared with '
            'the stored one')
    um = ctx.proj.cls(USER, 'UserMetadata')
    cs_ = um.own_method('compare_secret')
    if cs_ is None:
        raise AnchorError('UserMetadata.compare_secret vanished')
    rets = [r for r in walk_local(cs_.node) if isinstance(r, ast.Return)]
    const_true = [r for r in rets if const_value(r.value) == (True, True)]
    has_false = any(const_value(r.value) == (True, False) for r in rets)
    verifies = any(isinstance(r.value, ast.Call)
                   and call_name(r.value) == 'verify' for r in rets)
    R.check(not const_true and has_false and verifies, cs_, cs_.node,
            'compare_secret: no password -> False; else hash verify',
            'compare_secret can succeed without verifying a stored hash '
            '(constant True, or no False for a missing password)')


def _truth(e, env):
    """Evaluate a guard over atoms A (authcid != authzid), P (privileged)."""
    if isinstance(e, ast.BoolOp):
        vals = [_truth(v, env) for v in e.values]
        if None in vals:
            return None
        return all(vals) if isinstance(e.op, ast.And) else any(vals)
    if isinstance(e, ast.UnaryOp) and isinstance(e.op, ast.Not):
        v = _truth(e.operand, env)
        return None if v is None else not v
    if isinstance(e, ast.Compare) and len(e.ops) == 1:
        l, r = txt(e.left), txt(e.comparators[0])
        op = e.ops[0]
        ids = env['ids']
        if {l, r} <= ids and l != r and isinstance(op, (ast.NotEq, ast.Eq)):
            return env['A'] if isinstance(op, ast.NotEq) else not env['A']
        if isinstance(op, (ast.In, ast.NotIn)) and r in env['roles'] and \
                isinstance(e.left, ast.Constant):
            env['role_consts'].add(e.left.value)
            return env['P'] if isinstance(op, ast.In) else not env['P']
    if txt(e) in env['roles']:
        return env['Q']          # "has any role at all" is not "privileged"
    if isinstance(e, ast.Call) and call_name(e) == 'isdisjoint' and \
            txt(e.func.value) in env['roles']:
        ok, v = const_value(e.args[0]) if e.args else (False, None)
        if ok:
            env['role_consts'] |= set(v)
        return not env['P']
    return None


def r94(ctx) -> None:
    R = ctx.rule('R9.4', 'authorize raises iff authcid != authzid and not '
                 'privileged', 2)
    for c in login_classes(ctx):
        f = c.own_method('authorize')
        cfg = cfg_of(f)
        p = f.params()
        authn, authz = p[1], p[2]
        ids = {authz}
        roles = set()
        for nm in {x.id for x in walk_local(f.node)
                   if isinstance(x, ast.Name)}:
            for _, v in local_assigns(f, nm):
                if v is not None and txt(v) == f'{authn}.name':
                    ids.add(nm)
                if v is not None and txt(v) == f'{authn}.roles':
                    roles.add(nm)
        ids.add(f'{authn}.name')
        roles.add(f'{authn}.roles')
        raises = cfg.find(lambda n: isinstance(n.stmt, ast.Raise)
                          and 'AuthorizationFailure' in txt(n.stmt))
        key = f'{c.rel}: authorize guard truth table'
        if not raises:
            R.fail(f, f.node, key, 'authorize never raises '
                   'AuthorizationFailure: any user may act as any other')
            continue
        for r in raises:
            tests = [t for t in cfg.nodes if t.kind == 'test'
                     and cfg.controlled_by(r, t, 't')]
            if len(tests) != 1:
                R.undecided(f, r.stmt, key, 'guard is not a single test')
                continue
            g = tests[0].stmt.test
            # the roles the guard looks at come from the AUTHENTICATED
            # identity and nowhere else
            foreign = []
            for cmpn in [x for x in ast.walk(g) if isinstance(x, ast.Compare)
                         and isinstance(x.ops[0], (ast.In, ast.NotIn))
                         and isinstance(x.left, ast.Constant)]:
                rv = cmpn.comparators[0]
                if txt(rv) in roles:
                    continue
                defs = [txt(v) for v in resolve_local(f, rv)]
                if any(d not in roles for d in defs):
                    foreign += [d for d in defs if d not in roles]
            if foreign:
                R.fail(f, r.stmt, key,
                       f'the privilege test reads roles from {foreign}, '
                       f'not (only) from {authn}.roles: roles of the '
                       f'REQUESTED identity count towards the permission to '
                       f'become it — an ordinary user with its own valid '
                       f'password authorizes as an existing admin '
                       f'(AUTHENTICATE PLAIN "root\\0user\\0pass") and gets '
                       f'an admin session')
                continue
            table = {}
            consts: set = set()
            for A, P in itertools.product((False, True), repeat=2):
                vals = set()
                for Q in ((True,) if P else (False, True)):
                    env = {'A': A, 'P': P, 'Q': Q, 'ids': ids,
                           'roles': roles, 'role_consts': consts}
                    vals.add(_truth(g, env))
                table[(A, P)] = vals.pop() if len(vals) == 1 else (
                    None if None in vals else 'depends on unprivileged '
                    'roles')
            if None in table.values():
                # a comparison whose operands are TRANSFORMED identities is
                # not an identity comparison
                transformed = []
                exprs = [g] + [v for nm in ast.walk(g)
                               if isinstance(nm, ast.Name)
                               for v in resolve_local(f, nm)
                               if v is not None and v is not nm]
                for cmpn in [x for e_ in exprs for x in ast.walk(e_)
                             if isinstance(x, ast.Compare)]:
                    for side in [cmpn.left] + cmpn.comparators:
                        for v in resolve_local(f, side):
                            if isinstance(v, ast.Call) and (
                                    names_in(v) & (ids | {authn, authz})):
                                transformed.append(txt(v))
                if transformed:
                    R.fail(f, r.stmt, key,
                           f'the identities are compared after '
                           f'{transformed}: two different account names '
                           f'that normalise to the same string are treated '
                           f'as the same user, so a role-less look-alike '
                           f'account is authorised as the other user')
                else:
                    R.undecided(f, r.stmt, key, f'guard `{txt(g)}` not '
                                f'interpretable over (differs, privileged)')
                continue
            want = {(A, P): (A and not P)
                    for A, P in itertools.product((False, True), repeat=2)}
            R.check(table == want, f, r.stmt, key,
                    f'guard `{txt(g)}` is not (authcid != authzid) and not '
                    f'privileged: ' + ', '.join(
                        f'differs={a} privileged={p_}: raises={table[(a, p_)]}'
                        f' (must be {want[(a, p_)]})'
                        for (a, p_) in table if table[(a, p_)] != want[(a, p_)]),
                    f'privileged roles {sorted(map(str, consts))}')
            R.check(consts <= {'admin', 'sudo'} and 'admin' in consts, f,
                    r.stmt, f'{c.rel}: privileged role set',
                    f'privileged roles {sorted(map(str, consts))} are not '
                    f'within {{admin, sudo}} / do not include admin')
        # the returned identity is for authzid with the authenticated roles
        rets = [x for x in walk_local(f.node) if isinstance(x, ast.Return)]
        ok = bool(rets) and all(
            isinstance(x.value, ast.Call) and authz in
            [txt(a) for a in x.value.args] for x in rets)
        R.check(ok, f, f.node, f'{c.rel}: authorize returns the identity '
                f'for authzid', 'authorize does not return an identity '
                'named by the requested authzid')


def r95(ctx) -> None:
    R = ctx.rule('R9.5', 'LOGINDISABLED', 2)
    cs = ctx.proj.cls(STATE, 'ConnectionState')
    f = cs.own_method('do_login')
    if f is None:
        raise AnchorError('do_login vanished')
    cfg = cfg_of(f)
    tests = [t for t in cfg.nodes if t.kind == 'test'
             and 'LOGINDISABLED' in txt(t.stmt.test)
             and any(a.replace(' ', '') in (
                 "b'LOGINDISABLED'inself.capability",
                 "b'LOGINDISABLED'inself.capability.string")
                 for a, _ in guard_atoms(t.stmt.test))]
    creds = cfg.find(lambda n: any(call_name(c) in ('PlainCredentials',
                                                    'do_authenticate',
                                                    '_login')
                                   for c in n.calls()))
    ok = bool(tests) and bool(creds)
    for t in tests:
        atoms = guard_atoms(t.stmt.test)
        if len(atoms) != 1 or not atoms[0][1]:
            ok = False
        tb = [m for m, lab in t.succ if lab == 't']
        reach = cfg.reach(tb, labels=NORMAL, first_labels=NORMAL,
                          include_starts=True) | set(tb)
        if any(c in reach for c in creds) or cfg.exit in reach:
            ok = False
    ok = ok and all(cfg.dominated_by(c, tests) for c in creds)
    R.check(ok, f, f.node, 'do_login: LOGINDISABLED test precedes the '
            'credentials', 'plain-text LOGIN is processed although '
            'LOGINDISABLED is advertised (test missing, inverted, or after '
            'the credentials are built and used)')
    cap = cs.own_method('capability')
    if cap is None:
        raise AnchorError('ConnectionState.capability vanished')
    ccfg = cfg_of(cap)
    good = False
    for t in ccfg.nodes:
        if t.kind == 'test' and 'get_server' in txt(t.stmt.test) and \
                'PLAIN' in txt(t.stmt.test):
            atoms = guard_atoms(t.stmt.test)
            if len(atoms) == 1:
                none_branch = 'f' if atoms[0][1] else 't'
                adds = ccfg.find(lambda n: n.kind == 'stmt' and
                                 'LOGINDISABLED' in txt(n.stmt))
                if adds and all(ccfg.controlled_by(a, t, none_branch)
                                for a in adds):
                    good = True
    R.check(good, cap, cap.node, 'capability: LOGINDISABLED exactly when '
            'PLAIN is not offered', 'the LOGINDISABLED token is not tied '
            'to the absence of the PLAIN mechanism')


def r96(ctx) -> None:
    R = ctx.rule('R9.6', 'mechanism set ownership', 4)
    cs = ctx.proj.cls(STATE, 'ConnectionState')
    conn = ctx.proj.cls(SIEVE, 'ManageSieveConnection')
    allowed = {cs: {'__init__', 'do_greeting', 'do_starttls'},
               conn: {'__init__', '_do_starttls'}}
    for f, s, t, rel in writers_of(ctx.proj, 'auth'):
        if f is None or f.cls not in allowed:
            if rel in (STATE, SIEVE) or (isinstance(t.value, ast.Name)
                                         and t.value.id == 'state'):
                R.fail(f, s, f'foreign writer of .auth in {rel}',
                       'the offered SASL mechanisms are changed from '
                       'outside the connection state')
            continue
        if not is_name(t.value, 'self'):
            continue
        v = txt(getattr(s, 'value', None))
        ok = f.name in allowed[f.cls] and v in (
            'config.initial_auth', 'self.config.tls_auth',
            'self.config.initial_auth')
        R.check(ok, f, s, f'writer of auth: {f.qualname}',
                f'{f.qualname} assigns auth = {v}; the mechanism set may '
                f'only become initial_auth (constructor) or tls_auth (after '
                f'STARTTLS / for a local peer)')
    # do_greeting: tls_auth only for a local peer
    g = cs.own_method('do_greeting')
    gcfg = cfg_of(g)
    for n in gcfg.find(lambda n: n.kind == 'stmt' and any(
            is_attr(t, 'auth', 'self') for t in targets_of(n.stmt))):
        ok = any(t.kind == 'test' and any(
            a.endswith('from_localhost') and pol
            for a, pol in guard_atoms(t.stmt.test))
            and gcfg.controlled_by(n, t, 't') for t in gcfg.nodes)
        R.check(ok, g, n.stmt, 'do_greeting: tls_auth only for a local peer',
                'the full mechanism set is offered to a remote peer before '
                'STARTTLS')


def r98(ctx) -> None:
    before = len(ctx.rules)
    c05.r52(ctx)
    r = ctx.rules[before]
    r.id = 'R9.8'
    r.title = 'every route to the authentication handlers passes the ' \
              'state gate (= R5.2)'
    r.instances = [i for i in r.instances
                   if 'CommandNonAuth' in i.key or 'authenticate' in i.key
                   or 'login' in i.key or 'precedes' in i.key]
    for i in r.instances:
        i.rule = 'R9.8'
    r.minimum = 2


def mutable_defaults(fnode) -> list:
    """Parameters whose default is a mutable container created once at
    definition time AND that are stored in an attribute or mutated."""
    a = fnode.args
    pos = a.posonlyargs + a.args
    pairs = list(zip(pos[len(pos) - len(a.defaults):], a.defaults)) + [
        (p_, d) for p_, d in zip(a.kwonlyargs, a.kw_defaults) if d is not None]
    out = []
    for p_, d in pairs:
        mut = isinstance(d, (ast.List, ast.Dict, ast.Set)) or (
            isinstance(d, ast.Call) and call_name(d) in (
                'set', 'list', 'dict', 'bytearray', 'defaultdict', 'deque'))
        if not mut:
            continue
        kept = False
        for x in ast.walk(fnode):
            if isinstance(x, (ast.Assign, ast.AnnAssign)) and \
                    x.value is not None and isinstance(x.value, ast.Name) \
                    and x.value.id == p_.arg:
                kept = True               # self._x = param (aliased)
            if isinstance(x, ast.AugAssign) and isinstance(
                    x.target, ast.Name) and x.target.id == p_.arg:
                kept = True
            if isinstance(x, ast.Call) and isinstance(x.func, ast.Attribute) \
                    and isinstance(x.func.value, ast.Name) and \
                    x.func.value.id == p_.arg and x.func.attr in (
                        'add', 'update', 'append', 'extend', 'pop', 'clear',
                        'remove', 'discard', 'setdefault', 'insert'):
                kept = True
            if isinstance(x, ast.Call) and any(
                    isinstance(k, ast.Name) and k.id == p_.arg
                    for k in list(x.args) + [kw.value for kw in x.keywords]) \
                    and call_name(x) not in ('frozenset', 'tuple', 'set',
                                             'list', 'dict', 'sorted', 'len',
                                             'bool', 'isinstance'):
                kept = True               # escapes into another object
            if isinstance(x, ast.Return) and x.value is not None and any(
                    isinstance(k, ast.Name) and k.id == p_.arg
                    for k in ([x.value] + (list(x.value.elts) if isinstance(
                        x.value, (ast.Tuple, ast.List)) else []))):
                kept = True               # handed back to the caller as is
        if kept:
            out.append((p_, d))
    return out


def r99(ctx) -> None:
    R = ctx.rule('R9.9', 'no identity/role state is shared through a mutable '
                 'default argument', 1)
    n = 0
    for f in ctx.proj.all_funcs('pymap/'):
        if f.rel.startswith(('pymap/admin/', 'pymap/backend/redis/')):
            continue
        n += 1
        for p_, d in mutable_defaults(f.node):
            R.fail(f, d, f'{f.qualname}: parameter `{p_.arg}` defaults to a '
                   f'shared mutable object',
                   f'`{p_.arg}={txt(d)}` is created once, when the function '
                   f'is defined, and the object is stored / mutated: every '
                   f'call that omits `{p_.arg}` shares it.  In '
                   f'Identity.__init__ this makes roles granted to one '
                   f'login (admin) accumulate for every later password '
                   f'login, which may then authorize as any authzid')
    if n < 500:
        raise AnchorError(f'only {n} functions scanned')
    R.ok(None, None, f'{n} functions scanned', 'no retained mutable default')
    import os
    from ..report import VERIF
    tree = ast.parse(open(os.path.join(VERIF, 'fixtures',
                                       'r99_positive.py')).read())
    hits = sum(len(mutable_defaults(x)) for x in ast.walk(tree)
               if isinstance(x, ast.FunctionDef))
    R.check(hits == 1, None, None, 'positive fixture still matches',
            f'fixtures/r99_positive.py: {hits} hit(s), expected 1')

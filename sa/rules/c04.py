"""C04 — UIDs increase, are never reused, are reported truthfully:
R4.1-R4.4."""
from __future__ import annotations

import ast

from ..cfg import NORMAL, ALL, walk_local
from ..facts import (cfg_of, call_name, calls_in, bind_args, targets_of,
                     writers_of, local_assigns, resolve_local, guard_atoms,
                     is_attr, is_name, kwarg, strip_await, enclosing,
                     const_value, names_in)
from ..loader import txt, AnchorError

DICT = 'pymap/backend/dict/mailbox.py'
MAILDIR = 'pymap/backend/maildir/mailbox.py'
UIDLIST = 'pymap/backend/maildir/uidlist.py'
SESS = 'pymap/backend/session.py'
CODE = 'pymap/parsing/response/code.py'
MBX = 'pymap/mailbox.py'


def check(ctx) -> None:
    ctx.explanation = (
        'Static decision of structural necessary conditions of C04: the dict '
        'UID counter has only increment writers of the form X = X + k (k>=1) '
        'executed under the write lock of the same mailbox, and the fresh '
        'value is the key and the uid of the inserted message; every maildir '
        'record is allocated from next_uid inside a with_write block that '
        'also increments next_uid and stores the record; UIDNEXT is derived '
        'from the allocator state; APPENDUID/COPYUID carry the UIDs the '
        'backend returned, paired source->destination in iteration order '
        'with the destination mailbox\'s UIDVALIDITY.')
    ctx.not_decided = ('monotonicity over all histories and restarts; '
                       'UIDVALIDITY collision probability.')
    r41(ctx)
    r42(ctx)
    r43(ctx)
    r44(ctx)
    r45(ctx)
    r46(ctx)
    from . import c15
    before = len(ctx.rules)
    c15.r156(ctx)
    r = ctx.rules[before]
    r.id = 'R4.7'
    r.title = 'the UID list is read under the lock it is written back ' \
              'under (= R15.6)'
    for i in r.instances:
        i.rule = 'R4.7'


def _increment_form(s: ast.AST, t: ast.Attribute):
    """-> (ok, k, alias names assigned the same fresh value)"""
    recv = txt(t.value)
    if isinstance(s, ast.AugAssign) and isinstance(s.op, ast.Add):
        c, k = const_value(s.value)
        return (c and isinstance(k, int) and k >= 1), k, []
    if isinstance(s, ast.Assign):
        v = s.value
        aliases = [x.id for x in s.targets if isinstance(x, ast.Name)]
        if isinstance(v, ast.BinOp) and isinstance(v.op, ast.Add):
            for a, b in ((v.left, v.right), (v.right, v.left)):
                c, k = const_value(b)
                if txt(a) == f'{recv}._max_uid' and c and \
                        isinstance(k, int) and k >= 1:
                    return True, k, aliases
        if isinstance(v, ast.Name):
            return None, None, aliases      # via a temporary: resolved later
    return False, None, []


def r41(ctx) -> None:
    R = ctx.rule('R4.1', 'dict UID allocator discipline', 4)
    cls = ctx.proj.cls(DICT, 'MailboxData')
    for f, s, t, rel in writers_of(ctx.proj, '_max_uid'):
        who = f.qualname if f else rel
        if f is not None and f.cls is not None and f.cls is not cls and \
                txt(t.value) == 'self' and not rel.startswith(
                    'pymap/backend/dict/'):
            continue      # another class's own field of the same name
        if f is None or f.cls is not cls:
            R.fail(f, s, f'foreign writer of _max_uid: {who}',
                   f'{who} writes the dict UID counter from outside the '
                   f'mailbox class')
            continue
        recv = txt(t.value)
        if f.name == '__init__':
            c, v = const_value(getattr(s, 'value', None))
            R.check(c and isinstance(v, int) and recv == 'self', f, s,
                    '__init__: _max_uid starts at a constant',
                    'the UID counter is not initialised to a constant')
            continue
        key = f'{f.qualname}: {recv}._max_uid increment'
        ok, k, aliases = _increment_form(s, t)
        tmp_stmts = []
        if ok is None:
            # via a temporary: tmp = X._max_uid + 1 ; X._max_uid = tmp
            tmp = s.value.id
            ok = False
            tmp_stmts = [st for st, _ in local_assigns(f, tmp)]
            for _, v in local_assigns(f, tmp):
                if isinstance(v, ast.BinOp) and isinstance(v.op, ast.Add) \
                        and f'{recv}._max_uid' in (txt(v.left), txt(v.right)):
                    c, kk = const_value(v.right if txt(v.left).endswith(
                        '_max_uid') else v.left)
                    if c and isinstance(kk, int) and kk >= 1:
                        ok = True
                        aliases = aliases + [tmp]
        R.check(bool(ok), f, s, key + ' has the form X = X + k (k >= 1)',
                f'`{txt(s)}` is not a pure increment of the counter: after '
                f'expunging the highest UID a value derived from the '
                f'remaining messages (max(...)+1, len(...)) is REUSED')
        if not ok:
            continue
        # under the write lock of the same receiver
        withs = [w for w in enclosing(f.node, s, (ast.AsyncWith, ast.With))]
        locked = any(
            isinstance(i.context_expr, ast.Call)
            and call_name(i.context_expr) == 'write_lock'
            and txt(i.context_expr.func.value) in (f'{recv}.messages_lock',
                                                   f'{recv}._messages_lock')
            for w in withs for i in w.items)
        for st in tmp_stmts:
            w2 = enclosing(f.node, st, (ast.AsyncWith, ast.With))
            same = any(x is y for x in w2 for y in withs
                       if any(isinstance(i.context_expr, ast.Call)
                              and call_name(i.context_expr) == 'write_lock'
                              and txt(i.context_expr.func.value) in (
                                  f'{recv}.messages_lock',
                                  f'{recv}._messages_lock')
                              for i in y.items))
            locked = locked and same
        R.check(locked, f, s, key + f' under {recv}.messages_lock.write_lock',
                f'the counter of `{recv}` is incremented outside the write '
                f'lock of `{recv}` (or under another mailbox\'s lock): two '
                f'concurrent inserts can draw the same UID')
        # the fresh value is the key and the uid
        names = set(aliases) | {f'{recv}._max_uid'}
        for nm in {x.id for x in walk_local(f.node)
                   if isinstance(x, ast.Name)}:
            if any(v is not None and txt(v) == f'{recv}._max_uid'
                   for _, v in local_assigns(f, nm)):
                names.add(nm)
        cfg = cfg_of(f)
        node = cfg.nodes_of(s)
        ins = []
        for n in cfg.reach(node, labels=NORMAL):
            if n.kind == 'stmt':
                for tt in targets_of(n.stmt):
                    if isinstance(tt, ast.Subscript) and \
                            txt(tt.value) == f'{recv}._messages':
                        ins.append((n, tt))
        good_key = bool(ins) and all(txt(tt.slice) in names for _, tt in ins)
        R.check(good_key, f, s, key + ' is the key stored into _messages',
                f'the message is stored under '
                f'{[txt(tt.slice) for _, tt in ins] or "nothing"}, not under '
                f'the freshly allocated UID')
        good_uid = False
        for n, tt in ins:
            for v in resolve_local(f, n.stmt.value):
                if isinstance(v, ast.Call):
                    args = [txt(a) for a in v.args[:1]] + \
                        [txt(kw.value) for kw in v.keywords
                         if kw.arg == 'uid']
                    if any(a in names for a in args):
                        good_uid = True
        R.check(good_uid, f, s, key + ' is the uid of the stored message',
                'the stored message object is not constructed with the '
                'freshly allocated UID: FETCH reports a UID that differs '
                'from the key')


def r42(ctx) -> None:
    R = ctx.rule('R4.2', 'maildir UID allocator discipline', 4)
    for f, s, t, rel in writers_of(ctx.proj, 'next_uid'):
        if not rel.startswith('pymap/backend/maildir/'):
            continue
        who = f.qualname if f else rel
        if rel == UIDLIST and f is not None and f.name == '__init__':
            R.ok(f, s, 'UidList.__init__ stores next_uid', 'constructor')
            continue
        recv = txt(t.value)
        key = f'{who}: {recv}.next_uid store'
        form = isinstance(s, ast.AugAssign) and isinstance(s.op, ast.Add) \
            and const_value(s.value)[0] and const_value(s.value)[1] >= 1
        withs = enclosing(f.node, s, (ast.AsyncWith,)) if f else []
        bound = any(
            i.optional_vars is not None and txt(i.optional_vars) == recv
            and isinstance(i.context_expr, ast.Call)
            and call_name(i.context_expr) == 'with_write'
            for w in withs for i in w.items)
        R.check(bool(form) and bound, f, s, key,
                f'`{txt(s)}`' + (' is not `+= k` (k >= 1)' if not form else
                                 f' is not inside `async with '
                                 f'UidList.with_write(...) as {recv}`: the '
                                 f'new value is never written back (or is '
                                 f'written without the file lock)'))
    n = 0
    for f in ctx.proj.all_funcs('pymap/backend/maildir/'):
        for c in calls_in(f.node, 'Record'):
            if not c.args or not isinstance(c.args[0], ast.Attribute) or \
                    c.args[0].attr != 'next_uid':
                continue
            n += 1
            u = txt(c.args[0].value)
            key = f'{f.qualname}: Record({u}.next_uid, …)'
            withs = enclosing(f.node, c, (ast.AsyncWith,))
            w = next((w for w in withs for i in w.items
                      if i.optional_vars is not None
                      and txt(i.optional_vars) == u), None)
            if w is None:
                R.fail(f, c, key, f'`{u}` is not bound by an enclosing '
                       f'`async with`')
                continue
            item = next(i for i in w.items if i.optional_vars is not None
                        and txt(i.optional_vars) == u)
            how = call_name(item.context_expr) \
                if isinstance(item.context_expr, ast.Call) else '?'
            if how != 'with_write':
                R.fail(f, c, key, f'UID allocated under {how}(): the '
                       f'incremented next_uid is never persisted, so the '
                       f'same UID is assigned again')
                continue
            cfg = cfg_of(f)
            node = cfg.node_containing(c)
            exits = [x for x in cfg.nodes if x.kind == 'with_exit'
                     and x.stmt is w]
            # record variable
            recvar = None
            for nd in node:
                for tt in targets_of(nd.stmt) if nd.kind == 'stmt' else []:
                    if isinstance(tt, ast.Name):
                        recvar = tt.id
            incs = cfg.find(lambda x: x.kind == 'stmt' and isinstance(
                x.stmt, ast.AugAssign) and txt(x.stmt.target) ==
                f'{u}.next_uid' and isinstance(x.stmt.op, ast.Add))
            sets = cfg.find(lambda x: any(
                call_name(cc) == 'set' and txt(cc.func.value) == u and
                cc.args and (recvar is None or txt(cc.args[0]) == recvar)
                for cc in x.calls()))
            for what, tg in (('increment', incs), ('set(record)', sets)):
                ok = bool(tg) and all(
                    not (cfg.reach([nd], avoid=tg, labels=NORMAL)
                         & set(exits)) for nd in node)
                R.check(ok, f, c, f'{key} followed by {what} before the '
                        f'block ends',
                        f'a normal path leaves the with_write block after '
                        f'allocating {u}.next_uid without the {what}: ' +
                        ('the next message gets the same UID'
                         if what == 'increment' else
                         'the UID is consumed but the message has no '
                         'record (it is re-adopted under another UID)'))
    if n < 4:
        R.minimum = max(R.minimum, 99)   # anchors vanished


def r43(ctx) -> None:
    R = ctx.rule('R4.3', 'UIDNEXT derivation', 3)
    snap = ctx.proj.cls(MBX, 'MailboxSnapshot')
    sinit = snap.own_method('__init__')
    cls = ctx.proj.cls(DICT, 'MailboxData')
    f = cls.own_method('snapshot')
    if f is None:
        raise AnchorError('dict snapshot vanished')
    for c in calls_in(f.node, 'MailboxSnapshot'):
        arg = bind_args(sinit, c).get('next_uid')
        vals = resolve_local(f, arg) if arg is not None else []
        ok = any(isinstance(v, ast.BinOp) and isinstance(v.op, ast.Add)
                 and 'self._max_uid' in (txt(v.left), txt(v.right))
                 and (const_value(v.right)[1] == 1
                      or const_value(v.left)[1] == 1) for v in vals)
        R.check(ok, f, c, 'dict snapshot: next_uid = _max_uid + 1',
                f'UIDNEXT is reported as {txt(vals[0]) if vals else "?"}: '
                f'not greater than every existing UID / not the next UID '
                f'assigned')
    mcls = ctx.proj.cls(MAILDIR, 'MailboxData')
    f = mcls.own_method('snapshot')
    for c in calls_in(f.node, 'MailboxSnapshot'):
        arg = bind_args(sinit, c).get('next_uid')
        vals = resolve_local(f, arg) if arg is not None else []
        R.check(any(txt(v) == 'self._next_uid' for v in vals), f, c,
                'maildir snapshot: next_uid = self._next_uid',
                f'UIDNEXT is reported as {txt(arg)}')
    rs = mcls.own_method('reset')
    st = [(s, t) for s in walk_local(rs.node) for t in targets_of(s)
          if is_attr(t, '_next_uid', 'self')]
    ok = bool(st) and all(txt(getattr(s, 'value', None)).endswith(
        '.next_uid') for s, _ in st)
    # after the allocation loop: the store must not precede a Record() call
    cfg = cfg_of(rs)
    stn = [n for s, _ in st for n in cfg.nodes_of(s)]
    alloc = cfg.find(lambda n: any(call_name(c) == 'Record'
                                   for c in n.calls()))
    late = all(not (cfg.reach([n], labels=NORMAL) & set(alloc)) for n in stn)
    R.check(ok and late, rs, rs.node,
            'maildir reset: _next_uid read from the UID list after adoption',
            '_next_uid is not taken from the UID list after unknown files '
            'were adopted: UIDNEXT can be <= an existing UID')
    mset = ctx.proj.cls(MAILDIR, 'MailboxSet')
    gm = mset.own_method('get_mailbox')
    rets = [r for r in walk_local(gm.node) if isinstance(r, ast.Return)]
    ok = bool(rets) and all(
        isinstance(strip_await(r.value), ast.Call)
        and call_name(strip_await(r.value)) == 'reset' for r in rets)
    R.check(ok, gm, gm.node, 'maildir get_mailbox returns reset()',
            'get_mailbox hands out a mailbox without reset(): files '
            'delivered since the last access have no UID and UIDNEXT/'
            'UIDVALIDITY are stale')


def r44(ctx) -> None:
    R = ctx.rule('R4.4', 'APPENDUID/COPYUID pairing', 6)
    bs = ctx.proj.cls(SESS, 'BaseSession')
    f = bs.own_method('append_messages')
    if f is None:
        raise AnchorError('append_messages vanished')
    for c in calls_in(f.node, 'AppendUid'):
        if len(c.args) < 2:
            R.undecided(f, c, 'append_messages: AppendUid args', 'shape')
            continue
        val, lst = c.args[0], c.args[1]
        apps = [a for a in calls_in(f.node, 'append')
                if is_name(a.func.value, txt(lst))]
        # every appended element is <result of mbx.append>.uid
        mbx_names = set()
        good = bool(apps)
        for a in apps:
            e = a.args[0] if a.args else None
            if not (isinstance(e, ast.Attribute) and e.attr == 'uid'
                    and isinstance(e.value, ast.Name)):
                good = False
                continue
            srcs = [strip_await(v) for _, v in local_assigns(f, e.value.id)
                    if v is not None]
            if not srcs or not all(
                    isinstance(v, ast.Call) and call_name(v) == 'append'
                    and isinstance(v.func.value, ast.Name) for v in srcs):
                good = False
            else:
                mbx_names |= {v.func.value.id for v in srcs}
        R.check(good, f, c, 'append_messages: APPENDUID lists the UIDs the '
                'backend returned',
                'the UID list given to AppendUid is not filled with '
                '<mbx.append(...)>.uid')
        R.check(isinstance(val, ast.Attribute) and val.attr == 'uid_validity'
                and txt(val.value) in mbx_names, f, c,
                'append_messages: APPENDUID validity of the same mailbox',
                f'validity {txt(val)} is not the uid_validity of the '
                f'mailbox appended to ({sorted(mbx_names)})')
    for mname, op in (('copy_messages', 'copy'), ('move_messages', 'move')):
        f = bs.own_method(mname)
        if f is None:
            raise AnchorError(f'{mname} vanished')
        for c in calls_in(f.node, 'CopyUid'):
            if len(c.args) < 2:
                R.undecided(f, c, f'{mname}: CopyUid args', 'shape')
                continue
            val, lst = c.args[0], c.args[1]
            apps = [a for a in calls_in(f.node, 'append')
                    if is_name(a.func.value, txt(lst))]
            good = bool(apps)
            dest_names = set()
            why = 'no pair is appended'
            for a in apps:
                e = a.args[0] if a.args else None
                if not (isinstance(e, ast.Tuple) and len(e.elts) == 2
                        and all(isinstance(x, ast.Name) for x in e.elts)):
                    good = False
                    why = f'appended element {txt(e)} is not a pair of names'
                    continue
                src, dst = e.elts[0].id, e.elts[1].id
                dsrc = [strip_await(v) for _, v in local_assigns(f, dst)
                        if v is not None]
                okd = bool(dsrc) and all(
                    isinstance(v, ast.Call) and call_name(v) == op
                    and v.args and txt(v.args[0]) == src for v in dsrc)
                if not okd:
                    good = False
                    why = (f'pair ({src}, {dst}): `{dst}` is not the result '
                           f'of {op}({src}, …) — source and destination '
                           f'are swapped or unrelated')
                else:
                    for v in dsrc:
                        if len(v.args) > 1:
                            dest_names.add(txt(v.args[1]))
                loops = enclosing(f.node, a, (ast.For,))
                if not loops:
                    good = False
                    why = 'pair appended outside the resolution loop'
            R.check(good, f, c, f'{mname}: COPYUID pairs are '
                    f'(source, {op}(source))', why)
            R.check(isinstance(val, ast.Attribute)
                    and val.attr == 'uid_validity'
                    and txt(val.value) in dest_names, f, c,
                    f'{mname}: COPYUID validity of the destination',
                    f'validity {txt(val)} is not the destination\'s '
                    f'uid_validity ({sorted(dest_names)}): the client '
                    f'caches the new UIDs under the wrong mailbox epoch')
    cu = ctx.proj.cls(CODE, 'CopyUid')
    init = cu.own_method('__init__')
    # source_uids, dest_uids = zip(*uids): first -> source position
    ok = False
    for s in walk_local(init.node):
        if isinstance(s, ast.Assign) and isinstance(s.targets[0], ast.Tuple) \
                and isinstance(s.value, ast.Call) and \
                call_name(s.value) == 'zip':
            a, b = [txt(x) for x in s.targets[0].elts]
            fmt = [x for x in walk_local(init.node)
                   if isinstance(x, ast.BinOp) and isinstance(x.op, ast.Mod)
                   and isinstance(x.right, ast.Tuple)]
            for x in fmt:
                els = x.right.elts
                if len(els) == 3:
                    def root(e):
                        vs = resolve_local(init, e.args[0]
                                           if isinstance(e, ast.Call)
                                           and e.args else e)
                        out = set()
                        for v in vs:
                            out |= {n for n in names_in(v)}
                        return out | names_in(e)
                    r1, r2 = root(els[1]), root(els[2])
                    s1 = {n for n in r1} | {
                        m for n in r1 for _, v in local_assigns(init, n)
                        if v is not None for m in names_in(v)}
                    s2 = {n for n in r2} | {
                        m for n in r2 for _, v in local_assigns(init, n)
                        if v is not None for m in names_in(v)}
                    ok = a in s1 and b in s2 and a not in s2 and b not in s1
    R.check(ok, init, init.node, 'CopyUid: first set = sources, second = '
            'destinations',
            'CopyUid does not emit the source UID set before the '
            'destination UID set')


def r45(ctx) -> None:
    R = ctx.rule('R4.5', 'addressed messages are enumerated in ascending '
                 'UID order', 2)
    sm = ctx.proj.cls('pymap/selected.py', 'SynchronizedMessages')

    VERIFIED = ('get_uids', 'get_all')

    def ordered(e) -> bool:
        if isinstance(e, ast.Call) and call_name(e) in ('enumerate', 'islice',
                                                        'iter', 'list',
                                                        'tuple') and e.args:
            return ordered(e.args[0])
        if isinstance(e, ast.Call) and call_name(e) == 'sorted':
            return True
        if isinstance(e, ast.Call) and call_name(e) in VERIFIED and \
                is_name(e.func.value, 'self'):
            return True          # the sibling enumerator, checked below
        return txt(e) == 'self._sorted'

    def ordered_value(f, v, depth=0) -> bool:
        if isinstance(v, ast.Call) and call_name(v) == 'sorted':
            return True
        if isinstance(v, (ast.ListComp, ast.GeneratorExp)):
            return ordered(v.generators[0].iter)
        if isinstance(v, ast.Call) and ordered(v):
            return True
        if isinstance(v, ast.Name) and depth < 2:
            # a list filled by appends inside loops over ordered sources,
            # in program order
            defs = [d for _, d in local_assigns(f, v.id)]
            if not defs or not all(isinstance(d, ast.List) and not d.elts
                                   for d in defs):
                return False
            apps = [c for c in calls_in(f.node)
                    if call_name(c) in ('append', 'extend', 'insert')
                    and is_name(c.func.value, v.id)]
            if not apps or any(call_name(c) != 'append' for c in apps):
                return False
            for c in apps:
                loops = enclosing(f.node, c, (ast.For, ast.While))
                if len(loops) != 1 or not isinstance(loops[0], ast.For) or \
                        not ordered(loops[0].iter):
                    return False
            return True
        return False
    for name in ('get_uids', 'get_all'):
        f = sm.own_method(name)
        if f is None:
            raise AnchorError(f'SynchronizedMessages.{name} vanished')
        for r in walk_local(f.node):
            if not isinstance(r, ast.Return) or r.value is None:
                continue
            v = r.value
            R.check(ordered_value(f, v), f, r,
                    f'{name}: `{txt(v)[:50]}…` iterates the '
                    f'sorted UID list',
                    f'{name} returns `{txt(v)[:80]}`, whose order is not '
                    f'the ascending UID order (a set/dict iteration): '
                    f'copy_messages/move_messages assign destination UIDs '
                    f'in this order while CopyUid sorts both sides '
                    f'independently, so COPYUID 101:104 103:106 pairs the '
                    f'wrong messages (104->103, 101->104, …); FETCH/STORE '
                    f'responses come out of order')


def r46(ctx) -> None:
    R = ctx.rule('R4.6', 'maildir: a file that leaves a mailbox with its key '
                 'takes its UID record along', 1)
    MD = 'pymap/backend/maildir/mailbox.py'
    f = ctx.proj.cls(MD, 'MailboxData').own_method('move')
    if f is None:
        raise AnchorError('maildir move vanished')
    cfg = cfg_of(f)
    mv = cfg.find(lambda n: any(call_name(c) == 'move_message'
                                for c in n.calls()))
    if not mv:
        raise AnchorError('maildir move: move_message call not found')
    # removal of the SOURCE record: X.remove(uid) where X is bound by a
    # with_write block on self._path (or on destination._path when the
    # destination IS self)
    rem = {}
    for w in [x for x in walk_local(f.node) if isinstance(x, ast.AsyncWith)]:
        for it in w.items:
            c = it.context_expr
            if isinstance(c, ast.Call) and call_name(c) == 'with_write' and \
                    c.args and isinstance(it.optional_vars, ast.Name):
                path = txt(c.args[0])
                for x in [y for b in w.body for y in ast.walk(b)]:
                    if isinstance(x, ast.Call) and call_name(x) == 'remove' \
                            and is_name(x.func.value, it.optional_vars.id) \
                            and x.args and txt(x.args[0]) == 'uid':
                        for n in cfg.node_containing(x):
                            rem[n] = path
    rets = [r for r in cfg.find(lambda n: isinstance(n.stmt, ast.Return))
            if r.stmt.value is not None
            and const_value(r.stmt.value) != (True, None)]
    tests = [t for t in cfg.nodes if t.kind == 'test']
    bad = []
    for pol in (True, False):        # destination is self / is not self
        skip = []
        for t in tests:
            at = guard_atoms(t.stmt.test)
            if len(at) == 1 and at[0][0] == 'destination is self':
                # the edge that contradicts the assumption
                skip.append((t, 'f' if at[0][1] == pol else 't'))
        ok_nodes = [n for n, path in rem.items()
                    if path == 'self._path' or (pol and path ==
                                                'destination._path')]
        r = cfg.reach(mv, avoid=ok_nodes, labels=NORMAL, skip_edges=skip)
        if any(x in r for x in rets):
            bad.append('destination is self' if pol
                       else 'destination is another mailbox')
    R.check(bool(rem) and bool(rets) and not bad, f, f.node,
            'maildir move: the source UID record is removed on every '
            'successful path',
            f'when {bad or "…"} a successful move() returns without '
            f'removing the source mailbox\'s dovecot-uidlist record: '
            f'move_message() keeps the file\'s key, so moving the message '
            f'back later makes the stale record valid again — the expunged '
            f'UID reappears next to the new one (one file under two UIDs)')

"""C11 — namespace commands: R11.1-R11.4."""
from __future__ import annotations

import ast
import builtins
import re
import re._parser as sre_parse          # type: ignore[import]

from ..cfg import NORMAL, ALL, walk_local
from ..facts import (runs_only_when, cfg_of, call_name, calls_in, targets_of, guard_atoms,
                     is_attr, is_name, enclosing, local_assigns, kwarg,
                     const_value, strip_await, resolve_local, names_in)
from ..loader import txt, AnchorError

LISTTREE = 'pymap/listtree.py'
BMBX = 'pymap/backend/mailbox.py'
SESS = 'pymap/backend/session.py'
DICT = 'pymap/backend/dict/mailbox.py'
MAILDIR = 'pymap/backend/maildir/mailbox.py'
LAYOUT = 'pymap/backend/maildir/layout.py'
STATE = 'pymap/imap/state.py'
EXC = 'pymap/exceptions.py'

# which filesystem calls realise which declared effect WHEN their path
# argument derives from the client name (not from a directory listing)
FS_RAISES = {'rename': {'FileNotFoundError'}, 'rmdir': {'FileNotFoundError',
                                                        'OSError'},
             'remove': {'FileNotFoundError'}, 'unlink': {'FileNotFoundError'},
             'listdir': {'FileNotFoundError'}, 'mkdir': {'FileExistsError',
                                                         'FileNotFoundError'},
             'open': {'FileNotFoundError'}}


def raises_doc(f) -> dict[str, str]:
    """Parse a Google-style ``Raises:`` docstring section."""
    doc = ast.get_docstring(f.node) or ''
    out: dict[str, str] = {}
    m = re.search(r'^Raises:\n((?:[ \t]+.*\n?)+)', doc, re.M)
    if m:
        for line in m.group(1).splitlines():
            mm = re.match(r'\s+([A-Za-z_][\w.]*):\s*(.*)', line)
            if mm:
                out[mm.group(1).split('.')[-1]] = mm.group(2)
    return out


def is_subclass_name(ctx, mod, exc: str, base: str) -> bool:
    if exc == base:
        return True
    b = getattr(builtins, exc, None)
    bb = getattr(builtins, base, None)
    if isinstance(b, type) and isinstance(bb, type):
        return issubclass(b, bb)
    c = ctx.proj.resolve_class(mod, exc)
    if c is not None:
        return c.is_subclass_of(base) or any(
            is_subclass_name(ctx, c.module, bn, base) for bn in c.base_names)
    return False


def handler_types(h: ast.ExceptHandler) -> list[str]:
    if h.type is None:
        return ['BaseException']
    if isinstance(h.type, ast.Tuple):
        return [txt(e).split('.')[-1] for e in h.type.elts]
    return [txt(h.type).split('.')[-1]]


def caught_at(ctx, f, node, exc: str) -> bool:
    for t in enclosing(f.node, node, (ast.Try,)):
        inbody = any(x is node for s in t.body for x in ast.walk(s))
        if not inbody:
            continue
        for h in t.handlers:
            if any(is_subclass_name(ctx, f.module, exc, ht)
                   for ht in handler_types(h)):
                return True
    return False


def check(ctx) -> None:
    ctx.explanation = (
        'Static decision of structural necessary conditions of C11: '
        'exception contracts agree across the MailboxSet implementations '
        '(every explicit raise that leaves an interface method is a '
        'ResponseError or the class the interface declares and the session '
        'layer translates to NO; every effect a name-taking layout method '
        'declares is handled at its call site; every declared effect is '
        'actually realised by each layout implementation); the LIST '
        'wildcard translation accepts every character for "*", every '
        'character but the delimiter for "%" and anchors without admitting '
        'a trailing newline; CREATE/DELETE/RENAME test the right name '
        'against INBOX before calling the session; renaming INBOX leaves a '
        'fresh INBOX.')
    ctx.not_decided = ('LIST/LSUB result sets; RENAME of inferiors; '
                       '"changes nothing on NO" for check-then-act under '
                       'concurrency.')
    r111(ctx)
    r112(ctx)
    r113(ctx)
    r114(ctx)
    r115(ctx)
    r116(ctx)
    r117(ctx)


# ----------------------------------------------------------------------
def r111(ctx) -> None:
    Ra = ctx.rule('R11.1a', 'explicit raises match the interface contract',
                  6)
    Rb = ctx.rule('R11.1b', 'declared layout effects are handled at the call '
                  'site', 4)
    Rc = ctx.rule('R11.1c', 'declared effects are realised by every '
                  'implementation', 6)
    iface = ctx.proj.cls(BMBX, 'MailboxSetInterface')
    declared = {}
    for n, fs in iface.methods.items():
        d = raises_doc(fs[0])
        if d:
            declared[n] = set(d)
    if len(declared) < 4:
        raise AnchorError('MailboxSetInterface Raises: sections not found')
    # what the session layer translates per method
    bs = ctx.proj.cls(SESS, 'BaseSession')
    translated: dict[str, set[str]] = {}
    for fs in bs.methods.values():
        for f in fs:
            for c in calls_in(f.node):
                if call_name(c) in declared and 'mailbox_set' in txt(c.func):
                    got = set()
                    for t in enclosing(f.node, c, (ast.Try,)):
                        for h in t.handlers:
                            if any(isinstance(s, ast.Raise) for s in h.body):
                                got |= set(handler_types(h))
                    translated.setdefault(call_name(c), set()).update(got)
                    missing = declared[call_name(c)] - got
                    Ra.check(not missing, f, c,
                             f'{f.qualname}: translates '
                             f'{sorted(declared[call_name(c)])} of '
                             f'{call_name(c)}',
                             f'{sorted(missing)} declared by '
                             f'MailboxSetInterface.{call_name(c)} is not '
                             f'translated into a NO response here')
    impls = [ctx.proj.cls(DICT, 'MailboxSet'),
             ctx.proj.cls(MAILDIR, 'MailboxSet')]
    for c in impls:
        for n, decl in declared.items():
            f = c.own_method(n)
            if f is None:
                continue
            for r in walk_local(f.node):
                if not isinstance(r, ast.Raise) or r.exc is None:
                    continue
                e = r.exc.func if isinstance(r.exc, ast.Call) else r.exc
                name = txt(e).split('.')[-1]
                # re-raise of a handler-bound name: environment pass-through
                bound = [h for h in enclosing(f.node, r, (ast.ExceptHandler,))
                         if h.name == name]
                if bound:
                    continue
                if caught_at(ctx, f, r, name):
                    continue
                ok = name in decl or is_subclass_name(ctx, f.module, name,
                                                      'ResponseError')
                Ra.check(ok, f, r, f'{c.rel}: {n} raises {name}',
                         f'{n}() raises {name}, which is neither a '
                         f'ResponseError nor one of {sorted(decl)} that the '
                         f'interface declares and BaseSession translates: '
                         f'the command ends in BYE [SERVERBUG] instead of NO '
                         f'(e.g. CREATE of an existing mailbox on maildir)')
    # (b) layout effects handled by maildir MailboxSet
    lay = ctx.proj.cls(LAYOUT, 'MaildirLayout')
    ldecl = {}
    ldesc = {}
    for n, fs in lay.methods.items():
        d = raises_doc(fs[0])
        params = fs[0].params()
        if d and any(p in ('name', 'source_name', 'dest_name')
                     for p in params):
            ldecl[n] = set(d)
            ldesc[n] = d
    mset = impls[1]
    for fs in mset.methods.values():
        for f in fs:
            for c in calls_in(f.node):
                if call_name(c) in ldecl and '_layout' in txt(c.func):
                    for exc in sorted(ldecl[call_name(c)]):
                        Rb.check(caught_at(ctx, f, c, exc), f, c,
                                 f'{f.qualname}: {call_name(c)} -> {exc} '
                                 f'handled',
                                 f'MaildirLayout.{call_name(c)} declares '
                                 f'`Raises: {exc}` and {f.qualname} does not '
                                 f'catch it: the OS error escapes as BYE '
                                 f'[SERVERBUG] (e.g. RENAME of a missing '
                                 f'mailbox / to an existing one; CREATE '
                                 f'below a missing parent)')
    # (c) declared effects realised per concrete layout
    base = ctx.proj.cls(LAYOUT, '_BaseLayout')
    for c in ctx.proj.subclasses(base, 'pymap/backend/maildir/'):
        for n, decl in ldecl.items():
            f = c.find_method(n)
            if f is None:
                continue
            for exc in sorted(decl):
                if exc == 'OSError':
                    continue
                desc = ldesc[n].get(exc, '').lower()
                names = [p for p in f.params() if p.endswith('name')]
                if 'source' in desc:
                    names = [p for p in names if 'source' in p] or names
                elif 'destination' in desc:
                    names = [p for p in names if 'dest' in p] or names
                realised = _realised(ctx, c, f, set(names), 3)
                Rc.check(exc in realised, f, f.node,
                         f'{c.name}.{n}: can raise declared {exc}',
                         f'{c.name}.{n} has no path that raises the {exc} '
                         f'its interface declares (explicitly or through a '
                         f'filesystem call on the path built from the '
                         f'name): the condition is silently ignored or '
                         f'surfaces as another OS error (e.g. RENAME of a '
                         f'missing mailbox answers OK; RENAME onto an '
                         f'existing one raises ENOTEMPTY)',
                         f'realised: {sorted(realised)}')


def _realised(ctx, cls, f, tainted: set[str], depth: int) -> set[str]:
    """Exception classes the function can raise for the name-derived path."""
    out: set[str] = set()
    taint = set(tainted)
    # propagate taint through assignments (not through directory listings)
    changed = True
    while changed:
        changed = False
        for s in walk_local(f.node):
            if isinstance(s, (ast.Assign, ast.AnnAssign)) and \
                    getattr(s, 'value', None) is not None:
                # a slice of the parts denotes a PARENT, not the folder
                if isinstance(s.value, ast.Subscript) and \
                        isinstance(s.value.slice, ast.Slice):
                    continue
                if any(isinstance(x, ast.Subscript)
                       and isinstance(x.slice, ast.Slice)
                       for x in ast.walk(s.value)):
                    continue
                if names_in(s.value) & taint:
                    for t in targets_of(s):
                        if isinstance(t, ast.Name) and t.id not in taint:
                            taint.add(t.id)
                            changed = True
    listing_vars = set()
    for l in walk_local(f.node):
        if isinstance(l, ast.For) and any(
                call_name(c) in ('listdir', 'walk', 'scandir')
                for c in calls_in(l.iter)):
            listing_vars |= names_in(l.target)
    for r in walk_local(f.node):
        if isinstance(r, ast.Raise) and r.exc is not None:
            e = r.exc.func if isinstance(r.exc, ast.Call) else r.exc
            nm = txt(e).split('.')[-1]
            if not caught_at(ctx, f, r, nm):
                out.add(nm)
    for c in calls_in(f.node):
        nm = call_name(c)
        args = set()
        for a in c.args:
            args |= names_in(a)
        derived = bool(args & taint) and not (args & listing_vars)
        if nm in FS_RAISES and derived and \
                (isinstance(c.func, ast.Attribute)
                 and txt(c.func.value) in ('os', 'os.path', 'shutil')
                 or nm == 'open'):
            excs = set(FS_RAISES[nm])
            if nm == 'open':
                mode = c.args[1] if len(c.args) > 1 else kwarg(c, 'mode')
                cst, v = const_value(mode)
                excs = {'FileExistsError'} if cst and 'x' in str(v) \
                    else {'FileNotFoundError'}
            for e in excs:
                if not caught_at(ctx, f, c, e):
                    out.add(e)
        if depth and isinstance(c.func, ast.Attribute) and \
                is_name(c.func.value, 'self'):
            h = cls.find_method(nm)
            if h is not None and h is not f:
                # bind taint to the callee's parameters
                hp = h.params()[1:] if h.params()[:1] == ['self'] \
                    else h.params()
                ht = {p for p, a in zip(hp, c.args)
                      if names_in(a) & taint and not names_in(a)
                      & listing_vars}
                if not ht:
                    continue        # helper works on something else
                sub = _realised(ctx, cls, h, ht, depth - 1)
                for e in sub:
                    if not caught_at(ctx, f, c, e):
                        out.add(e)
    return out


# ----------------------------------------------------------------------
def _accepts_all(items, flags) -> tuple[bool, str]:
    """Does the (sub)pattern fragment `X*` / `X*?` accept every character?"""
    for op, av in items:
        name = str(op)
        if name in ('MAX_REPEAT', 'MIN_REPEAT'):
            lo, hi, sub = av
            return _accepts_all(list(sub), flags)
        if name == 'ANY':
            if flags & re.DOTALL:
                return True, 'ANY with DOTALL'
            return False, '`.` without DOTALL does not match a newline'
        if name == 'IN':
            neg = any(str(o) == 'NEGATE' for o, _ in av)
            body = [(o, a) for o, a in av if str(o) != 'NEGATE']
            if neg:
                return False, 'negated class'
            cats = {str(a) for o, a in body if str(o) == 'CATEGORY'}
            if {'CATEGORY_SPACE', 'CATEGORY_NOT_SPACE'} <= cats or \
                    {'CATEGORY_WORD', 'CATEGORY_NOT_WORD'} <= cats or \
                    {'CATEGORY_DIGIT', 'CATEGORY_NOT_DIGIT'} <= cats:
                return True, 'complementary categories'
            return False, 'character class does not cover everything'
        if name == 'SUBPATTERN':
            return _accepts_all(list(av[3]), flags)
    return False, 'unrecognised fragment'


def r112(ctx) -> None:
    R = ctx.rule('R11.2', 'LIST wildcard translation', 3,
                 'RFC 3501 6.3.8: * matches zero or more characters; % the '
                 'same except the hierarchy delimiter')
    lt = ctx.proj.cls(LISTTREE, 'ListTree')
    f = lt.own_method('_get_pattern')
    if f is None:
        if lt.own_method('_matches') is not None:
            return _r112_offsets(ctx, R, lt)
        raise AnchorError('ListTree._get_pattern / _matches vanished')
    # fragments appended under `part == '*'` / `part == '%'`
    frag = {}
    for t in walk_local(f.node):
        if isinstance(t, ast.If) and isinstance(t.test, ast.Compare) and \
                isinstance(t.test.ops[0], ast.Eq):
            ok, k = const_value(t.test.comparators[0])
            if ok and k in ('*', '%'):
                for c in [x for s in t.body for x in calls_in(s, 'append')]:
                    frag[k] = c.args[0]
    # flags of the compiled patterns
    comps = [c for c in calls_in(f.node, 'compile')]
    flagsets = []
    for c in comps:
        fl = 0
        for a in list(c.args[1:]) + [k.value for k in c.keywords]:
            for n in ast.walk(a):
                if isinstance(n, ast.Attribute) and n.attr in (
                        'DOTALL', 'S'):
                    fl |= re.DOTALL
                if isinstance(n, ast.Attribute) and n.attr in (
                        'MULTILINE', 'M'):
                    fl |= re.MULTILINE
        flagsets.append(fl)
    if '*' not in frag or '%' not in frag or not comps:
        raise AnchorError('_get_pattern: wildcard fragments / compile calls '
                          'not found')
    ok, v = const_value(frag['*'])
    if not ok:
        R.undecided(f, frag['*'], '"*" fragment accepts every character',
                    'fragment is not a constant')
    else:
        for i, fl in enumerate(flagsets):
            try:
                items = list(sre_parse.parse(v, fl))
                good, why = _accepts_all(items, fl)
            except Exception as exc:     # pragma: no cover
                good, why = False, f'unparsable: {exc}'
            R.check(good, f, comps[i], f'"*" fragment accepts every '
                    f'character (pattern {i + 1})',
                    f'"*" is translated to {v!r}: {why}; a mailbox whose '
                    f'name contains a newline (sent as a literal) is not '
                    f'listed by LIST "" *')
    # % : the no-delimiter fragment
    init = lt.own_method('__init__')
    nd = None
    for s in walk_local(init.node):
        for t in targets_of(s):
            if is_attr(t, '_no_delimiter', 'self'):
                nd = s.value
    good = False
    why = 'fragment not found'
    if nd is not None:
        s_ = txt(nd).replace(' ', '')
        good = s_.startswith("'[^'+re.escape(") and (
            s_.endswith("+']*?'") or s_.endswith("+']*'"))
        why = f'{txt(nd)} is not `[^<escaped delimiter>]*`'
    R.check(good and txt(frag['%']) == 'self._no_delimiter', f, frag['%'],
            '"%" fragment = any character except the delimiter', why)
    # anchors
    pat_exprs = [c.args[0] for c in comps if c.args]
    bad = []
    for p in pat_exprs:
        for v2 in resolve_local(f, p):
            s_ = txt(v2)
            if re.search(r"\+\s*'\$'\s*$", s_) or s_.endswith("$'"):
                bad.append(s_)
    users = [c for g in lt.methods.values() for x in g
             for c in calls_in(x.node)
             if call_name(c) in ('match', 'fullmatch', 'search')
             and 'canonical' in txt(c.func.value)]
    uses_fullmatch = users and all(call_name(c) == 'fullmatch' for c in users)
    R.check(not bad or bool(uses_fullmatch), f, f.node,
            'end anchor admits no trailing newline',
            "the pattern ends with '$', which also matches before a "
            "trailing newline: LIST \"\" foo lists the mailbox 'foo\\n' "
            "(use \\Z or fullmatch)")


def _r112_offsets(ctx, R, lt) -> None:
    """The matcher that tracks the set of offsets the pattern parts can end
    at (no regex).  Each wildcard's transfer function is checked on its
    syntax tree; an unrecognised shape is UNDECIDED (exit 2), never a pass."""
    f = lt.own_method('_matches')
    params = f.params()
    if len(params) < 3:
        raise AnchorError('_matches(self, parts, name) signature changed')
    name = params[2]

    def nt(e) -> str:
        return txt(e).replace(' ', '')
    loop = next((x for x in walk_local(f.node) if isinstance(x, ast.For)
                 and txt(x.iter) == params[1]), None)
    if loop is None:
        raise AnchorError('_matches: loop over the pattern parts not found')
    part = txt(loop.target)
    br = {}
    node = loop.body[0] if loop.body and isinstance(loop.body[0], ast.If) \
        else None
    while isinstance(node, ast.If):
        t = node.test
        if isinstance(t, ast.Compare) and nt(t.left) == part and \
                isinstance(t.ops[0], ast.Eq):
            okc, k = const_value(t.comparators[0])
            if okc:
                br[k] = node.body
        if len(node.orelse) == 1 and isinstance(node.orelse[0], ast.If):
            node = node.orelse[0]
        else:
            br['lit'] = node.orelse
            node = None
    if '*' not in br or '%' not in br or not br.get('lit'):
        R.undecided(f, f.node, '_matches: branches for "*", "%" and literal '
                    'parts', 'if/elif chain on the part not recognised')
        return
    # the state variable: initialised to {0}, tested at the end
    init = [s_ for s_ in f.node.body if isinstance(s_, ast.Assign)
            and isinstance(s_.value, ast.Set) and len(s_.value.elts) == 1
            and const_value(s_.value.elts[0]) == (True, 0)]
    st = txt(init[0].targets[0]) if init else None
    R.check(st is not None, f, f.node, 'matching starts at offset 0 only',
            'the offset set is not initialised to {0}: the pattern is not '
            'anchored at the start of the name')
    if st is None:
        return
    rets = [r for r in walk_local(f.node) if isinstance(r, ast.Return)
            and r.value is not None and const_value(r.value) != (True, False)]
    R.check(bool(rets) and all(nt(r.value) == f'len({name})in{st}'
                               for r in rets), f, f.node,
            'a match must end exactly at the end of the name',
            f'the final test is {[txt(r.value) for r in rets]}, not '
            f'`len({name}) in {st}`: LIST "" foo would also list foo-bar '
            f'(or nothing)')

    def ranges(body):
        return [c for s_ in body for c in calls_in(s_, 'range')]
    # "*": every offset from the earliest reachable one to the END inclusive
    rs = ranges(br['*'])
    if len(rs) != 1 or len(rs[0].args) != 2:
        R.undecided(f, br['*'][0], '"*" reaches every later offset',
                    'no single range(lo, hi) in the "*" branch')
    else:
        lo, hi = rs[0].args
        R.check(nt(hi) in (f'len({name})+1', f'1+len({name})') and
                nt(lo) == f'min({st})', f, rs[0],
                '"*" reaches every offset from the earliest one to the end',
                f'"*" yields range({txt(lo)}, {txt(hi)}), not '
                f'range(min({st}), len({name}) + 1): "*" no longer matches '
                f'zero or more of EVERY character (RFC 3501 6.3.8) — e.g. '
                f'LIST "" * misses names, or "a*" no longer matches "a"')
    # "%": from each offset up to (not across) the next delimiter
    rs = ranges(br['%'])
    finds = [c for s_ in br['%'] for c in calls_in(s_)
             if call_name(c) in ('find', 'index') and nt(c.func.value) == name]
    inner = next((x for s_ in br['%'] for x in ast.walk(s_)
                  if isinstance(x, ast.For) and nt(x.iter) == st), None)
    if inner is None and rs:
        R.fail(f, br['%'][0], '"%" reaches every offset up to the next '
               'delimiter, and none beyond',
               f'the "%" branch does not extend EVERY reachable offset in '
               f'`{st}` (no loop over it): after "*" + literal there are '
               f'several candidates and the later ones are dropped — LIST '
               f'"" */% returns Work/2024 but not Work/2024/Q1')
    elif len(rs) != 1 or len(rs[0].args) != 2 or len(finds) != 1 or \
            inner is None or len(finds[0].args) != 2:
        R.undecided(f, br['%'][0], '"%" stops at the hierarchy delimiter',
                    'range / find(delimiter, start) / loop over the offsets '
                    'not recognised in the "%" branch')
    else:
        start = txt(inner.target)
        lo, hi = rs[0].args
        fnd = finds[0]
        stopv = None
        for s_ in ast.walk(inner):
            if isinstance(s_, ast.Assign) and s_.value is fnd:
                stopv = txt(s_.targets[0])
        delim_ok = any(nt(v).endswith('_delimiter')
                       for v in resolve_local(f, fnd.args[0])) or \
            nt(fnd.args[0]).endswith('_delimiter')
        # find() == -1 -> no delimiter ahead -> the end of the name
        fallback = any(isinstance(s_, ast.If) and nt(s_.test) in (
            f'{stopv}<0', f'{stopv}==-1') and any(
                isinstance(b, ast.Assign) and nt(b.targets[0]) == stopv
                and nt(b.value) == f'len({name})' for b in s_.body)
            for s_ in ast.walk(inner))
        R.check(stopv is not None and delim_ok and fallback and
                nt(fnd.args[1]) == start and nt(lo) == start and
                nt(hi) in (f'{stopv}+1', f'1+{stopv}'), f, rs[0],
                '"%" reaches every offset up to the next delimiter, and '
                'none beyond',
                f'"%" yields range({txt(lo)}, {txt(hi)}) with the stop '
                f'found by {txt(fnd)}: not "zero or more characters other '
                f'than the hierarchy delimiter" (RFC 3501 6.3.8) — '
                f'range({start} + 1, …) makes "%" need one character (LIST '
                f'"" Sent% omits Sent); a stop beyond the delimiter lets '
                f'"%" cross hierarchy levels')
    # literal parts
    sw = [c for s_ in br['lit'] for c in calls_in(s_, 'startswith')]
    adv = [x for s_ in br['lit'] for x in ast.walk(s_)
           if isinstance(x, ast.BinOp) and isinstance(x.op, ast.Add)
           and f'len({part})' in (nt(x.left), nt(x.right))]
    if len(sw) != 1 or len(adv) != 1 or len(sw[0].args) != 2:
        R.undecided(f, br['lit'][0], 'literal parts match exactly',
                    'startswith(part, offset) / offset + len(part) not '
                    'recognised')
    else:
        off = nt(sw[0].args[1])
        R.check(nt(sw[0].func.value) == name and nt(sw[0].args[0]) == part
                and off in (nt(adv[0].left), nt(adv[0].right)), f, sw[0],
                'a literal part matches itself at the offset and advances '
                'by its length',
                f'literal parts are compared with {txt(sw[0])} and advance '
                f'by {txt(adv[0])}')
    # callers drop empty parts and fold case for INBOX only
    lm = lt.own_method('list_matching')
    lcfg = cfg_of(lm)
    ys = lcfg.find(lambda n: n.kind == 'stmt' and any(
        isinstance(x, (ast.Yield, ast.YieldFrom)) for x in ast.walk(n.stmt)))
    mtests = [t for t in lcfg.nodes if t.kind == 'test' and any(
        call_name(c) == '_matches' for c in t.calls())
        and not isinstance(t.stmt.test, ast.UnaryOp)]
    R.check(bool(ys) and bool(mtests) and all(
        any(lcfg.controlled_by(y, t, 't') for t in mtests) for y in ys),
        lm, lm.node, 'list_matching yields an entry only if _matches() '
        'accepted it', 'an entry is yielded without (or against) the '
        'verdict of _matches()')


# ----------------------------------------------------------------------
def r113(ctx) -> None:
    R = ctx.rule('R11.3', 'INBOX guards', 3)
    cs = ctx.proj.cls(STATE, 'ConnectionState')
    for hn, field in (('do_create', 'cmd.mailbox'), ('do_delete',
                                                     'cmd.mailbox'),
                      ('do_rename', 'cmd.to_mailbox')):
        f = cs.own_method(hn)
        if f is None:
            raise AnchorError(f'{hn} vanished')
        cfg = cfg_of(f)
        calls = cfg.find(lambda n: n.suspends and any(
            'session' in txt(c.func) for c in n.calls()))
        tests = []
        for t in cfg.nodes:
            if t.kind == 'test' and isinstance(t.stmt.test, ast.Compare) and \
                    len(t.stmt.test.ops) == 1 and \
                    isinstance(t.stmt.test.ops[0], ast.Eq):
                sides = {txt(t.stmt.test.left),
                         txt(t.stmt.test.comparators[0])}
                if sides == {field, "'INBOX'"}:
                    tb = [m for m, lab in t.succ if lab == 't']
                    r = cfg.reach(tb, labels=ALL, first_labels=ALL,
                                  include_starts=True) | set(tb)
                    if not any(c in r for c in calls):
                        tests.append(t)
        R.check(bool(tests) and bool(calls) and all(
            cfg.dominated_by(c, tests) for c in calls), f, f.node,
            f'{hn}: `{field} == "INBOX"` refused before the session call',
            f'{hn} does not refuse when {field} is INBOX before calling the '
            f'backend (INBOX could be created, deleted or overwritten)')
    # Mailbox parsing canonicalises INBOX case
    mb = ctx.proj.cls('pymap/parsing/specials/mailbox.py', 'Mailbox')
    init = mb.own_method('__init__')
    ok = any(isinstance(t, ast.If) and 'upper()' in txt(t.test)
             and 'INBOX' in txt(t.test) for t in walk_local(init.node))
    R.check(ok, init, init.node, 'Mailbox canonicalises INBOX '
            'case-insensitively', 'the parsed mailbox name is not '
            'canonicalised to INBOX for case variants')


def r114(ctx) -> None:
    R = ctx.rule('R11.4', 'renaming INBOX leaves a fresh INBOX (dict)', 1)
    c = ctx.proj.cls(DICT, 'MailboxSet')
    f = c.own_method('rename_mailbox')
    if f is None:
        raise AnchorError('dict rename_mailbox vanished')
    cfg = cfg_of(f)
    moved = cfg.find(lambda n: n.kind == 'stmt' and
                     txt(getattr(n.stmt, 'value', None)) == 'self._inbox'
                     and any(isinstance(t, ast.Subscript)
                             and is_attr(t.value, '_set', 'self')
                             for t in targets_of(n.stmt)))
    fresh = cfg.find(lambda n: n.kind == 'stmt' and any(
        is_attr(t, '_inbox', 'self') for t in targets_of(n.stmt))
        and isinstance(n.stmt.value, ast.Call)
        and call_name(n.stmt.value) == 'MailboxData')
    ok = bool(moved) and bool(fresh) and all(
        cfg.always_followed_by(m, fresh, labels=NORMAL) for m in moved)
    R.check(ok, f, f.node, 'rename of INBOX re-creates self._inbox',
            'after moving the INBOX object under its new name no fresh '
            'INBOX is created: INBOX and the renamed mailbox are the same '
            'object (messages appear in both)')


def r115(ctx) -> None:
    R = ctx.rule('R11.5', 'a missing mailbox is detected on every lookup '
                 'path (maildir)', 1)
    c = ctx.proj.cls(MAILDIR, 'MailboxSet')
    f = c.own_method('get_mailbox')
    if f is None:
        raise AnchorError('maildir get_mailbox vanished')
    cfg = cfg_of(f)
    p = f.params()[1]
    exist = cfg.find(lambda n: any(call_name(x) in ('get_folder',)
                                   and '_layout' in txt(x.func)
                                   for x in n.calls()))
    inbox = [t for t in cfg.nodes if t.kind == 'test'
             and guard_atoms(t.stmt.test) == [(f"{p} == 'INBOX'", True)]]
    rets = cfg.find(lambda n: isinstance(n.stmt, ast.Return)
                    and n.stmt.value is not None)
    bad = []
    for r in rets:
        if cfg.dominated_by(r, exist):
            continue
        if runs_only_when(cfg, r, f"{p} == 'INBOX'", True):
            continue
        # reachable only through (existence check) or (INBOX branch)
        reach = cfg.reach([cfg.entry], avoid=exist, labels=ALL,
                          first_labels=ALL,
                          skip_edges=[(t, 't') for t in inbox])
        if r in reach:
            bad.append(r.lineno)
    R.check(bool(exist) and not bad, f, f.node,
            'get_mailbox: every success return passed the folder existence '
            'check (or is INBOX)',
            f'return at line(s) {bad} can be reached without '
            f'self._layout.get_folder(...): a mailbox that was deleted or '
            f'renamed away after it was cached is "found", and the '
            f'FileNotFoundError from reset() is not the KeyError the '
            f'interface promises (STATUS of the old name -> BYE '
            f'[SERVERBUG] instead of NO)')


def r116(ctx) -> None:
    R = ctx.rule('R11.6', 'Maildir++ inferiors are selected by a '
                 'component-boundary prefix', 2)
    lay = 'pymap/backend/maildir/layout.py'
    dl = ctx.proj.cls(lay, 'DefaultLayout')
    n = 0
    for fs in dl.methods.values():
        for f in fs:
            sub = {t.id for s_ in walk_local(f.node)
                   if isinstance(s_, ast.Assign) and isinstance(
                       s_.value, ast.Call) and call_name(s_.value)
                   == '_get_subdir' for t in s_.targets
                   if isinstance(t, ast.Name)}
            if not sub:
                continue
            for c in calls_in(f.node, 'startswith'):
                if not c.args:
                    continue
                a = c.args[0]
                used = {x.id for x in ast.walk(a) if isinstance(x, ast.Name)}
                if not (used & sub):
                    continue
                n += 1
                bounded = isinstance(a, ast.BinOp) and isinstance(
                    a.op, ast.Add) and const_value(a.right) == (True, '.') \
                    and isinstance(a.left, ast.Name) and a.left.id in sub
                R.check(bounded, f, c,
                        f'{f.qualname}: `{txt(c)}` tests a whole name '
                        f'component',
                        f'`{txt(c)}` selects directory entries by a bare '
                        f'string prefix of the flat Maildir++ name (no '
                        f'trailing "."): RENAME Sent Archive also renames '
                        f'"Sent Items" to "Archive Items" and '
                        f'"Sentinel/Logs" to "Archiveinel/Logs" — names '
                        f'nobody asked to rename disappear from LIST')
    if n < 2:
        raise AnchorError(f'DefaultLayout: only {n} prefix test(s) on '
                          f'_get_subdir results found')
    # the mailbox itself is renamed too: equality disjunct next to the prefix
    rf = dl.own_method('_rename_folder')
    if rf is None:
        raise AnchorError('DefaultLayout._rename_folder vanished')
    eq = any(isinstance(t, ast.Compare) and isinstance(t.ops[0], ast.Eq)
             and {txt(t.left), txt(t.comparators[0])} >= {'elem', 'subdir'}
             for t in walk_local(rf.node))
    R.check(eq, rf, rf.node, '_rename_folder renames the mailbox itself '
            '(elem == subdir) as well as its inferiors',
            'no equality test for the renamed mailbox itself')
    # the new name of an entry = new prefix + what followed the old prefix
    ps = [p for p in rf.params() if p not in ('self', 'cls')]
    role = {}
    for s_ in walk_local(rf.node):
        if isinstance(s_, ast.Assign) and isinstance(s_.value, ast.Call) \
                and call_name(s_.value) == '_get_subdir' and s_.value.args \
                and isinstance(s_.targets[0], ast.Name):
            a0 = txt(s_.value.args[0])
            if a0 in ps:
                role['src' if ps.index(a0) == 0 else 'dst'] = \
                    s_.targets[0].id
    key = '_rename_folder: new entry name = new prefix + remainder'
    renames = [c for c in calls_in(rf.node) if txt(c.func) in (
        'os.rename', 'os.replace', 'shutil.move') and len(c.args) == 2]
    if len(role) != 2 or not renames:
        R.undecided(rf, rf.node, key, 'source/destination prefix or the '
                    'os.rename call not recognised')
        return
    for c in renames:
        verdict = None
        for v in resolve_local(rf, c.args[1]):
            names = [v]
            if isinstance(v, ast.Call) and call_name(v) == 'join' and v.args:
                names = resolve_local(rf, v.args[-1])
            for nv in names:
                if any(isinstance(x, ast.Call) and call_name(x) == 'replace'
                       for x in ast.walk(nv)):
                    verdict = ('fail', txt(nv))
                    break
                ok = isinstance(nv, ast.BinOp) and isinstance(nv.op, ast.Add)\
                    and txt(nv.left) == role['dst'] and (
                        (isinstance(nv.right, ast.Subscript)
                         and isinstance(nv.right.slice, ast.Slice)
                         and nv.right.slice.upper is None
                         and nv.right.slice.lower is not None
                         and txt(nv.right.slice.lower)
                         == f"len({role['src']})")
                        or (isinstance(nv.right, ast.Call)
                            and call_name(nv.right) == 'removeprefix'
                            and [txt(a) for a in nv.right.args]
                            == [role['src']]))
                if not ok and verdict is None:
                    verdict = ('undecided', txt(nv))
                elif ok and verdict is None:
                    verdict = ('ok', txt(nv))
        if verdict is None:
            verdict = ('undecided', txt(c.args[1]))
        if verdict[0] == 'fail':
            R.fail(rf, c, key,
                   f'`{verdict[1]}` substitutes EVERY occurrence of the old '
                   f'flat name, not the leading prefix: RENAME Archive Old '
                   f'moves "Archive/2023/Archive" to "Old/2023/Old" (and '
                   f'"A/x/Ab" to "B/x/Bb"); the inferior appears under a '
                   f'name nobody asked for and the promised name does not '
                   f'exist')
        elif verdict[0] == 'ok':
            R.ok(rf, c, key, verdict[1])
        else:
            R.undecided(rf, c, key, f'`{verdict[1]}` is neither '
                        f'<new prefix> + elem[len(<old prefix>):] nor '
                        f'.removeprefix()')


def r117(ctx) -> None:
    R = ctx.rule('R11.7', 'maildir: the one-name-per-line subscriptions file '
                 'stores names intact', 2)
    SUBS = 'pymap/backend/maildir/subscriptions.py'
    sc = ctx.proj.cls(SUBS, 'Subscriptions')
    rd, wr = sc.own_method('read'), sc.own_method('write')
    if rd is None or wr is None:
        raise AnchorError('Subscriptions.read/write vanished')
    # the terminator the writer appends
    term = None
    for c in calls_in(wr.node, 'write'):
        for x in ast.walk(c):
            okc, v = const_value(x) if isinstance(x, ast.Constant) \
                else (False, None)
            if okc and isinstance(v, str) and v and set(v) <= set('\r\n'):
                term = v
    if term is None:
        raise AnchorError('Subscriptions.write: line terminator not found')
    strips = [c for c in calls_in(rd.node)
              if call_name(c) in ('rstrip', 'strip', 'lstrip')]
    bad = [txt(c) for c in strips
           if not (call_name(c) == 'rstrip' and len(c.args) == 1
                   and const_value(c.args[0])[0]
                   and set(const_value(c.args[0])[1]) <= set('\r\n')
                   and set(term) <= set(const_value(c.args[0])[1]))]
    R.check(bool(strips) and not bad, rd, rd.node,
            'Subscriptions.read strips exactly the line terminator',
            f'{bad or "no rstrip"}: the reader removes more than the '
            f'{term!r} the writer appended (all trailing whitespace): a '
            f'subscribed name ending in a space comes back without it, so '
            f'LSUB lists "foo" instead of "foo "')
    # names with a line break never reach the file
    ms = ctx.proj.cls('pymap/backend/maildir/mailbox.py', 'MailboxSet')
    f = ms.own_method('set_subscribed')
    if f is None:
        raise AnchorError('maildir set_subscribed vanished')
    cfg = cfg_of(f)
    sinks = cfg.find(lambda n: any(call_name(c) in ('set', 'add')
                                   and 'subs' in txt(c.func.value)
                                   for c in n.calls()))
    guards = []
    for t in cfg.nodes:
        if t.kind != 'test':
            continue
        tt = txt(t.stmt.test)
        if "'\\n' in name" in tt and "'\\r' in name" in tt and \
                isinstance(t.stmt.test, ast.BoolOp) and \
                isinstance(t.stmt.test.op, ast.Or):
            if any(isinstance(m.stmt, ast.Raise) for m, lab in t.succ
                   if lab == 't'):
                guards.append(t)
    R.check(bool(sinks) and bool(guards) and all(
        cfg.dominated_by(s_, guards, labels=NORMAL) for s_ in sinks),
        f, f.node, 'set_subscribed refuses names containing CR or LF',
        'a name containing a line break reaches the subscriptions file: '
        'SUBSCRIBE "a<LF>b" writes two lines, LSUB then lists "a" and "b" '
        '(never subscribed) and not the name that was')

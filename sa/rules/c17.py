"""C17 — \\Recent: R17.1-R17.8."""
from __future__ import annotations

import ast

from ..cfg import NORMAL, ALL, walk_local
from ..facts import (built_sequence, cfg_of, call_name, calls_in, bind_args, targets_of,
                     local_assigns, resolve_local, guard_atoms, is_attr,
                     is_name, kwarg, strip_await, enclosing, const_value)
from ..loader import txt, AnchorError
from ..suspend import SuspModel

SESS = 'pymap/backend/session.py'
SEL = 'pymap/selected.py'
FLAGS = 'pymap/flags.py'
MBX = 'pymap/mailbox.py'
BMBX = 'pymap/backend/mailbox.py'
DICT = 'pymap/backend/dict/mailbox.py'
MAILDIR = 'pymap/backend/maildir/mailbox.py'
STATE = 'pymap/imap/state.py'

MATERIALISERS = {'list', 'set', 'frozenset', 'tuple', 'sorted', 'dict'}


def _is_recent_set(ctx, mod, e) -> bool:
    """e evaluates to a set containing exactly the Recent flag."""
    if isinstance(e, (ast.Set,)) and len(e.elts) == 1 and \
            txt(e.elts[0]) == 'Recent':
        return True
    if isinstance(e, ast.Call) and call_name(e) in ('frozenset', 'set') and \
            e.args:
        return _is_recent_set(ctx, mod, e.args[0])
    if isinstance(e, ast.Name):
        r = ctx.proj.resolve_name(mod, e.id)
        if r and r[0] == 'value':
            return _is_recent_set(ctx, r[1], r[2])
    return False


def _subtracts_recent(ctx, mod, e) -> bool:
    e = strip_await(e)
    if isinstance(e, ast.BinOp) and isinstance(e.op, ast.Sub):
        return _is_recent_set(ctx, mod, e.right) or \
            _subtracts_recent(ctx, mod, e.left)
    if isinstance(e, ast.Call) and call_name(e) == 'difference' and e.args:
        return _is_recent_set(ctx, mod, e.args[0])
    if isinstance(e, ast.Call) and call_name(e) == 'frozenset' and e.args:
        return _subtracts_recent(ctx, mod, e.args[0])
    return False


def check(ctx) -> None:
    ctx.explanation = (
        'Static decision of structural necessary conditions of C17: '
        '\\Recent is subtracted wherever the set of settable flags is '
        'defined; at each delivery site the stored recent mark is the exact '
        'negation of "a live selection received it"; claiming pairs the '
        'session mark with clearing the stored mark with no real suspension '
        'in between; no read-only selection can be chosen as the recipient; '
        'RECENT counts come from the session for read-write and from the '
        'store for read-only selections; the claimed key set is '
        'materialised before membership tests; COPY does not carry the '
        'source recent mark.')
    ctx.not_decided = 'exclusivity over all select/append orders.'
    r171(ctx)
    r172(ctx)
    r174(ctx)
    r175(ctx)
    r176(ctx)
    r177(ctx)
    r178(ctx)
    r179(ctx)
    r1710(ctx)
    r1711(ctx)


def r171(ctx) -> None:
    R = ctx.rule('R17.1', '\\Recent removed from every settable universe', 4)
    fl = ctx.proj.module(FLAGS)
    for cn in ('PermanentFlags', 'SessionFlags'):
        c = ctx.proj.cls(FLAGS, cn)
        init = c.own_method('__init__')
        if init is None:
            raise AnchorError(f'{cn}.__init__ vanished')
        st = [(s, t) for s in walk_local(init.node) for t in targets_of(s)
              if is_attr(t, '_defined', 'self')]
        ok = bool(st) and all(_subtracts_recent(ctx, fl, s.value)
                              for s, _ in st if hasattr(s, 'value'))
        R.check(ok, init, init.node, f'{cn}: defined flags exclude \\Recent',
                f'{cn}._defined is not `… - {{Recent}}`: STORE can set or '
                f'clear \\Recent')
    sf = ctx.proj.cls(FLAGS, 'SessionFlags')
    upd = sf.own_method('update')
    if upd is None:
        raise AnchorError('SessionFlags.update vanished')
    good = False
    for c in calls_in(upd.node, 'apply'):
        for a in c.args:
            for v in resolve_local(upd, a):
                if (isinstance(v, ast.BinOp) and isinstance(v.op, ast.BitAnd)
                        and is_name(v.left, 'self')) or \
                        (isinstance(v, ast.Call)
                         and call_name(v) == 'intersect'
                         and is_name(v.func.value, 'self')):
                    good = True
    R.check(good, upd, upd.node,
            'SessionFlags.update filters through the defined set',
            'session-flag updates are not intersected with the defined '
            '(Recent-free) set: STORE +FLAGS (\\Recent) would stick')
    ms = ctx.proj.cls(MBX, 'MailboxSnapshot')
    init = ms.own_method('__init__')
    st = [(s, t) for s in walk_local(init.node) for t in targets_of(s)
          if is_attr(t, 'permanent_flags', 'self')]
    R.check(bool(st) and all(_subtracts_recent(ctx, ms.module, s.value)
                             for s, _ in st), init, init.node,
            'MailboxSnapshot.permanent_flags excludes \\Recent',
            'PERMANENTFLAGS advertises \\Recent')
    mdi = ctx.proj.cls(BMBX, 'MailboxDataInterface')
    pf = mdi.own_method('permanent_flags')
    if pf is None:
        raise AnchorError('MailboxDataInterface.permanent_flags vanished')
    rets = [r for r in walk_local(pf.node) if isinstance(r, ast.Return)]
    R.check(bool(rets) and all(_subtracts_recent(ctx, mdi.module, r.value)
                               for r in rets), pf, pf.node,
            'default permanent_flags excludes \\Recent',
            'the default permanent flag set contains \\Recent')


def _delivery_sites(ctx):
    bs = ctx.proj.cls(SESS, 'BaseSession')
    out = []
    for fs in bs.methods.values():
        for f in fs:
            for c in calls_in(f.node):
                if call_name(c) in ('append', 'copy', 'move') and \
                        kwarg(c, 'recent') is not None:
                    out.append((f, c))
    return out


def r172(ctx) -> None:
    R = ctx.rule('R17.2', 'stored recent = not(a live selection got it)', 3)
    for f, c in _delivery_sites(ctx):
        rk = kwarg(c, 'recent')
        vals = resolve_local(f, rk)
        atoms = [a for v in vals for a in guard_atoms(v)]
        key = f'{f.qualname}: {call_name(c)}(recent=…) complements ' \
              f'add_recent'
        if len(atoms) != 1 or atoms[0][1] is not False:
            R.fail(f, c, key, f'recent={txt(rk)} is not the negation of '
                   f'the chosen selection: the message is stored recent '
                   f'although a session already announced it, or neither')
            continue
        sel = atoms[0][0]
        cfg = cfg_of(f)
        adds = cfg.find(lambda n: any(
            call_name(x) == 'add_recent'
            and txt(x.func.value).startswith(sel + '.') for x in n.calls()))
        if not adds:
            R.fail(f, c, key, f'no {sel}.session_flags.add_recent(): the '
                   f'message is neither stored recent nor announced')
            continue
        bad = []
        for a in adds:
            ctl = False
            for t in cfg.nodes:
                if t.kind != 'test':
                    continue
                at = guard_atoms(t.stmt.test)
                if at == [(sel, True)] and cfg.controlled_by(a, t, 't'):
                    ctl = True
                if at == [(sel, False)] and cfg.controlled_by(a, t, 'f'):
                    ctl = True
            # extra conditions allowed only about the result (uid not None)
            if not ctl:
                bad.append(a.lineno)
        # the add must follow the delivery call on every path in the same
        # iteration where the delivery returned a UID
        R.check(not bad, f, c, key,
                f'add_recent at line(s) {bad} is not guarded by exactly '
                f'`if {sel}`', f'recent=not {sel}; add_recent under '
                f'`if {sel}`')


def r174(ctx) -> None:
    R = ctx.rule('R17.4', 'claim pairs the session mark with clearing the '
                 'stored mark', 1)
    cls = ctx.proj.cls(DICT, 'MailboxData')
    f = cls.own_method('claim_recent')
    if f is None:
        raise AnchorError('dict claim_recent vanished')
    cfg = cfg_of(f)
    clears = cfg.find(lambda n: n.kind == 'stmt' and any(
        isinstance(t, ast.Attribute) and t.attr in ('recent', '_recent')
        for t in targets_of(n.stmt))
        and const_value(getattr(n.stmt, 'value', None)) == (True, False))
    adds = cfg.find(lambda n: any(call_name(c) == 'add_recent'
                                  for c in n.calls()))
    if not clears or not adds:
        R.fail(f, f.node, 'claim_recent: clear and add present',
               'claim_recent does not both clear the stored mark and add '
               'the session mark')
        return
    model = SuspModel(ctx.proj, [DICT])
    real = model.real_nodes(f, cfg)
    for cl in clears:
        # the test of the stored mark
        # (either polarity: `if m.recent: clear` / `if not m.recent:
        # continue; clear`)
        tests = []
        for t in cfg.nodes:
            if t.kind != 'test':
                continue
            for edge, atoms in (('t', guard_atoms(t.stmt.test)),
                                ('f', guard_atoms(ast.UnaryOp(
                                    ast.Not(), t.stmt.test)))):
                if any(a.endswith('.recent') and pol for a, pol in atoms) \
                        and cfg.controlled_by(cl, t, edge):
                    tests.append(t)
        key = 'claim_recent: clear is paired with add_recent'
        loop_heads = [n for n in cfg.nodes if n.kind == 'for_iter']
        ok = bool(tests)
        # every path from the clear to the next iteration / exit passes an add
        # or the add precedes the clear under the same test
        after = cfg.reach([cl], avoid=adds, labels=NORMAL)
        add_before = any(cfg.dominated_by(cl, [a]) and any(
            cfg.controlled_by(a, t, 't') or cfg.controlled_by(a, t, 'f')
            for t in tests) for a in adds)
        paired = add_before or not (set(loop_heads) & after
                                    or cfg.exit in after)
        R.check(ok and paired, f, cl.stmt, key,
                'a message whose stored \\Recent mark is cleared is not '
                'added to the claiming session on every path: the mark is '
                'lost (no session ever reports it)' if ok else
                'the clear is not guarded by a test of the stored mark',
                'same branch of the stored-mark test')
        key = 'claim_recent: no real suspension between test and clear'
        for t in tests:
            mid = cfg.between([t], [cl]) | {cl}
            bad = sorted(n.lineno for n in mid if n in real)
            R.check(not bad, f, cl.stmt, key,
                    f'real suspension at line(s) {bad} between testing and '
                    f'clearing the stored mark: two sessions selecting '
                    f'concurrently can both claim the same message',
                    f'0 real suspension points ({model.describe()})')


def r175(ctx) -> None:
    R = ctx.rule('R17.5', 'a read-only selection is never the recipient', 2)
    bs = ctx.proj.cls(SESS, 'BaseSession')
    f = bs.own_method('_pick_selected')
    if f is None:
        # role: whatever computes the recipient at the delivery sites
        raise AnchorError('BaseSession._pick_selected vanished')
    cfg = cfg_of(f)
    for n in cfg.find(lambda n: isinstance(n.stmt, ast.Return)):
        v = n.stmt.value
        if v is None or const_value(v) == (True, None):
            continue
        for e in resolve_local(f, v):
            key = f'_pick_selected: returned `{txt(e)}` is read-write'
            if isinstance(e, ast.Attribute) and e.attr == 'any_selected':
                ss = ctx.proj.cls(SEL, 'SelectedSet')
                g = ss.own_method('any_selected')
                gcfg = cfg_of(g)
                bad = []
                for r in gcfg.find(lambda x: isinstance(x.stmt, ast.Return)):
                    rv = r.stmt.value
                    if rv is None or const_value(rv) == (True, None):
                        continue
                    nm = txt(rv)
                    ok = any(
                        gcfg.controlled_by(r, t, 'f' if pol else 't')
                        for t in gcfg.nodes if t.kind == 'test'
                        for a, pol in guard_atoms(t.stmt.test)
                        if a == f'{nm}.readonly')
                    # next(<x for x in self._set if not x.readonly>, None)
                    if not ok and isinstance(rv, ast.Call) and \
                            call_name(rv) == 'next' and len(rv.args) == 2 \
                            and const_value(rv.args[1]) == (True, None):
                        bs_ = built_sequence(g, rv.args[0])
                        ok = bool(bs_) and all(
                            txt(b['elt']) == txt(b['target']) and any(
                                (f"{txt(b['target'])}.readonly", False)
                                in guard_atoms(c) for c in b['ifs'])
                            for b in bs_)
                    if not ok:
                        bad.append(r.lineno)
                R.check(not bad, g, g.node, key,
                        'SelectedSet.any_selected can return a read-only '
                        'selection: an EXAMINE session consumes \\Recent')
            elif isinstance(e, ast.Name) and e.id in f.params():
                nm = e.id
                ok = any(cfg.controlled_by(n, t, 'f' if pol else 't')
                         for t in cfg.nodes if t.kind == 'test'
                         for a, pol in guard_atoms(t.stmt.test)
                         if a == f'{nm}.readonly')
                R.check(ok, f, n.stmt, key,
                        f'the caller\'s own selection `{nm}` is returned '
                        f'without a read-only test: EXAMINE Sent; APPEND '
                        f'Sent gives \\Recent to the EXAMINE session and '
                        f'the next SELECT sees 0 RECENT',
                        'guarded by `not ….readonly`')
            else:
                R.undecided(f, n.stmt, key, 'unrecognised recipient source')


def r176(ctx) -> None:
    R = ctx.rule('R17.6', 'RECENT count sources', 2)
    from .c05 import conn_state
    cs = conn_state(ctx)
    f = cs.own_method('do_select')
    cfg = cfg_of(f)
    found = False
    for c in calls_in(f.node, 'RecentResponse'):
        if not c.args or not isinstance(c.args[0], ast.Name):
            R.undecided(f, c, 'do_select: RECENT argument', 'not a local')
            continue
        nm = c.args[0].id
        for n in cfg.find(lambda n: n.kind == 'stmt' and any(
                is_name(t, nm) for t in targets_of(n.stmt))):
            found = True
            val = txt(n.stmt.value)
            branch = None
            for t in cfg.nodes:
                if t.kind == 'test':
                    for a, pol in guard_atoms(t.stmt.test):
                        if a.endswith('.readonly'):
                            if cfg.controlled_by(n, t, 't'):
                                branch = 'ro' if pol else 'rw'
                            elif cfg.controlled_by(n, t, 'f'):
                                branch = 'rw' if pol else 'ro'
            key = f'do_select: RECENT for {branch or "?"} selection'
            if branch == 'rw':
                R.check('session_flags.recent' in val, f, n.stmt, key,
                        f'read-write SELECT reports {val}: the count must '
                        f'be what this session flags \\Recent')
            elif branch == 'ro':
                R.check('session_flags' not in val and
                        val.endswith('.recent'), f, n.stmt, key,
                        f'read-only SELECT reports {val} instead of the '
                        f'stored count')
            else:
                R.undecided(f, n.stmt, key, 'not under a readonly test')
    if not found:
        raise AnchorError('do_select: RecentResponse argument assignments '
                          'not found')


def r177(ctx) -> None:
    R = ctx.rule('R17.7', 'claimed set is materialised', 1)
    gens = {}
    for f in ctx.proj.all_funcs('pymap/backend/'):
        if not f.is_async and any(isinstance(x, (ast.Yield, ast.YieldFrom))
                                  for x in walk_local(f.node)
                                  if x is not f.node):
            own = any(isinstance(x, (ast.Yield, ast.YieldFrom))
                      for x in _own_nodes(f.node))
            if own:
                gens.setdefault(f.name, []).append(f)
    n = 0
    for rel in (DICT, MAILDIR):
        cls = ctx.proj.cls(rel, 'MailboxData')
        f = cls.own_method('claim_recent')
        if f is None:
            raise AnchorError(f'{rel}: claim_recent vanished')
        for nm in {x.id for x in walk_local(f.node)
                   if isinstance(x, ast.Name)}:
            for st, v in local_assigns(f, nm):
                v = strip_await(v) if v is not None else None
                if not (isinstance(v, ast.Call)
                        and call_name(v) in gens
                        and any(g.rel.startswith(rel.rsplit('/', 1)[0])
                                for g in gens[call_name(v)])):
                    continue
                n += 1
                uses_in = [c for c in walk_local(f.node)
                           if isinstance(c, ast.Compare)
                           and any(isinstance(o, (ast.In, ast.NotIn))
                                   for o in c.ops)
                           and any(is_name(x, nm) for x in c.comparators)]
                R.check(not uses_in, f, st,
                        f'{rel}: `{nm}` from generator {call_name(v)}() is '
                        f'materialised before `in`',
                        f'`{nm}` is a one-shot generator; `x in {nm}` '
                        f'advances it, so records match only in directory '
                        f'order and the renames run lazily outside the '
                        f'lock (6 files in new/: 1 reported \\Recent, all 6 '
                        f'moved to cur/)', 'no membership test on it')
    if n == 0:
        R.ok(None, None, 'no generator result is used unmaterialised in '
             'claim_recent', 'all generator results are wrapped in '
             'list/set/… or absent')


def _own_nodes(fn):
    for n in walk_local(fn):
        yield n


def r178(ctx) -> None:
    R = ctx.rule('R17.8', 'COPY does not carry the source recent mark', 1)
    m = ctx.proj.cls(DICT, 'Message')
    f = m.own_method('copy')
    if f is None:
        raise AnchorError('dict Message.copy vanished')
    good = None
    for c in calls_in(f.node, 'cls'):
        k = kwarg(c, 'recent')
        good = k is not None and is_name(k, 'recent')
        R.check(good, f, c, 'dict Message.copy: recent = the parameter',
                f'the copy is built with recent={txt(k)}: \\Recent of the '
                f'source is carried over by COPY')
    if good is None:
        R.undecided(f, f.node, 'dict Message.copy: recent = the parameter',
                    'constructor call not recognised')
    # maildir sibling: new/ vs cur/ of the copy is decided by `recent` alone
    mc = ctx.proj.cls(MAILDIR, 'MailboxData').own_method('copy')
    cfg = cfg_of(mc)
    sets = cfg.find(lambda n: any(call_name(c) == 'set_subdir'
                                  for c in n.calls()))
    adds = cfg.find(lambda n: any(call_name(c) == 'add'
                                  and 'maildir' in txt(c.func.value)
                                  for c in n.calls()))
    okm = bool(sets) and bool(adds)
    for a in adds:
        if not cfg.dominated_by(a, sets, labels=NORMAL):
            okm = False
    vals = []
    for n in sets:
        for c in n.calls():
            if call_name(c) == 'set_subdir' and c.args:
                vals.append(c.args[0])
    both = any(isinstance(v, ast.IfExp) and guard_atoms(v.test) in (
        [('recent', True)], [('recent', False)]) and
        {const_value(v.body)[1], const_value(v.orelse)[1]} == {'new', 'cur'}
        for v in vals) or {const_value(v)[1] for v in vals} >= {'new',
                                                                'cur'}
    R.check(okm and both, mc, mc.node,
            'maildir copy: the copy goes to new/ or cur/ by `recent` alone, '
            'on every path',
            'the copy\'s subdirectory is not set on every path (or not to '
            'both values): a non-recent copy of a message that still sits '
            'in new/ is written to new/ again, so the next read-write '
            'SELECT claims it — \\Recent is carried over by COPY and '
            'announced to two sessions')


def r179(ctx) -> None:
    R = ctx.rule('R17.9', 'maildir: a message is claimed only by the session '
                 'whose rename succeeded', 1)
    md = ctx.proj.cls(MAILDIR, 'Maildir')
    f = md.own_method('claim_new')
    if f is None:
        raise AnchorError('Maildir.claim_new vanished')
    cfg = cfg_of(f)
    ren = cfg.find(lambda n: any(call_name(c) == 'rename'
                                 for c in n.calls()))
    ys = cfg.find(lambda n: n.kind == 'stmt' and any(
        isinstance(x, (ast.Yield, ast.YieldFrom)) for x in ast.walk(n.stmt)))
    if not ren or not ys:
        raise AnchorError('claim_new: rename / yield not found')
    # a rename whose failure is swallowed by contextlib.suppress
    supp = [w for r in ren for w in enclosing(f.node, r.stmt, (ast.With,))
            if any(isinstance(it.context_expr, ast.Call) and call_name(
                it.context_expr) == 'suppress' for it in w.items)]
    # a yield reachable from the rename's exception edge (through a handler
    # that falls through)
    exc_first = [m for r in ren for m, lab in r.succ
                 if lab in ('x', 'e') and m.kind == 'handler']
    heads = {n for n in cfg.nodes if n.kind in ('for_iter', 'test')
             and isinstance(n.stmt, (ast.For, ast.AsyncFor, ast.While))}
    # stop at the loop head: the next iteration is a different file
    from_fail_iter = cfg.reach(exc_first, avoid=list(heads), labels=NORMAL,
                               include_starts=True) if exc_first else set()
    bad = [y.lineno for y in ys if y in from_fail_iter
           or not cfg.dominated_by(y, ren, labels=NORMAL)]
    R.check(not supp and not bad, f, f.node,
            'claim_new yields a key only after os.rename(new -> cur) '
            'succeeded',
            'a key is yielded although the rename failed (handler falls '
            'through / contextlib.suppress): the rename is the only thing '
            'that makes the claim exclusive across sessions (each '
            'connection has its own MailboxSet and lock), so two racing '
            'read-write SELECTs both announce the same message as \\Recent')


def _cached_instance_methods(tree) -> list:
    out = []
    for c in ast.walk(tree):
        if not isinstance(c, ast.ClassDef):
            continue
        for m in c.body:
            if not isinstance(m, (ast.FunctionDef, ast.AsyncFunctionDef)):
                continue
            decos = [txt(d.func if isinstance(d, ast.Call) else d)
                     .split('.')[-1] for d in m.decorator_list]
            if {'staticmethod', 'classmethod'} & set(decos):
                continue
            if {'lru_cache', 'cache', 'cached'} & set(decos) and \
                    m.args.args and m.args.args[0].arg == 'self':
                out.append((c, m))
    return out


def r1710(ctx) -> None:
    """The set of live selections of a mailbox holds them weakly: a
    connection that goes away takes its selection out of the running for
    \\Recent.  A functools cache on an INSTANCE method keeps `self` (and the
    bound method) in a module-level table for the life of the process, so a
    connection state whose connection ended without CLOSE stays "selected"
    for ever and is handed the \\Recent of every later delivery."""
    R = ctx.rule('R17.10', 'no process-lifetime cache holds connection or '
                 'session objects', 1)
    n = 0
    for mod in ctx.proj.modules.values():
        if not mod.rel.startswith('pymap/') or mod.rel.startswith((
                'pymap/admin/', 'pymap/backend/redis/')):
            continue
        n += 1
        for c, m in _cached_instance_methods(mod.tree):
            f = ctx.proj.try_func(mod.rel, f'{c.name}.{m.name}')
            R.fail(f, m, f'{c.name}.{m.name}: functools cache on an '
                   f'instance method',
                   f'`{c.name}.{m.name}` is cached with `self` as part of '
                   f'the key: every {c.name} ever created stays reachable '
                   f'from the cache.  For ConnectionState that keeps its '
                   f'`_selected` in the mailbox\'s weak SelectedSet after '
                   f'the connection is gone: A SELECTs and disconnects, B '
                   f'APPENDs, C SELECTs and is told 0 RECENT — the message '
                   f'was given to A\'s dead selection')
    R.ok(None, None, f'{n} modules scanned',
         'no functools cache on an instance method')
    import os
    from ..report import VERIF
    tree = ast.parse(open(os.path.join(VERIF, 'fixtures',
                                       'r1710_positive.py')).read())
    hits = len(_cached_instance_methods(tree))
    R.check(hits == 2, None, None, 'positive fixture still matches',
            f'fixtures/r1710_positive.py: {hits} hit(s), expected 2')


def _drops_recent(e) -> bool:
    """`<flags> - {Recent}` or `<permanent flags> & <flags>` somewhere in e."""
    for x in ast.walk(e):
        if isinstance(x, ast.BinOp) and isinstance(x.op, ast.Sub) and any(
                isinstance(y, ast.Name) and y.id == 'Recent'
                for y in ast.walk(x.right)):
            return True
        if isinstance(x, ast.BinOp) and isinstance(x.op, ast.BitAnd) and \
                'permanent_flags' in txt(x):
            return True
    return False


def r1711(ctx) -> None:
    """`\\Recent` in an APPEND flag list is lexically a flag-extension, so it
    parses.  Whatever flag set the client chose reaches the backend's store
    only with \\Recent taken out (STORE intersects with the permanent flags;
    APPEND has to do the same or subtract it)."""
    R = ctx.rule('R17.11', 'a client-chosen flag set is stored only without '
                 '\\Recent', 1)
    bs = ctx.proj.cls(SESS, 'BaseSession')
    f = bs.own_method('append_messages')
    if f is None:
        raise AnchorError('BaseSession.append_messages vanished')
    apps = [c for c in calls_in(f.node, 'append')
            if isinstance(c.func.value, ast.Name) and c.args and any(
                isinstance(strip_await(v), ast.Call) and call_name(
                    strip_await(v)) in ('_get_mailbox', 'get_mailbox')
                for _, v in local_assigns(f, c.func.value.id)
                if v is not None)]
    if not apps:
        raise AnchorError('append_messages: backend append call not found')
    for c in apps:
        ok = False
        a = c.args[0]
        vals = [a]
        if isinstance(a, ast.Name):
            vals = [v for _, v in local_assigns(f, a.id) if v is not None]
        for v in vals:
            if isinstance(v, ast.Call) and call_name(v) in (
                    'replace', '_replace', 'AppendMessage'):
                kw = kwarg(v, 'flag_set')
                if kw is not None and _drops_recent(kw):
                    ok = True
        if not ok:
            # or already where the command is parsed
            pc = ctx.proj.try_func('pymap/parsing/command/auth.py',
                                   'AppendCommand._parse_msg') or \
                ctx.proj.try_func('pymap/parsing/command/auth.py',
                                  'AppendCommand.parse')
            if pc is not None:
                for s_ in walk_local(pc.node):
                    if isinstance(s_, ast.Assign) and any(
                            isinstance(t, ast.Name) and t.id == 'flags'
                            for t in s_.targets) and _drops_recent(s_.value):
                        ok = True
        R.check(ok, f, c, 'append_messages: the flag set handed to the '
                'backend has \\Recent removed',
                f'`{txt(c)[:60]}` passes the client\'s flag set on as '
                f'parsed: `APPEND Sent (\\Recent \\Seen) {{n}}` stores '
                f'\\Recent as a permanent flag, and every later session '
                f'gets `FLAGS (\\Recent \\Seen)` for that message while '
                f'`* 0 RECENT` says there is none')

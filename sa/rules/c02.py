"""C02 — cross-session convergence: structural necessary conditions
R2.1-R2.6."""
from __future__ import annotations

import ast

from ..cfg import NORMAL, ALL, walk_local
from ..facts import (built_sequence, runs_only_when, cfg_of, call_name, calls_in, bind_args, targets_of,
                     local_assigns, resolve_local, guard_atoms, is_attr,
                     is_name, strip_await, names_in, enclosing)
from ..loader import txt, AnchorError
from ..suspend import SuspModel

DICT = 'pymap/backend/dict/mailbox.py'
MAILDIR = 'pymap/backend/maildir/mailbox.py'
SEL = 'pymap/selected.py'
SESS = 'pymap/backend/session.py'

INSERT_CALLS = {'setdefault', 'update', '__setitem__'}
REMOVE_CALLS = {'pop', 'popitem', 'clear', '__delitem__'}


def dict_mailbox(ctx):
    """Role: the class in the dict backend holding _messages and a change
    log (_mod_sequences)."""
    m = ctx.proj.module(DICT)
    for c in m.classes.values():
        init = c.own_method('__init__')
        if init is None:
            continue
        names = {t.attr for s in walk_local(init.node) for t in targets_of(s)
                 if isinstance(t, ast.Attribute)}
        if {'_messages', '_mod_sequences', '_updated'} <= names:
            return c
    raise AnchorError('dict mailbox class with _messages/_mod_sequences/'
                      '_updated not found')


def mutation_sites(cfg):
    """(node, receiver text, kind, what) for every statement changing stored
    message state."""
    out = []
    for n in cfg.stmt_nodes():
        s = n.stmt
        if n.kind == 'stmt':
            for t in targets_of(s):
                if isinstance(t, ast.Subscript) and \
                        is_attr(t.value, '_messages'):
                    kind = 'expunge' if isinstance(s, ast.Delete) \
                        else 'update'
                    out.append((n, txt(t.value.value), kind, txt(t)))
                if isinstance(t, ast.Attribute) and \
                        t.attr in ('permanent_flags', 'recent',
                                   '_permanent_flags', '_recent') and \
                        not is_name(t.value, 'self') and \
                        not isinstance(s, (ast.For, ast.AsyncFor)):
                    out.append((n, 'self', 'update', txt(t)))
        for c in n.calls():
            if isinstance(c.func, ast.Attribute) and \
                    is_attr(c.func.value, '_messages'):
                r = txt(c.func.value.value)
                if c.func.attr in REMOVE_CALLS:
                    out.append((n, r, 'expunge', txt(c.func)))
                elif c.func.attr in INSERT_CALLS:
                    out.append((n, r, 'update', txt(c.func)))
    return out


def helper_effects(cls, name: str, depth: int = 2) -> set[str]:
    """Effects ('_mod_sequences.update', '_mod_sequences.expunge',
    '_updated.set') a same-class helper performs on EVERY normal path."""
    f = cls.find_method(name)
    if f is None or depth == 0:
        return set()
    cfg = cfg_of(f)
    out = set()
    for eff in ('_mod_sequences.update', '_mod_sequences.expunge',
                '_updated.set'):
        nodes = cfg.find(lambda n: any(txt(c.func) == f'self.{eff}'
                                       for c in n.calls()))
        for n in cfg.stmt_nodes():
            for c in n.calls():
                if isinstance(c.func, ast.Attribute) and \
                        is_name(c.func.value, 'self') and \
                        eff in helper_effects(cls, c.func.attr, depth - 1) \
                        and c.func.attr != name:
                    nodes.append(n)
        if nodes and cfg.exit not in cfg.reach([cfg.entry], avoid=nodes,
                                               labels=NORMAL):
            out.add(eff)
    return out


def effect_nodes(cfg, cls, recv: str, eff: str):
    def hit(n):
        for c in n.calls():
            if txt(c.func) == f'{recv}.{eff}':
                return True
            if isinstance(c.func, ast.Attribute) and \
                    txt(c.func.value) == recv and \
                    eff in helper_effects(cls, c.func.attr):
                return True
        return False
    return cfg.find(hit)


def expunged_true_edges(cfg):
    """Branch edges on which some ``X.expunged`` is known true: a flag store
    on an expunged *copy* carries no log obligation there."""
    out = []
    for t in cfg.nodes:
        if t.kind == 'test':
            atoms = guard_atoms(t.stmt.test)
            if len(atoms) == 1 and atoms[0][0].endswith('.expunged'):
                out.append((t, 't' if atoms[0][1] else 'f'))
    return out


def check(ctx) -> None:
    ctx.explanation = (
        'Static decision of structural necessary conditions of C02: every '
        'statement of the dict mailbox that changes stored message state is '
        'followed on every normal path by a change-log entry of the matching '
        'kind and a wake-up on the same receiver; a change-log update is '
        'never written for a UID that may already be expunged (it would '
        'erase the expunge record); the consume step (read position, store '
        'new position, merge) contains no real suspension point; every '
        'session-layer command path returns a selection that went through '
        'update_selected; the merge applies insertions and removals; the '
        'maildir merge diffs the complete listing.')
    ctx.not_decided = ('convergence over all histories; the arithmetic of '
                       'the change log (bisect, ordering).')
    cls = dict_mailbox(ctx)
    r21(ctx, cls)
    r22(ctx, cls)
    r23(ctx, cls)
    r24(ctx)
    r25(ctx)
    r26(ctx)
    r27(ctx)
    r28(ctx)
    r29(ctx)
    r210(ctx)


def nothing_removed_edges(cfg, n):
    """`x = D.pop(k, None)`: on the branch where `x is None` nothing was
    removed, so there is nothing to log there."""
    s = n.stmt
    if not (isinstance(s, ast.Assign) and len(s.targets) == 1
            and isinstance(s.targets[0], ast.Name)
            and isinstance(s.value, ast.Call) and call_name(s.value) == 'pop'
            and len(s.value.args) == 2
            and isinstance(s.value.args[1], ast.Constant)
            and s.value.args[1].value is None):
        return []
    x = s.targets[0].id
    out = []
    for t in cfg.nodes:
        if t.kind == 'test':
            atoms = guard_atoms(t.stmt.test)
            # guard_atoms writes `x is None` as (x, False)
            if len(atoms) == 1 and atoms[0][0] == x:
                out.append((t, 'f' if atoms[0][1] else 't'))
    return out


def r21(ctx, cls) -> None:
    R = ctx.rule('R2.1', 'mutate => log => notify', 10)
    for fs in cls.methods.values():
        for f in fs:
            if f.name == '__init__':
                continue
            cfg = cfg_of(f)
            skip = expunged_true_edges(cfg)
            for n, recv, kind, what in mutation_sites(cfg):
                for eff in (f'_mod_sequences.{kind}', '_updated.set'):
                    tg = effect_nodes(cfg, cls, recv, eff)
                    sk = list(skip if what.endswith('permanent_flags')
                              else ()) + nothing_removed_edges(cfg, n)
                    ok = bool(tg) and cfg.always_followed_by(
                        n, tg, labels=NORMAL, skip_edges=sk)
                    R.check(ok, f, n.stmt,
                            f'{f.qualname}: {what} => {recv}.{eff}',
                            f'after `{txt(n.stmt)[:60]}` some normal path '
                            f'reaches the end of {f.qualname} without '
                            f'{recv}.{eff}(): other sessions ' +
                            ('never learn of the change' if 'mod_seq' in eff
                             else 'idling on this mailbox are not woken'),
                            'post-dominates on normal paths')


def r22(ctx, cls) -> None:
    R = ctx.rule('R2.2', 'an expunge record is final', 3)
    m = ctx.proj.module(DICT)
    # premise: logging an update erases the UID's previous expunge record
    msm = None
    for c in m.classes.values():
        if c.own_method('find_updated') and c.own_method('expunge'):
            msm = c
    if msm is None:
        raise AnchorError('change-log class (find_updated/expunge) not found')
    erases = False
    for fs in msm.methods.values():
        for f in fs:
            for c in calls_in(f.node):
                if any(is_attr(a, '_expunges') for a in c.args) and \
                        call_name(c) != 'expunge' and 'remove' in call_name(c):
                    erases = True
            for s in walk_local(f.node):
                if isinstance(s, ast.Delete) and '_expunges' in txt(s):
                    erases = True
    if not erases:
        R.ok(None, None, 'premise: update erases a prior expunge record',
             'premise no longer holds; R2.2 is vacuous on this tree')
        ctx.notes.append('R2.2 premise (update erases expunge record) does '
                         'not hold; rule vacuous')
        R.minimum = 1
        return
    for fs in cls.methods.values():
        for f in fs:
            cfg = cfg_of(f)
            for n in cfg.stmt_nodes():
                for c in n.calls():
                    if not (call_name(c) == 'update'
                            and isinstance(c.func, ast.Attribute)
                            and is_attr(c.func.value, '_mod_sequences')):
                        continue
                    recv = txt(c.func.value.value)
                    arg = c.args[0] if c.args else None
                    key = f'{f.qualname}: {recv}._mod_sequences.update(' \
                          f'{txt(arg)}) — UID known present'
                    ok, why = _known_present(f, cfg, n, recv, arg, cls)
                    R.check(ok, f, c, key,
                            f'{why}: the UID may already be expunged; '
                            f'logging an update then erases its expunge '
                            f'record, so sessions that have not yet seen the '
                            f'expunge are never told (history: A and B '
                            f'select; A expunges uid; B stores a flag on '
                            f'uid; A2 NOOP never reports the expunge)', why)


def _known_present(f, cfg, n, recv, arg, cls=None, depth=2):
    if arg is None:
        return False, 'no argument'
    elems: list[ast.AST] = []
    for v in resolve_local(f, arg):
        if isinstance(v, (ast.List, ast.Tuple, ast.Set)) and v.elts:
            elems += v.elts
        elif isinstance(arg, ast.Name):
            elems.append(arg)
        else:
            elems.append(v)
    reasons = []
    for e in elems:
        if isinstance(e, ast.Name):
            nm = e.id
            # (a) inserted into recv._messages in this function, dominating
            ins = cfg.find(lambda x: x.kind == 'stmt' and any(
                isinstance(t, ast.Subscript) and
                txt(t.value) == f'{recv}._messages' and txt(t.slice) == nm
                for t in targets_of(x.stmt)))
            if ins and cfg.dominated_by(n, ins, labels=NORMAL):
                reasons.append('inserted in the same critical section')
                continue
            # (b) a list filled from iteration over the stored messages
            defs = local_assigns(f, nm)
            if any(isinstance(v, ast.List) for _, v in defs):
                apps = [c for c in calls_in(f.node, 'append')
                        if is_name(c.func.value, nm)]
                good = bool(apps)
                for a in apps:
                    loops = enclosing(f.node, a, (ast.For, ast.AsyncFor))
                    if not loops or not any(
                            '_messages' in txt(lp.iter)
                            or 'messages()' in txt(lp.iter)
                            for lp in loops):
                        good = False
                if good:
                    reasons.append('collected while iterating the stored '
                                   'messages')
                    continue
            # (c) dominated by a presence test
            tests = []
            for t in cfg.nodes:
                if t.kind != 'test':
                    continue
                for a, pol in guard_atoms(t.stmt.test):
                    if a.endswith('.expunged') and \
                            cfg.controlled_by(n, t, 'f' if pol else 't'):
                        tests.append(t)
                    if a == f'{nm} in {recv}._messages' and \
                            cfg.controlled_by(n, t, 't' if pol else 'f'):
                        tests.append(t)
                    if a == f'{nm} not in {recv}._messages' and \
                            cfg.controlled_by(n, t, 'f' if pol else 't'):
                        tests.append(t)
            if tests:
                reasons.append('guarded by a presence test')
                continue
            # (d) a helper parameter: the obligation moves to the callers
            if cls is not None and depth and nm in f.params() and \
                    recv == 'self':
                sites = []
                for gs in cls.methods.values():
                    for g in gs:
                        gcfg = cfg_of(g)
                        for gn in gcfg.stmt_nodes():
                            for c in gn.calls():
                                if call_name(c) == f.name and \
                                        isinstance(c.func, ast.Attribute) and \
                                        is_name(c.func.value, 'self'):
                                    sites.append((g, gcfg, gn, c))
                if sites:
                    allok = True
                    for g, gcfg, gn, c in sites:
                        a = bind_args(f, c).get(nm)
                        ok2, _ = _known_present(g, gcfg, gn, 'self', a, cls,
                                                depth - 1)
                        allok = allok and ok2
                    if allok:
                        reasons.append('helper parameter, present at every '
                                       'call site')
                        continue
            return False, f'`{nm}` is not known to be present in ' \
                          f'{recv}._messages at this point'
        else:
            return False, f'unrecognised element {txt(e)}'
    return True, '; '.join(sorted(set(reasons))) or 'empty'


def r23(ctx, cls) -> None:
    R = ctx.rule('R2.3', 'atomic consume of the change log', 1)
    f = cls.own_method('update_selected')
    if f is None:
        raise AnchorError('dict update_selected vanished')
    cfg = cfg_of(f)
    model = SuspModel(ctx.proj, [DICT])
    real = model.real_nodes(f, cfg)
    # the consuming read: the old position is copied into a local (it is the
    # argument of find_updated); a freshness test before a wait is not it
    reads = cfg.find(lambda n: n.kind == 'stmt' and isinstance(
        n.stmt, (ast.Assign, ast.AnnAssign)) and \
        n.stmt.value is not None and any(
        isinstance(x, ast.Attribute) and x.attr in ('mod_sequence',
                                                    '_mod_sequence')
        and isinstance(x.ctx, ast.Load)
        for x in ast.walk(n.stmt.value)) and all(
        isinstance(t, ast.Name) for t in targets_of(n.stmt)))
    merges = cfg.find(lambda n: any(call_name(c) in ('add_updates',
                                                     'set_messages')
                                    for c in n.calls()))
    if not reads or not merges:
        raise AnchorError('update_selected: position read or merge call not '
                          'found')
    mid = cfg.between(reads, merges) | set(merges)
    bad = sorted(n.lineno for n in mid if n in real and n not in reads)
    # a merge statement that itself awaits something real
    R.check(not bad, f, f.node,
            'update_selected: no real suspension between reading the '
            'position and merging',
            f'real suspension point(s) at line(s) {bad} inside the consume '
            f'window: a change logged while the task is suspended there has '
            f'a sequence <= the stored position and is skipped forever',
            f'window nodes={len(mid)}, real suspension points=0 '
            f'({model.describe()})')


def r24(ctx) -> None:
    R = ctx.rule('R2.4', 'every command path merges updates', 14)
    bs = ctx.proj.cls(SESS, 'BaseSession')
    for fs in bs.methods.values():
        for f in fs:
            ret = txt(f.node.returns) if f.node.returns else ''
            if 'SelectedMailbox' not in ret or f.name.startswith('_'):
                continue
            bad = []
            nret = 0
            for r in walk_local(f.node):
                if isinstance(r, ast.Return) and r.value is not None:
                    nret += 1
                    v = r.value
                    last = v.elts[-1] if isinstance(v, ast.Tuple) else v
                    if not _from_merge(f, last):
                        bad.append(r.lineno)
            R.check(not bad and nret > 0, f, f.node,
                    f'{f.qualname}: returned selection flows from '
                    f'update_selected',
                    f'return at line(s) {bad} hands back a selection that '
                    f'did not go through update_selected/_load_updates: the '
                    f'changes of other sessions are not merged after this '
                    f'command', f'{nret} return(s), all merged')
    lu = bs.own_method('_load_updates')
    if lu is None:
        raise AnchorError('BaseSession._load_updates vanished')
    cfg = cfg_of(lu)
    merges = cfg.find(lambda n: any(call_name(c) == 'update_selected'
                                    for c in n.calls()))
    # every normal exit either passes update_selected, or is on a branch
    # where `selected` is falsy / was marked deleted
    exits_without = []
    for n in cfg.find(lambda n: isinstance(n.stmt, ast.Return)):
        if n in merges:
            continue
        if cfg.dominated_by(n, merges, labels=NORMAL):
            continue
        deleted = cfg.find(lambda x: any(call_name(c) == 'set_deleted'
                                         for c in x.calls()))
        if deleted and cfg.dominated_by(n, deleted, labels=ALL):
            continue
        if runs_only_when(cfg, n, 'selected', False):
            continue
        exits_without.append(n.lineno)
    R.check(bool(merges) and not exits_without, lu, lu.node,
            '_load_updates reaches update_selected unless no selection / '
            'deleted', f'return(s) at {exits_without} skip update_selected '
            f'although a live selection exists')


def _from_merge(f, e) -> bool:
    for v in resolve_local(f, e):
        v = strip_await(v)
        if isinstance(v, ast.Call) and call_name(v) in ('update_selected',
                                                        '_load_updates'):
            return True
    return False


def r25(ctx) -> None:
    R = ctx.rule('R2.5', 'merge applies both halves', 2)
    sm = ctx.proj.cls(SEL, 'SelectedMailbox')
    au = sm.own_method('add_updates')
    setm = sm.own_method('set_messages')
    if au is None or setm is None:
        raise AnchorError('add_updates/set_messages vanished')
    synced = ctx.proj.cls(SEL, 'SynchronizedMessages')
    cfg = cfg_of(au)
    params = au.params()
    msgs_p, exp_p = params[1], params[2]
    ins = cfg.find(lambda n: any(
        any(is_name(a, msgs_p) for a in c.args) and
        synced.find_method(call_name(c)) is not None for c in n.calls()))
    rem = cfg.find(lambda n: any(
        any(is_name(a, exp_p) for a in c.args) and
        synced.find_method(call_name(c)) is not None for c in n.calls()))
    for what, nodes in (('insertions/updates', ins), ('removals', rem)):
        ok = bool(nodes) and cfg.exit not in cfg.reach(
            [cfg.entry], avoid=nodes, labels=NORMAL)
        R.check(ok, au, au.node, f'add_updates applies {what}',
                f'add_updates has a normal path that does not apply the '
                f'{what} to the synchronized view')
    # set_messages: expunged = known - listed
    good = False
    for c in calls_in(setm.node, 'add_updates'):
        if len(c.args) >= 2:
            for v in resolve_local(setm, c.args[1]):
                if isinstance(v, ast.BinOp) and isinstance(v.op, ast.Sub) \
                        and '_uids' in txt(v.left):
                    rs = resolve_local(setm, v.right)
                    if any(isinstance(x, (ast.SetComp, ast.Call))
                           and '.uid' in txt(x) for x in rs):
                        good = True
    R.check(good, setm, setm.node,
            'set_messages: expunged = known UIDs - listed UIDs',
            'set_messages does not pass (known - listed) as the expunged '
            'set: a message removed by another session is never reported '
            'on backends that diff the full listing')


def r26(ctx) -> None:
    R = ctx.rule('R2.6', 'maildir merge diffs the full listing', 1)
    if not ctx.proj.has_module(MAILDIR):
        raise AnchorError('maildir mailbox module vanished')
    cls = ctx.proj.cls(MAILDIR, 'MailboxData')
    f = cls.own_method('update_selected')
    if f is None:
        raise AnchorError('maildir update_selected vanished')
    ok = False
    why = 'set_messages is not called'
    for c in calls_in(f.node, 'set_messages'):
        why = 'argument is not the unfiltered self.messages() listing'
        bs = built_sequence(f, c.args[0]) if c.args else None
        if bs and all(not b['ifs'] and txt(b['iter']) == 'self.messages()'
                      and txt(b['elt']) == txt(b['target']) for b in bs):
            # a `continue` in the loop body would filter as well
            if not any(isinstance(x, (ast.Continue, ast.Break))
                       for b in bs if 'loop' in b
                       for x in ast.walk(b['loop'])):
                ok = True
    R.check(ok, f, f.node, 'update_selected passes the complete listing',
            f'{why}: set_messages treats every UID missing from its '
            f'argument as expunged')


def r27(ctx) -> None:
    R = ctx.rule('R2.7', 'flag-key index mirrors the per-UID map', 3)
    sm = ctx.proj.cls(SEL, 'SynchronizedMessages')
    n = 0
    for fs in sm.methods.values():
        for f in fs:
            if f.name == '__init__':
                continue
            # names bound from a READ of the map (the value being replaced)
            old_names = set()
            for nm in {x.id for x in walk_local(f.node)
                       if isinstance(x, ast.Name)}:
                for _, v in local_assigns(f, nm):
                    if v is None:
                        continue
                    t = txt(v)
                    if t.startswith('self._flags_key_map.get(') or \
                            t.startswith('self._flags_key_map[') or \
                            t.startswith('self._flags_key_map.pop('):
                        old_names.add(nm)
            for c in calls_in(f.node):
                if not (isinstance(c.func, ast.Attribute)
                        and is_attr(c.func.value, '_flags_key_set', 'self')
                        and c.args):
                    continue
                arg = txt(c.args[0])
                if c.func.attr in ('discard', 'remove'):
                    n += 1
                    R.check(arg in old_names or arg.startswith(
                        'self._flags_key_map'), f, c,
                            f'{f.qualname}: {c.func.attr}({arg}) removes the '
                            f'key previously stored in the map',
                            f'`{arg}` is not the value read from '
                            f'_flags_key_map for this UID: the stale '
                            f'(uid, flags) key stays in the index, so a '
                            f'change BACK to an earlier flag combination is '
                            f'never reported (B +FLAGS x; A NOOP; B -FLAGS '
                            f'x; A NOOP gets nothing)')
                elif c.func.attr == 'add':
                    n += 1
                    stored = [s_ for s_ in walk_local(f.node)
                              if isinstance(s_, ast.Assign) and any(
                                  isinstance(t, ast.Subscript)
                                  and is_attr(t.value, '_flags_key_map',
                                              'self') for t in s_.targets)
                              and txt(s_.value) == arg]
                    R.check(bool(stored), f, c,
                            f'{f.qualname}: add({arg}) mirrors a store into '
                            f'the map',
                            f'`{arg}` is added to the index but is not what '
                            f'is stored in _flags_key_map')
            # a function that REPLACES a map entry also takes the replaced
            # key out of the index
            stores = [s_ for s_ in walk_local(f.node)
                      if isinstance(s_, ast.Assign) and any(
                          isinstance(t, ast.Subscript)
                          and is_attr(t.value, '_flags_key_map', 'self')
                          for t in s_.targets)]
            if stores:
                n += 1
                drops = [c for c in calls_in(f.node)
                         if isinstance(c.func, ast.Attribute)
                         and is_attr(c.func.value, '_flags_key_set', 'self')
                         and c.func.attr in ('discard', 'remove') and c.args
                         and (txt(c.args[0]) in old_names or txt(
                             c.args[0]).startswith('self._flags_key_map'))]
                R.check(bool(drops), f, stores[0],
                        f'{f.qualname}: replacing a map entry discards the '
                        f'replaced key from the index',
                        f'`{txt(stores[0])[:50]}` overwrites the (uid, '
                        f'flags) key of a message but nothing in '
                        f'{f.qualname} removes the old key from '
                        f'_flags_key_set: stale keys pile up in the set '
                        f'that _compare diffs, so a change BACK to a flag '
                        f'combination this session has already seen gives '
                        f'an empty difference and is never reported')
    if n == 0:
        R.fail(None, None, 'flag-key index is maintained',
               'no discard/add on _flags_key_set found')


def r28(ctx) -> None:
    R = ctx.rule('R2.8', 'the diff machinery works on snapshots, never on '
                 'the live message objects', 2)
    SEL_ = 'pymap/selected.py'
    sm = ctx.proj.cls(SEL_, 'SelectedMailbox')
    f = sm.own_method('silence')
    if f is None:
        raise AnchorError('SelectedMailbox.silence vanished')
    # what silence() takes as "the flags before my change"
    n = 0
    for c in calls_in(f.node, 'apply'):
        if not c.args:
            continue
        olds = resolve_local(f, c.args[0])
        srcs = ' '.join(txt(v) for v in olds)
        if 'session_flags' in srcs or 'sflags' in txt(c.args[0]):
            continue                      # session flags are per session
        n += 1
        live = [txt(v) for v in olds if isinstance(v, ast.Attribute)
                and v.attr == 'permanent_flags'
                and not is_name(v.value, 'self')]
        # tuple-unpacked from the snapshot map: `_, x = flags_key_map[uid]`
        snap = '_flags_key_map' in srcs or any(
            isinstance(s_, ast.Assign) and isinstance(s_.targets[0],
                                                      ast.Tuple)
            and any(txt(e) == txt(c.args[0]) for e in s_.targets[0].elts)
            and any('_flags_key_map' in txt(v2)
                    for v2 in resolve_local(f, s_.value.value
                                            if isinstance(s_.value,
                                                          ast.Subscript)
                                            else s_.value))
            for s_ in walk_local(f.node))
        R.check(snap and not live, f, c,
                'silence(): the flags before the change are the ones last '
                'synchronised with the client',
                f'silence() starts from {live or srcs}: on the dict backend '
                f'the cached message is the live object shared by every '
                f'session, so a flag another session has just set is folded '
                f'into the silenced value — STORE 1 +FLAGS.SILENT '
                f'(\\Deleted) right after another session\'s +FLAGS '
                f'(\\Flagged) silences that change too and this session is '
                f'never told about \\Flagged')
    if n == 0:
        raise AnchorError('silence(): permanent-flag apply() not found')
    # no other live read in the diff machinery
    fz = ctx.proj.module(SEL_).classes.get('_Frozen')
    cmp_ = sm.own_method('_compare')
    reads = 0
    for g in [m for m in (cmp_, fz.own_method('__init__') if fz else None)
              if m is not None]:
        for x in walk_local(g.node):
            if isinstance(x, ast.Attribute) and x.attr in (
                    'permanent_flags', 'flags_key') and \
                    not is_name(x.value, 'self'):
                reads += 1
                R.fail(g, x, f'{g.qualname}: live read `{txt(x)}`',
                       'before/after comparison reads a live message object')
    R.ok(cmp_, cmp_.node, '_compare/_Frozen read only copied sets',
         f'{reads} live flag read(s)')


def r29(ctx) -> None:
    R = ctx.rule('R2.9', 'records of the change log / UID list are dropped '
                 'only when really empty / absent', 2)
    # (a) dict: a mod-sequence bucket leaves the log only when its UID set
    #     became empty
    m = ctx.proj.module('pymap/backend/dict/mailbox.py')
    msm = m.classes.get('_ModSequenceMapping')
    if msm is None:
        raise AnchorError('_ModSequenceMapping vanished')
    n = 0
    for fs in msm.methods.values():
        for f in fs:
            cfg = cfg_of(f)
            for nd in cfg.stmt_nodes():
                dels = []
                if isinstance(nd.stmt, ast.Delete):
                    for t in nd.stmt.targets:
                        if isinstance(t, ast.Subscript):
                            dels.append((txt(t.value), txt(t.slice), nd.stmt))
                for c in nd.calls():
                    if call_name(c) in ('pop', 'popitem') and isinstance(
                            c.func, ast.Attribute) and c.args:
                        dels.append((txt(c.func.value), txt(c.args[0]), c))
                for mp, key, site in dels:
                    if mp not in ('data', 'self._updates', 'self._expunges',
                                  'updates', 'expunges'):
                        continue
                    n += 1
                    ok = False
                    for t in cfg.nodes:
                        if t.kind != 'test':
                            continue
                        at = guard_atoms(t.stmt.test)
                        if len(at) != 1 or at[0][1]:
                            continue
                        if not cfg.controlled_by(nd, t, 't'):
                            continue
                        for _, v in local_assigns(f, at[0][0]):
                            if isinstance(v, ast.Call) and call_name(v) in (
                                    'get',) and txt(v.func.value) == mp and \
                                    v.args and txt(v.args[0]) == key:
                                ok = True
                    R.check(ok, f, site, f'{f.qualname}: `{txt(site)[:40]}` '
                            f'only when the bucket is empty',
                            f'the bucket {mp}[{key}] is removed from the '
                            f'change log without testing that its UID set '
                            f'became empty: one EXPUNGE of several messages '
                            f'(or the claim_recent batch) is ONE bucket; '
                            f're-modifying one of its UIDs drops the record '
                            f'of all the others, and sessions that have not '
                            f'polled yet never learn of them (stuck '
                            f'message, no NOOP repairs it)')
    if n == 0:
        raise AnchorError('_ModSequenceMapping: no bucket removal found')
    # (b) maildir housekeeping: a UID record is dropped only when the file is
    #     ABSENT -- an empty info string ('' = no ":2," suffix) is a live file
    md = ctx.proj.cls('pymap/backend/maildir/mailbox.py', 'MailboxData')
    f = md.own_method('cleanup')
    if f is None:
        raise AnchorError('maildir cleanup vanished')
    cfg = cfg_of(f)
    rem = cfg.find(lambda x: any(call_name(c) == 'remove'
                                 and 'uidl' in txt(c.func.value)
                                 for c in x.calls()))
    if not rem:
        raise AnchorError('maildir cleanup: uidl.remove() not found')
    for r in rem:
        ok = False
        for t in cfg.nodes:
            if t.kind != 'test':
                continue
            e = t.stmt.test
            lab = None
            if isinstance(e, ast.Compare) and len(e.ops) == 1 and isinstance(
                    e.comparators[0], ast.Constant) and \
                    e.comparators[0].value is None:
                lab = 't' if isinstance(e.ops[0], ast.Is) else (
                    'f' if isinstance(e.ops[0], ast.IsNot) else None)
            elif isinstance(e, ast.Compare) and len(e.ops) == 1 and \
                    isinstance(e.ops[0], (ast.NotIn, ast.In)):
                lab = 't' if isinstance(e.ops[0], ast.NotIn) else 'f'
            if lab and cfg.controlled_by(r, t, lab):
                ok = True
        R.check(ok, f, r.stmt, 'maildir cleanup: a record is removed only '
                'when its file is absent (`is None` / `not in`)',
                'the UID record is dropped on a truth test of the info '
                'string: a file delivered by an MDA into new/ has no '
                '":2,<flags>" suffix, its info is \'\' (falsy) although the '
                'file exists — every CHECK reports * n EXPUNGE for a message '
                'that still exists and reset() re-adds it under a new UID')


DROPPING = {'clear', 'discard', 'remove', 'pop', 'difference_update',
            'intersection_update', 'symmetric_difference_update'}


def r210(ctx) -> None:
    """The set of deferred removals (expunges of other sessions that were
    seen while a sequence-number command ran) is state ACROSS commands: the
    session's position in the change log has already moved past those expunge
    records, so an entry that is dropped without being applied is never
    delivered again.  Every statement that can drop an entry is therefore
    (a) in the class that owns the field and (b) dominated by the loop that
    applies the entries."""
    R = ctx.rule('R2.10', 'deferred removals are dropped only by applying '
                 'them', 1)
    fld = '_pending_remove'
    synced = ctx.proj.cls(SEL, 'SynchronizedMessages')
    init = synced.own_method('__init__')
    if init is None or not any(
            is_attr(t, fld, 'self') for st in walk_local(init.node)
            for t in targets_of(st)):
        raise AnchorError(f'SynchronizedMessages.__init__ does not create '
                          f'{fld}: the deferral moved, re-audit R2.10')
    seen = 0
    for f in ctx.proj.all_funcs('pymap/'):
        if f is init:
            continue
        uses = [n for n in walk_local(f.node)
                if isinstance(n, ast.Attribute) and n.attr == fld]
        if not uses:
            continue
        cfg = cfg_of(f)
        drops = []
        for n in cfg.stmt_nodes():
            st = n.stmt
            for c in n.calls():
                if isinstance(c.func, ast.Attribute) and \
                        is_attr(c.func.value, fld) and \
                        c.func.attr in DROPPING:
                    drops.append((n, txt(c)))
            for t in targets_of(st) if n.kind == 'stmt' else []:
                if is_attr(t, fld):
                    drops.append((n, txt(st)))
            if isinstance(st, ast.Delete) and any(
                    fld in txt(t) for t in st.targets):
                drops.append((n, txt(st)))
        own = f.cls is synced
        appliers = [h for h in cfg.nodes if h.kind == 'for_iter'
                    and any(is_attr(a, fld) for a in ast.walk(h.stmt.iter))]
        for n, what in drops:
            seen += 1
            key = f'{f.qualname}: {what[:60]}'
            if not own:
                R.fail(f, n.stmt, key,
                       f'`{what}` drops deferred removals from outside '
                       f'SynchronizedMessages: the set holds expunges of '
                       f'OTHER sessions that were postponed while a '
                       f'sequence-number command ran; the session\'s '
                       f'mod-sequence is already past them, so once dropped '
                       f'they are never reported (* n EXPUNGE never sent, a '
                       f'phantom message stays in this session\'s view)')
                continue
            R.check(bool(appliers) and cfg.dominated_by(n, appliers), f,
                    n.stmt, key,
                    f'`{what}` can run without the loop that applies the '
                    f'deferred removals having run: the postponed expunges '
                    f'are forgotten instead of delivered',
                    'dominated by the loop over the deferred set')
    if seen == 0:
        R.undecided(synced.own_method('_remove') or init, init.node,
                    'deferred set is drained somewhere',
                    f'no statement drops entries of {fld}')

"""C12 — a read-only selection changes nothing: R12.1-R12.5."""
from __future__ import annotations

import ast

from ..cfg import NORMAL, ALL, walk_local
from ..facts import (runs_only_when, const_value, cfg_of, call_name, calls_in, bind_args, targets_of,
                     writers_of, local_assigns, resolve_local, guard_atoms,
                     is_attr, is_name, strip_await, attr_chain)
from ..loader import txt, AnchorError

SESS = 'pymap/backend/session.py'
SEL = 'pymap/selected.py'
STATE = 'pymap/imap/state.py'

# mutators of MailboxDataInterface: name -> (mutates receiver?, index of the
# positional argument that is a mutated destination mailbox or None)
MUTATORS = {'append': (True, None), 'copy': (False, 1), 'move': (True, 1),
            'update': (True, None), 'delete': (True, None),
            'claim_recent': (True, None)}


def _origin(f, name: str) -> str:
    """How a local mailbox variable was obtained: 'selected:<sel expr>' for
    self._get_selected(sel), 'named' for self._get_mailbox(...), '?'."""
    for _, v in local_assigns(f, name):
        v = strip_await(v) if v is not None else None
        if isinstance(v, ast.Call):
            nm = call_name(v)
            if nm == '_get_selected' and v.args:
                return 'selected:' + txt(v.args[0])
            if nm in ('_get_mailbox', 'get_mailbox'):
                return 'named'
    return '?'


def _guarded(cfg, n, expr: str) -> bool:
    """Node n runs only when ``expr`` (X.readonly) is false: dominated by a
    raise-guard on it, or control-dependent on its negation."""
    for t in cfg.nodes:
        if t.kind != 'test':
            continue
        atoms = guard_atoms(t.stmt.test)
        for a, pol in atoms:
            if a != expr:
                continue
            ro_branch = 't' if pol else 'f'
            if pol and len(atoms) > 1 and isinstance(t.stmt.test, ast.BoolOp) \
                    and isinstance(t.stmt.test.op, ast.And):
                continue      # `ro and other`: false branch does not imply rw
            firsts = [m for m, lab in t.succ if lab == ro_branch]
            r = cfg.reach(firsts, labels=ALL, first_labels=ALL,
                          include_starts=True) | set(firsts)
            if n not in r and cfg.dominated_by(n, [t]):
                return True
    return False


def check(ctx) -> None:
    ctx.explanation = (
        'Static decision of structural necessary conditions of C12: every '
        'call of a mailbox mutator (append, copy->destination, '
        'move->source+destination, update, delete, claim_recent) in the '
        'session layer is dominated by a read-only guard on the selection / '
        'destination it mutates (or is controlled by a flag that every call '
        'site derives from `not readonly`); the selection is created '
        'read-only when EXAMINE or the backend says so; CLOSE does not '
        'expunge a read-only selection; `readonly` has one writer and no '
        'setter.')
    ctx.not_decided = ('"nothing changed" as whole-state equality over all '
                       'programs; maildir cleanup under CHECK rewriting the '
                       'UID list (not observable state).')
    r121(ctx)
    r122(ctx)
    r124(ctx)
    r125(ctx)
    from . import c17
    before = len(ctx.rules)
    c17.r175(ctx)
    r = ctx.rules[before]
    r.id = 'R12.6'
    r.title = 'a read-only selection never receives new messages\' ' \
              '\\Recent (= R17.5)'
    for i in r.instances:
        i.rule = 'R12.6'


def r121(ctx) -> None:
    R = ctx.rule('R12.1', 'mutator calls are guarded by read-only tests', 7)
    bs = ctx.proj.cls(SESS, 'BaseSession')
    for fs in bs.methods.values():
        for f in fs:
            cfg = cfg_of(f)
            for n in cfg.stmt_nodes():
                for c in n.calls():
                    nm = call_name(c)
                    if nm not in MUTATORS or \
                            not isinstance(c.func, ast.Attribute) or \
                            not isinstance(c.func.value, ast.Name):
                        continue
                    recv = c.func.value.id
                    org = _origin(f, recv)
                    if org == '?':
                        continue      # not a mailbox object (list.append…)
                    mut_recv, dest_idx = MUTATORS[nm]
                    if mut_recv:
                        if org.startswith('selected:'):
                            sel = org.split(':', 1)[1]
                            expr = f'{sel}.readonly'
                        else:
                            expr = f'{recv}.readonly'
                        key = f'{f.qualname}: {recv}.{nm}() needs ' \
                              f'`{expr}` guard'
                        ok = _guarded(cfg, n, expr)
                        how = 'dominated by the guard'
                        if not ok:
                            ok, how = _flag_guard(ctx, bs, f, cfg, n)
                        if not ok and nm == 'claim_recent' and c.args:
                            # the selection being created is the argument
                            expr2 = f'{txt(c.args[0])}.readonly'
                            ok = _guarded(cfg, n, expr2)
                            how = f'guarded by {expr2}'
                        R.check(ok, f, c, key,
                                f'{f.qualname} calls the mutator {nm}() on '
                                f'the {"selected" if "selected" in org else "named"} '
                                f'mailbox on a path where {expr} may be '
                                f'true: a command issued in an EXAMINE / '
                                f'read-only selection changes the mailbox '
                                f'(e.g. EXAMINE INBOX; MOVE 1 Sent expunges '
                                f'message 1)', how)
                    if dest_idx is not None and len(c.args) > dest_idx - 0:
                        d = c.args[dest_idx]
                        expr = f'{txt(d)}.readonly'
                        key = f'{f.qualname}: {nm}() into {txt(d)} needs ' \
                              f'`{expr}` guard'
                        R.check(_guarded(cfg, n, expr), f, c, key,
                                f'{nm}() writes into {txt(d)} without a '
                                f'preceding read-only test on it: COPY/MOVE '
                                f'into a read-only mailbox is not refused',
                                'dominated by the guard')


def _flag_guard(ctx, bs, f, cfg, n):
    """The call is controlled by a boolean parameter whose every call-site
    argument has the top-level conjunct `not <selection>.readonly`."""
    params = f.params()
    for t in cfg.nodes:
        if t.kind != 'test':
            continue
        atoms = guard_atoms(t.stmt.test)
        for a, pol in atoms:
            if a in params and pol and cfg.controlled_by(n, t, 't'):
                sites = []
                for g in ctx.proj.all_funcs('pymap/'):
                    if f.name not in g.module.src:
                        continue
                    for c in calls_in(g.node, f.name):
                        if isinstance(c.func, ast.Attribute) and \
                                'session' in txt(c.func.value):
                            sites.append((g, c))
                if not sites:
                    return False, 'no call sites found'
                for g, c in sites:
                    b = bind_args(f, c)
                    arg = b.get(a)
                    sel = b.get('selected')
                    vals = list(resolve_local(g, arg)) \
                        if arg is not None else []
                    # every definition that can reach the call must carry
                    # the conjunct (a conjunct added on one branch only
                    # leaves the other path unguarded)
                    if isinstance(arg, ast.Name):
                        vals = [v for _, v in local_assigns(g, arg.id)
                                if v is not None]
                        # later definitions that refine the flag (x = x and
                        # ...) are fine only if they dominate the call
                        gcfg = cfg_of(g)
                        callnodes = gcfg.node_containing(c)
                        dom_defs = [st for st, v in local_assigns(g, arg.id)
                                    if v is not None and all(
                                        gcfg.dominated_by(cn, gcfg.nodes_of(st))
                                        for cn in callnodes)]
                        if dom_defs:
                            last = dom_defs[-1]
                            vals = [v for st, v in local_assigns(g, arg.id)
                                    if st is last]
                    good = bool(vals)
                    gcfg2 = cfg_of(g)
                    want = f'{txt(sel)}.readonly' if sel is not None else None
                    for v in vals:
                        okv = const_value(v) == (True, False)
                        for v2 in resolve_local(g, v):
                            for aa, pp in guard_atoms(v2):
                                if not pp and aa.endswith('.readonly') and (
                                        want is None or aa == want):
                                    okv = True
                        # ... or the definition itself only runs when the
                        # selection is not read-only
                        if not okv and isinstance(arg, ast.Name):
                            for st, vv in local_assigns(g, arg.id):
                                if vv is v and want is not None and all(
                                        runs_only_when(gcfg2, nd, want, False)
                                        for nd in gcfg2.nodes_of(st)) and \
                                        gcfg2.nodes_of(st):
                                    okv = True
                        good = good and okv
                    if not good:
                        return False, (f'flag `{a}` passed at '
                                       f'{g.qualname}:{c.lineno} is not '
                                       f'derived from `not ….readonly`')
                return True, (f'controlled by `{a}`; all {len(sites)} call '
                              f'site(s) pass a conjunct `not <sel>.readonly`')
    return False, ''


def r122(ctx) -> None:
    R = ctx.rule('R12.2', 'selection is read-only when EXAMINE or the backend '
                 'says so', 1)
    bs = ctx.proj.cls(SESS, 'BaseSession')
    f = bs.own_method('select_mailbox')
    if f is None:
        raise AnchorError('BaseSession.select_mailbox vanished')
    sm = ctx.proj.cls(SEL, 'SelectedMailbox')
    init = sm.own_method('__init__')
    found = False
    for c in calls_in(f.node, 'SelectedMailbox'):
        found = True
        arg = bind_args(init, c).get('readonly')
        ors = set()
        if isinstance(arg, ast.BoolOp) and isinstance(arg.op, ast.Or):
            ors = {txt(v) for v in arg.values}
        elif arg is not None:
            ors = {txt(arg)}
        ro_param = 'readonly' if 'readonly' in f.params() else None
        has_cmd = ro_param in ors
        has_backend = any(o.endswith('.readonly') for o in ors)
        R.check(has_cmd and has_backend and len(ors) == 2, f, c,
                'select_mailbox: readonly = EXAMINE flag or mailbox.readonly',
                f'SelectedMailbox is created with readonly={txt(arg)}: '
                + ('EXAMINE does not make the selection read-only'
                   if not has_cmd else 'a backend read-only mailbox is '
                   'selected read-write'),
                'disjunction of both sources')
    if not found:
        raise AnchorError('select_mailbox does not construct SelectedMailbox')


def r124(ctx) -> None:
    R = ctx.rule('R12.4', 'CLOSE under read-only removes nothing', 1)
    from .c05 import conn_state, _raises_readonly_on
    cs = conn_state(ctx)
    f = cs.own_method('do_close')
    if f is None:
        raise AnchorError('do_close vanished')
    bs = ctx.proj.cls(SESS, 'BaseSession')
    cfg = cfg_of(f)
    n_calls = 0
    for n in cfg.stmt_nodes():
        for c in n.calls():
            if isinstance(c.func, ast.Attribute) and \
                    'session' in attr_chain(c.func) and \
                    c.func.attr in ('expunge_mailbox',):
                n_calls += 1
                arg = c.args[0] if c.args else None
                names = {txt(arg)}
                for v in resolve_local(f, arg) if arg is not None else []:
                    names.add(txt(v))
                callee = bs.own_method(c.func.attr)
                inner = callee is not None and \
                    bool(_raises_readonly_on(callee))
                outer = any(_guarded(cfg, n, f'{nm}.readonly')
                            for nm in names)
                R.check(inner or outer, f, c,
                        'do_close: expunge only when read-write',
                        'CLOSE expunges without any read-only test on the '
                        'route: CLOSE after EXAMINE removes \\Deleted '
                        'messages',
                        'guarded in do_close' if outer else
                        'expunge_mailbox refuses read-only selections')
    if not n_calls:
        R.ok(f, f.node, 'do_close: no expunge call', 'nothing removed')


def r125(ctx) -> None:
    R = ctx.rule('R12.5', 'SelectedMailbox.readonly: one writer, no setter',
                 2)
    sm = ctx.proj.cls(SEL, 'SelectedMailbox')
    setter = sm.find_method('readonly', kind='setter')
    R.check(setter is None, setter, getattr(setter, 'node', None),
            'SelectedMailbox.readonly has no setter',
            'a setter for `readonly` exists: the selection mode can be '
            'flipped after SELECT/EXAMINE')
    init = sm.own_method('__init__')
    n = 0
    for f, s, t, rel in writers_of(ctx.proj, '_readonly'):
        if rel != SEL and not (f is None or 'selected' in txt(t.value)):
            continue
        if f is not None and f.cls is not None and f.cls is not sm and \
                is_name(t.value, 'self'):
            continue
        n += 1
        ok = f is init and txt(getattr(s, 'value', None)) == 'readonly'
        R.check(ok, f, s, f'writer of _readonly: '
                f'{f.qualname if f else rel}',
                'SelectedMailbox._readonly is written outside the '
                'constructor (or not from the constructor argument)')
    if n == 0:
        raise AnchorError('no writer of SelectedMailbox._readonly found')

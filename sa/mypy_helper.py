"""Runs mypy (the repository's own dev dependency) as a library over the
package and prints its diagnostics as one JSON line.  Separate process: mypy
teardown is slow, so we os._exit."""
import json
import os
import sys


def main() -> None:
    root = sys.argv[1]
    os.chdir(root)
    out = []
    try:
        from mypy import build
        from mypy.options import Options
        from mypy.find_sources import create_source_list
        opts = Options()
        opts.incremental = False
        opts.cache_dir = os.devnull
        opts.python_version = (3, 12)
        opts.ignore_missing_imports = True
        opts.warn_unreachable = False
        msgs: list[str] = []

        def flush(filename, new, is_serious):
            msgs.extend(new)
        res = build.build(create_source_list(['pymap'], opts), opts,
                          flush_errors=flush)
        msgs = msgs or list(res.errors)
        import re
        pat = re.compile(r'^(.*?):(\d+):(?:\d+:)? error: (.*?)(?:  \[([\w-]+)\])?$')
        for m in msgs:
            mm = pat.match(m)
            if mm:
                out.append({'file': mm.group(1), 'line': int(mm.group(2)),
                            'message': mm.group(3),
                            'code': mm.group(4) or ''})
    except BaseException as exc:       # noqa
        print(json.dumps({'error': repr(exc)}))
        sys.stdout.flush()
        os._exit(3)
    print(json.dumps(out))
    sys.stdout.flush()
    os._exit(0)


main()

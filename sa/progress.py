"""Family I: loop progress and the "consuming parser" fixpoint.

Abstract domain per name, relative to a reference value R (the function's
input buffer, or a loop variable's value at the loop head):
    'S'  strictly advanced (a strict suffix of R / a cursor > R)
    '0'  same or advanced  (a suffix of R / a cursor >= R)
    '?'  unknown
The interpreter forks on branches (path-sensitive) and merges only at loop
exits.  A parser is *consuming* when every normal return hands back a
remainder in state 'S'; a loop makes progress when one and the same variable
is 'S' on every path that reaches the back edge."""
from __future__ import annotations

import ast

from .cfg import walk_local, has_suspension
from .facts import (call_name, const_value, is_name, is_attr, strip_await,
                    names_in)
from .loader import Func, txt
from . import regexfacts as rx

ORDER = {'?': -1, '0': 0, 'S': 1}


def merge(a: str, b: str) -> str:
    return a if ORDER[a] <= ORDER[b] else b


class Env:
    __slots__ = ('st', 'pos', 'match', 'find', 'implies', 'listfull',
                 'ref')

    def __init__(self) -> None:
        self.st: dict[str, str] = {}
        self.pos: set[str] = set()            # names known >= 1
        self.match: dict[str, tuple[int, str]] = {}   # M -> (minwidth, buf)
        self.find: dict[str, str] = {}        # idx -> start expr (pending)
        self.implies: dict[str, set[str]] = {}  # list -> vars that are S
        self.listfull: set[str] = set()
        self.ref: dict[str, str] = {}         # name -> reference variable

    def copy(self) -> 'Env':
        e = Env()
        e.st = dict(self.st)
        e.pos = set(self.pos)
        e.match = dict(self.match)
        e.find = dict(self.find)
        e.implies = {k: set(v) for k, v in self.implies.items()}
        e.listfull = set(self.listfull)
        e.ref = dict(self.ref)
        return e

    def key(self):
        return (tuple(sorted(self.st.items())), tuple(sorted(self.pos)),
                tuple(sorted(self.match)), tuple(sorted(self.listfull)),
                tuple(sorted(self.ref.items())))


def merge_envs(envs: list[Env]) -> Env:
    out = envs[0].copy()
    for e in envs[1:]:
        for k in set(out.st) | set(e.st):
            out.st[k] = merge(out.st.get(k, '?'), e.st.get(k, '?'))
        out.pos &= e.pos
        out.match = {k: v for k, v in out.match.items()
                     if e.match.get(k) == v}
        out.listfull &= e.listfull
        for k in list(out.ref):
            if e.ref.get(k) != out.ref[k]:
                out.ref.pop(k)
                out.st[k] = '?'
    return out


class Progress:

    def __init__(self, proj, cg) -> None:
        self.proj = proj
        self.cg = cg
        self.consuming: dict[int, str] = {}    # id(func node) -> 'S'|'0'|'?'
        self.why: dict[int, str] = {}

    # -- pattern widths ----------------------------------------------------
    def _pattern_width(self, f: Func, e: ast.AST) -> int | None:
        """min width of the compiled pattern an expression denotes."""
        if isinstance(e, ast.Attribute) and f.cls is not None and \
                isinstance(e.value, ast.Name) and e.value.id in ('cls',
                                                                 'self'):
            a = f.cls.find_attr(e.attr)
            if a is not None and isinstance(a[1], ast.Call) and a[1].args:
                ok, src = const_value(a[1].args[0])
                if ok:
                    try:
                        return rx.min_width(src)
                    except Exception:
                        return None
        if isinstance(e, ast.Name):
            r = self.proj.resolve_name(f.module, e.id)
            if r and r[0] == 'value' and isinstance(r[2], ast.Call) and \
                    r[2].args:
                ok, src = const_value(r[2].args[0])
                if ok:
                    try:
                        return rx.min_width(src)
                    except Exception:
                        return None
        return None

    # -- expression states -------------------------------------------------
    def _ge1(self, f: Func, e: ast.AST, env: Env) -> bool:
        ok, v = const_value(e)
        if ok:
            return isinstance(v, int) and v >= 1
        if isinstance(e, ast.Name):
            return e.id in env.pos
        if isinstance(e, ast.BinOp) and isinstance(e.op, ast.Add):
            for a, b in ((e.left, e.right), (e.right, e.left)):
                if self._ge1(f, a, env) and self._nonneg(b, env):
                    return True
        if isinstance(e, ast.Call) and call_name(e) == 'end' and \
                isinstance(e.func, ast.Attribute) and \
                isinstance(e.func.value, ast.Name):
            m = env.match.get(e.func.value.id)
            return m is not None and m[0] >= 1
        return False

    @staticmethod
    def _nonneg(e: ast.AST, env: Env) -> bool:
        ok, v = const_value(e)
        if ok:
            return isinstance(v, int) and v >= 0
        return isinstance(e, (ast.Name, ast.Call, ast.Attribute))

    def state(self, f: Func, e: ast.AST | None, env: Env) -> str:
        if e is None:
            return '?'
        e = strip_await(e)
        if isinstance(e, ast.Name):
            return env.st.get(e.id, '?')
        if isinstance(e, ast.Call) and call_name(e) in ('memoryview',
                                                        'bytes') and \
                len(e.args) == 1:
            return self.state(f, e.args[0], env)
        if isinstance(e, ast.Subscript) and isinstance(e.slice, ast.Slice) \
                and e.slice.upper is None and e.slice.step is None:
            base = self.state(f, e.value, env)
            if base == '?':
                return '?'
            lo = e.slice.lower
            if lo is None:
                return base
            if self._ge1(f, lo, env):
                return 'S'
            # M.end(0) of a match on this buffer: at least "same"
            return base if self._nonneg(lo, env) else '?'
        if isinstance(e, ast.BinOp) and isinstance(e.op, ast.Add):
            # cursor arithmetic: X + k
            for a, b in ((e.left, e.right), (e.right, e.left)):
                sa = self.state(f, a, env)
                if sa != '?':
                    if self._ge1(f, b, env):
                        return 'S'
                    if self._nonneg(b, env):
                        return sa
        return '?'

    @staticmethod
    def _returns_match(g: Func) -> bool:
        """Every non-None return of g is a value bound from X.match(...)."""
        rets = [r for r in walk_local(g.node) if isinstance(r, ast.Return)
                and r.value is not None
                and const_value(r.value) != (True, None)]
        if not rets:
            return False
        from .facts import local_assigns
        for r in rets:
            if not isinstance(r.value, ast.Name):
                return False
            vals = [v for _, v in local_assigns(g, r.value.id)
                    if v is not None]
            if not vals or not all(
                    isinstance(v, ast.Call)
                    and call_name(v) in ('match', 'fullmatch')
                    for v in vals):
                return False
        return True

    def _arg_state(self, f: Func, c: ast.Call, env: Env) -> str:
        """State of the buffer argument: the first argument with a known
        state (parsers take the buffer first; helpers may not)."""
        for a in c.args:
            st = self.state(f, a, env)
            if st != '?':
                return st
        return '?'

    def ref_of(self, f, e: ast.AST | None, env: Env) -> str | None:
        """The loop/input variable an expression's state is relative to."""
        if e is None:
            return None
        e = strip_await(e)
        if isinstance(e, ast.Name):
            return env.ref.get(e.id)
        if isinstance(e, ast.Call):
            if call_name(e) in ('memoryview', 'bytes') and e.args:
                return self.ref_of(f, e.args[0], env)
            for a in e.args:
                r = self.ref_of(f, a, env)
                if r is not None and self.state(f, a, env) != '?':
                    return r
            return None
        if isinstance(e, ast.Subscript):
            return self.ref_of(f, e.value, env)
        if isinstance(e, ast.BinOp):
            return self.ref_of(f, e.left, env) or \
                self.ref_of(f, e.right, env)
        return None

    def callee_state(self, f: Func, c: ast.Call) -> str:
        cs = self.cg.resolve(f, c)
        if not cs:
            return '?'
        out = 'S'
        for g in cs:
            out = merge(out, self.consuming.get(id(g.node), '?'))
        return out

    # -- statements ---------------------------------------------------------
    def run(self, f: Func, stmts: list[ast.stmt], env: Env,
            out: list[tuple[str, Env, ast.AST | None]]) -> list[Env]:
        """Execute a suite; returns the environments that fall through.
        Terminating outcomes are appended to ``out`` as (kind, env, node)."""
        envs = [env]
        for s in stmts:
            nxt: list[Env] = []
            for e in envs:
                nxt += self.stmt(f, s, e, out)
            # dedupe
            seen = {}
            for e in nxt:
                seen.setdefault(e.key(), e)
            envs = list(seen.values())[:64]
            if not envs:
                break
        return envs

    def _assign_call(self, f, tgt, v: ast.Call, env: Env) -> None:
        nm = call_name(v)
        if isinstance(tgt, ast.Name):
            t = tgt.id
            if nm in ('match', 'search', 'fullmatch') and \
                    isinstance(v.func, ast.Attribute):
                w = self._pattern_width(f, v.func.value)
                if w is not None and v.args:
                    env.match[t] = (w if nm != 'search' else w,
                                    txt(v.args[0]))
                env.st[t] = '?'
                env.ref.pop(t, None)
                return
            if nm == 'find' and len(v.args) >= 2:
                env.find[t] = v.args[1]
                env.st[t] = '?'
                env.ref.pop(t, None)
                return
            if nm == 'expect':
                env.st[t] = 'S'     # a fresh continuation was consumed
                env.ref.setdefault(t, t)
                return
            if nm in ('_whitespace_length', 'len'):
                env.st[t] = '?'
                env.ref.pop(t, None)
                return
            if nm == 'end' and isinstance(v.func, ast.Attribute) and \
                    isinstance(v.func.value, ast.Name):
                m = env.match.get(v.func.value.id)
                env.st[t] = '?'
                if m is not None and m[0] >= 1:
                    env.pos.add(t)
                return
            # helper that returns the match of one of the patterns it is
            # given: width = the smallest of those patterns
            ws = [self._pattern_width(f, a) for a in v.args[1:]]
            if ws and all(w is not None for w in ws) and v.args:
                cs_ = self.cg.resolve(f, v) or []
                if cs_ and all(self._returns_match(g) for g in cs_):
                    env.match[t] = (min(ws), txt(v.args[0]))
                    env.st[t] = '?'
                    env.ref.pop(t, None)
                    return
            # helper returning only the remainder
            st_in = self._arg_state(f, v, env)
            cs = self.callee_state(f, v)
            r = self.ref_of(f, v, env)
            if st_in != '?' and cs in ('S', '0'):
                env.st[t] = 'S' if (cs == 'S' or st_in == 'S') else '0'
            else:
                env.st[t] = self.state(f, v, env)
            if r is not None:
                env.ref[t] = r
            else:
                env.ref.pop(t, None)
            return
        if isinstance(tgt, (ast.Tuple, ast.List)) and tgt.elts:
            last = tgt.elts[-1]
            for el in tgt.elts[:-1]:
                if isinstance(el, ast.Name):
                    env.st[el.id] = '?'
                    env.ref.pop(el.id, None)
            if isinstance(last, ast.Name):
                st_in = self._arg_state(f, v, env)
                cs = self.callee_state(f, v)
                r = self.ref_of(f, v, env)
                if r is not None:
                    env.ref[last.id] = r
                else:
                    env.ref.pop(last.id, None)
                if st_in != '?' and cs in ('S', '0'):
                    env.st[last.id] = 'S' if (cs == 'S' or st_in == 'S') \
                        else '0'
                else:
                    env.st[last.id] = '?'

    def stmt(self, f: Func, s: ast.stmt, env: Env, out) -> list[Env]:
        env = env.copy()
        if isinstance(s, (ast.Assign, ast.AnnAssign)):
            v = getattr(s, 'value', None)
            if v is None:
                return [env]
            tgts = s.targets if isinstance(s, ast.Assign) else [s.target]
            vv = strip_await(v)
            for tgt in tgts:
                if isinstance(vv, ast.Call):
                    self._assign_call(f, tgt, vv, env)
                elif isinstance(tgt, ast.Name):
                    st_new = self.state(f, vv, env)
                    r = self.ref_of(f, vv, env)
                    env.st[tgt.id] = st_new
                    if r is not None:
                        env.ref[tgt.id] = r
                    else:
                        env.ref.pop(tgt.id, None)
                    env.match.pop(tgt.id, None)
                    if isinstance(vv, ast.Name) and vv.id in env.pos:
                        env.pos.add(tgt.id)
                    ok, c = const_value(vv)
                    if ok and isinstance(c, int) and c >= 1:
                        env.pos.add(tgt.id)
                elif isinstance(tgt, (ast.Tuple, ast.List)):
                    for el in tgt.elts:
                        if isinstance(el, ast.Name):
                            env.st[el.id] = '?'
                            env.ref.pop(el.id, None)
            return [env]
        if isinstance(s, ast.AugAssign):
            if isinstance(s.target, ast.Name) and \
                    isinstance(s.op, ast.Add) and \
                    env.st.get(s.target.id, '?') != '?' and \
                    self._ge1(f, s.value, env):
                env.st[s.target.id] = 'S'
            return [env]
        if isinstance(s, ast.Expr):
            v = strip_await(s.value)
            if isinstance(v, ast.Call) and call_name(v) in ('append', 'add',
                                                            'extend') and \
                    isinstance(v.func, ast.Attribute) and \
                    isinstance(v.func.value, ast.Name):
                lst = v.func.value.id
                adv = {k for k, st in env.st.items() if st == 'S'}
                if lst in env.implies:
                    env.implies[lst] &= adv
                else:
                    env.implies[lst] = adv
                env.listfull.add(lst)
            return [env]
        if isinstance(s, ast.Return):
            v = s.value
            st = '?'
            if isinstance(v, ast.Tuple) and v.elts:
                st = self.state(f, v.elts[-1], env)
            elif v is not None:
                vv = strip_await(v)
                if isinstance(vv, ast.Call):
                    st_in = self._arg_state(f, vv, env)
                    cs = self.callee_state(f, vv)
                    if st_in != '?' and cs in ('S', '0'):
                        st = 'S' if (cs == 'S' or st_in == 'S') else '0'
                else:
                    st = self.state(f, vv, env)
            out.append(('return:' + st, env, s))
            return []
        if isinstance(s, ast.Raise):
            out.append(('raise', env, s))
            return []
        if isinstance(s, ast.Break):
            out.append(('break', env, s))
            return []
        if isinstance(s, ast.Continue):
            out.append(('continue', env, s))
            return []
        if isinstance(s, ast.If):
            et, ef = env.copy(), env.copy()
            self._refine(f, s.test, et, ef)
            a = self.run(f, s.body, et, out)
            b = self.run(f, s.orelse, ef, out) if s.orelse else [ef]
            return a + b
        if isinstance(s, ast.Try):
            body_out: list = []
            # handler environments: the exception may strike after any prefix
            prefix_envs = [env.copy()]
            cur = [env.copy()]
            for st_ in s.body:
                nxt = []
                for e in cur:
                    nxt += self.stmt(f, st_, e, body_out)
                cur = nxt
                prefix_envs += [e.copy() for e in cur]
            res: list[Env] = []
            if s.orelse:
                for e in cur:
                    res += self.run(f, s.orelse, e, out)
            else:
                res += cur
            out.extend(o for o in body_out if not o[0].startswith('raise')
                       or not s.handlers)
            if s.handlers:
                henv = merge_envs(prefix_envs)
                for h in s.handlers:
                    res += self.run(f, h.body, henv.copy(), out)
                # raises inside the body that no handler of ours catches
                # still propagate: keep them (conservative)
                out.extend(o for o in body_out if o[0].startswith('raise'))
            if s.finalbody:
                fin: list[Env] = []
                for e in res:
                    fin += self.run(f, s.finalbody, e, out)
                res = fin
            return res
        if isinstance(s, (ast.For, ast.AsyncFor)):
            benv = env.copy()
            it = strip_await(s.iter)
            if isinstance(it, ast.Call) and call_name(it) == 'finditer' and \
                    isinstance(it.func, ast.Attribute) and \
                    isinstance(s.target, ast.Name):
                w = self._pattern_width(f, it.func.value)
                if w is not None and it.args:
                    benv.match[s.target.id] = (w, txt(it.args[0]))
                    # finditer(buf, pos): matches lie at >= pos
            for nm in names_in(s.target):
                benv.st.setdefault(nm, '?')
            inner: list = []
            falls = self.run(f, s.body, benv, inner)
            exits: list[Env] = [env.copy()]       # zero iterations
            for kind, e, node in inner:
                if kind == 'break':
                    exits.append(e)
                elif kind == 'continue':
                    falls.append(e)
                else:
                    out.append((kind, e, node))
            # after >=1 iterations without break: names assigned in the body
            # are only known through the merge
            if falls:
                exits.append(merge_envs(falls + [env.copy()]))
            res = [merge_envs([exits[0]] + exits[1:2])] if False else exits
            if s.orelse:
                r2: list[Env] = []
                for e in res[:1] + ([res[-1]] if falls else []):
                    r2 += self.run(f, s.orelse, e, out)
                return r2 + [e for e in res[1:] if e not in (res[-1],)]
            return res
        if isinstance(s, ast.While):
            # nested loop: its own progress is checked separately; here we
            # only need the environments at its exits
            inner = []
            benv = env.copy()
            assigned = {t.id for x in walk_local(s) for t in
                        ([x.target] if isinstance(x, ast.AugAssign) else
                         getattr(x, 'targets', []))
                        for t in ([t] if isinstance(t, ast.Name) else
                                  [e for e in getattr(t, 'elts', [])
                                   if isinstance(e, ast.Name)])}
            falls = self.run(f, s.body, benv, inner)
            exits = []
            for kind, e, node in inner:
                if kind == 'break':
                    exits.append(e)
                elif kind == 'continue':
                    pass
                else:
                    out.append((kind, e, node))
            const_true = isinstance(s.test, ast.Constant) and s.test.value
            if not const_true:
                exits.append(env.copy())
                exits += falls
            if not exits:
                return []
            m = merge_envs(exits)
            # a second iteration may start from a weaker state: degrade
            # everything assigned in the loop to at most its merged state
            for nm in assigned:
                m.st[nm] = merge(m.st.get(nm, '?'), env.st.get(nm, '?')
                                 if env.st.get(nm, '?') != '?' else
                                 m.st.get(nm, '?'))
            return [m]
        if isinstance(s, (ast.With, ast.AsyncWith)):
            return self.run(f, s.body, env, out)
        return [env]

    def _refine(self, f: Func, test: ast.AST, et: Env, ef: Env) -> None:
        """Branch facts: `if not v: raise` style guards."""
        t = test
        neg = False
        while isinstance(t, ast.UnaryOp) and isinstance(t.op, ast.Not):
            neg = not neg
            t = t.operand
        if isinstance(t, ast.Name):
            truthy, falsy = (ef, et) if neg else (et, ef)
            truthy.pos.add(t.id)
            if t.id in truthy.implies or t.id in truthy.listfull:
                for v in truthy.implies.get(t.id, ()):
                    truthy.st[v] = 'S'
        if isinstance(t, ast.Compare) and len(t.ops) == 1 and \
                isinstance(t.left, ast.Name) and t.left.id in et.find:
            ok, c = const_value(t.comparators[0])
            lt0 = isinstance(t.ops[0], ast.Lt) and ok and c == 0
            eqm1 = isinstance(t.ops[0], ast.Eq) and ok and c == -1
            ge0 = isinstance(t.ops[0], ast.GtE) and ok and c == 0
            if lt0 or eqm1 or ge0:
                found = ef if (lt0 or eqm1) != neg else et
                if ge0:
                    found = et if not neg else ef
                start = found.find[t.left.id]
                st = self.state(f, start, found)
                found.st[t.left.id] = st if st != '?' else '?'
                r = self.ref_of(f, start, found)
                if r is not None:
                    found.ref[t.left.id] = r

    # -- summaries ------------------------------------------------------------
    def summarise(self, f: Func) -> str:
        params = f.params()
        bufp = next((p for p in params if p == 'buf'), None)
        if bufp is None:
            return '?'
        env = Env()
        env.st[bufp] = '0'
        env.ref[bufp] = bufp
        out: list = []
        falls = self.run(f, f.node.body, env, out)
        rets = [k.split(':', 1)[1] for k, _, _ in out
                if k.startswith('return:')]
        if falls:
            rets.append('?')
        if not rets:
            return 'S'          # never returns normally (always raises)
        st = 'S'
        for r in rets:
            st = merge(st, r)
        return st

    def solve(self, funcs: list[Func]) -> int:
        cand = [f for f in funcs if f.name == 'parse'
                or f.name.startswith('_parse') or f.name in ('_check_macros',
                                                             'expect')]
        for f in cand:
            self.consuming[id(f.node)] = 'S'      # greatest fixpoint start
        changed = True
        rounds = 0
        while changed and rounds < 30:
            changed = False
            rounds += 1
            for f in cand:
                st = self.summarise(f)
                if st != self.consuming[id(f.node)]:
                    self.consuming[id(f.node)] = st
                    changed = True
        return rounds

    # -- loops ---------------------------------------------------------------
    def check_loop(self, f: Func, loop: ast.While):
        """-> (verdict, detail): 'ok' | 'fail' | 'undecided' | 'skip'"""
        if any(has_suspension(x) for x in loop.body) or \
                has_suspension(loop.test):
            return 'skip', 'contains a suspension point (I/O driven)'
        # candidates: names re-assigned in the body
        cands: list[str] = []
        for x in walk_local(loop):
            tg = []
            if isinstance(x, ast.Assign):
                tg = x.targets
            elif isinstance(x, ast.AugAssign):
                tg = [x.target]
            for t in tg:
                for el in ([t] if isinstance(t, ast.Name) else
                           getattr(t, 'elts', [])):
                    if isinstance(el, ast.Name) and el.id not in cands:
                        cands.append(el.id)
        if isinstance(loop.test, ast.Name) and loop.test.id in cands:
            cands = [loop.test.id] + [c for c in cands
                                      if c != loop.test.id]
        # a parser called inside the loop on a buffer the loop never assigns
        # re-parses the same bytes on every iteration
        for c in walk_local(loop):
            if isinstance(c, ast.Call) and c.args and \
                    isinstance(c.args[0], ast.Name):
                b = c.args[0].id
                cs = self.cg.resolve(f, c)
                if cs and any(id(g.node) in self.consuming for g in cs) \
                        and b not in cands and not isinstance(
                            loop.test, ast.Constant) is False:
                    pass
                if cs and any(id(g.node) in self.consuming for g in cs) \
                        and b not in cands:
                    return 'fail', (f'`{b}` is parsed by {txt(c.func)} inside '
                                    f'the loop but never reassigned in it: '
                                    f'every iteration sees the same bytes')
        env = Env()
        for c in cands:
            env.st[c] = '0'
            env.ref[c] = c
        out: list = []
        falls = self.run(f, loop.body, env, out)
        back = list(falls) + [e for k, e, _ in out if k == 'continue']
        if not back:
            return 'ok', 'every path through the body leaves the loop'
        best = None
        for c in cands:
            sts = [e.st.get(c, '?') if e.ref.get(c) == c else '?'
                   for e in back]
            if all(s == 'S' for s in sts):
                return 'ok', f'`{c}` strictly advances on all ' \
                             f'{len(back)} back-edge path(s)'
            if best is None or sum(s == 'S' for s in sts) > best[1]:
                best = (c, sum(s == 'S' for s in sts), sts)
        c, n, sts = best if best else ('?', 0, [])
        # a path is stuck when every loop-carried variable it knows about is
        # provably unchanged
        stuck = 0
        for e in back:
            carried = [v for v in cands if e.ref.get(v) == v]
            if carried and all(e.st.get(v, '?') == '0' for v in carried):
                stuck += 1
        if stuck:
            return 'fail', (f'{stuck} of {len(back)} path(s) round the loop '
                            f'leave every loop-carried variable '
                            f'({", ".join(cands[:4])}) unchanged')
        return 'undecided', f'`{c}`: states {sts}'

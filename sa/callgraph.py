"""L3 (ast flavour): a name-resolved call graph with class-hierarchy dispatch
and this repository's two table-driven dispatch edges.

Resolution rules (callee sets are over-approximations restricted by what the
syntax pins down):
  f(...)               module-level function / imported function / class
                       constructor (-> __init__)
  self.m / cls.m       first definition along the MRO of the enclosing class
                       plus every override in its subclasses
  super().m            next definition after the enclosing class in its MRO
  ClassName.m          that class's definition plus subclass overrides
  ExpectedParseable.parse / data_type.parse
                       the `parse` of every class named in an
                       `expected=[…]` literal anywhere in the package
  cmd_type.parse       the `parse` of every registered command class
Anything else (attribute call on a value of unknown type) is left unresolved
and counted."""
from __future__ import annotations

import ast

from .cfg import walk_local
from .facts import call_name, calls_in, is_name, kwarg, const_value
from .loader import Func, Cls, Project, txt

__all__ = ['CallGraph']


class CallGraph:

    def __init__(self, proj: Project, prefixes: tuple[str, ...] = ('pymap/',),
                 exclude: tuple[str, ...] = ('pymap/admin/',
                                             'pymap/backend/redis/',
                                             'pymap/cluster/')) -> None:
        self.proj = proj
        self.funcs: list[Func] = [
            f for f in proj.all_funcs('pymap/')
            if f.rel.startswith(prefixes) and not f.rel.startswith(exclude)]
        self.classes: list[Cls] = [
            c for c in proj.all_classes('pymap/')
            if not c.rel.startswith(exclude)]
        self._subs: dict[int, list[Cls]] = {}
        self.expected: list[Cls] = self._expected_classes()
        self.commands: list[Cls] = self._command_classes()
        self.unresolved = 0
        self.resolved = 0
        self._edges: dict[int, list[tuple[ast.Call, list[Func]]]] = {}

    # ------------------------------------------------------------------
    def subclasses(self, c: Cls) -> list[Cls]:
        k = id(c)
        if k not in self._subs:
            self._subs[k] = [x for x in self.classes
                             if x is not c and c in x.mro()]
        return self._subs[k]

    def _expected_classes(self) -> list[Cls]:
        out: list[Cls] = []
        for m in self.proj.modules.values():
            if 'expected=' not in m.src:
                continue
            for n in ast.walk(m.tree):
                if isinstance(n, ast.keyword) and n.arg == 'expected' and \
                        isinstance(n.value, (ast.List, ast.Tuple)):
                    for e in n.value.elts:
                        c = self.proj.resolve_class(m, txt(e).split('.')[-1])
                        if c is not None and c not in out:
                            out.append(c)
        return out

    def _command_classes(self) -> list[Cls]:
        out: list[Cls] = []
        for rel, var in (('pymap/parsing/commands.py', 'builtin_commands'),):
            m = self.proj.modules.get(rel)
            if m is None:
                continue
            lst = m.module_assigns().get(var)
            if isinstance(lst, (ast.List, ast.Tuple)):
                for e in lst.elts:
                    c = self.proj.resolve_class(m, txt(e))
                    if c is not None:
                        out.append(c)
        m = self.proj.modules.get('pymap/sieve/manage/command.py')
        if m is not None and 'Command' in m.classes:
            ac = m.classes['Command'].own_method('_all_commands')
            if ac is not None:
                for r in walk_local(ac.node):
                    if isinstance(r, ast.Return) and \
                            isinstance(r.value, (ast.List, ast.Tuple)):
                        for e in r.value.elts:
                            c = self.proj.resolve_class(m, txt(e))
                            if c is not None:
                                out.append(c)
        return out

    def _method_with_overrides(self, c: Cls, name: str) -> list[Func]:
        out: list[Func] = []
        m = c.find_method(name)
        if m is not None:
            out.append(m)
        for s in self.subclasses(c):
            o = s.own_method(name)
            if o is not None and o not in out:
                out.append(o)
        return out

    # ------------------------------------------------------------------
    def resolve(self, f: Func, c: ast.Call) -> list[Func] | None:
        fn = c.func
        mod = f.module
        if isinstance(fn, ast.Name):
            r = self.proj.resolve_name(mod, fn.id)
            if r is None:
                # a local class alias such as `cls(...)`
                if fn.id == 'cls' and f.cls is not None:
                    return self._method_with_overrides(f.cls, '__init__')
                return None
            if r[0] == 'func':
                return [r[1]]
            if r[0] == 'class':
                return self._method_with_overrides(r[1], '__init__')[:1] or []
            return None
        if not isinstance(fn, ast.Attribute):
            return None
        name = fn.attr
        recv = fn.value
        if isinstance(recv, ast.Name) and recv.id in ('self', 'cls') and \
                f.cls is not None:
            got = self._method_with_overrides(f.cls, name)
            return got or None
        if isinstance(recv, ast.Call) and is_name(recv.func, 'super') and \
                f.cls is not None:
            for k in f.cls.mro()[1:]:
                m = k.own_method(name)
                if m is not None:
                    return [m]
            return []
        if isinstance(recv, ast.Name):
            if recv.id in ('data_type',) and name == 'parse':
                return [m for c2 in self.expected
                        for m in [c2.find_method('parse')] if m is not None]
            if recv.id in ('cmd_type',) and name == 'parse':
                return [m for c2 in self.commands
                        for m in [c2.find_method('parse')] if m is not None]
            typed = self._typed_receiver(f, recv.id)
            if typed:
                got: list[Func] = []
                for k in typed:
                    for m in self._method_with_overrides(k, name):
                        if m not in got:
                            got.append(m)
                if got:
                    return got
            r = self.proj.resolve_name(mod, recv.id)
            if r is not None and r[0] == 'class':
                k = r[1]
                if k.name == 'ExpectedParseable' and name == 'parse':
                    own = k.find_method('parse')
                    return ([own] if own else []) + [
                        m for c2 in self.expected
                        for m in [c2.find_method('parse')] if m is not None]
                got = self._method_with_overrides(k, name)
                return got or None
        return None

    def _typed_receiver(self, f: Func, name: str) -> list[Cls]:
        """Classes a receiver name may denote: from the parameter annotation
        or from a local `x = ClassName(...)` / `x: ClassName = …`."""
        anns: list[ast.AST] = []
        a = f.node.args
        for p in a.posonlyargs + a.args + a.kwonlyargs:
            if p.arg == name and p.annotation is not None:
                anns.append(p.annotation)
        out: list[Cls] = []
        for s in walk_local(f.node):
            if isinstance(s, ast.AnnAssign) and is_name(s.target, name):
                anns.append(s.annotation)
            elif isinstance(s, ast.Assign) and any(is_name(t, name)
                                                   for t in s.targets):
                v = s.value
                if isinstance(v, ast.Call) and isinstance(v.func, ast.Name):
                    c = self.proj.resolve_class(f.module, v.func.id)
                    if c is not None and c not in out:
                        out.append(c)
        for ann in anns:
            t = ann.value if isinstance(ann, ast.Constant) and \
                isinstance(ann.value, str) else txt(ann)
            for part in str(t).replace('Optional[', '').split('|'):
                nm = part.strip().split('[')[0].strip(' ]').split('.')[-1]
                if not nm or nm == 'None':
                    continue
                c = self.proj.resolve_class(f.module, nm)
                if c is not None and c not in out:
                    out.append(c)
        return out

    def edges(self, f: Func) -> list[tuple[ast.Call, list[Func]]]:
        k = id(f.node)
        if k not in self._edges:
            out = []
            for c in calls_in(f.node):
                r = self.resolve(f, c)
                if r is None:
                    self.unresolved += 1
                else:
                    self.resolved += 1
                    out.append((c, r))
            self._edges[k] = out
        return self._edges[k]

    def reachable(self, roots: list[Func]) -> list[Func]:
        seen: dict[int, Func] = {}
        stack = list(roots)
        while stack:
            f = stack.pop()
            if id(f.node) in seen:
                continue
            seen[id(f.node)] = f
            for _, callees in self.edges(f):
                stack.extend(callees)
        return list(seen.values())

    def sccs(self, funcs: list[Func]) -> list[list[Func]]:
        """Tarjan over the sub-graph induced by ``funcs`` (iterative)."""
        idx = {id(f.node): f for f in funcs}
        index: dict[int, int] = {}
        low: dict[int, int] = {}
        on: set[int] = set()
        st: list[int] = []
        out: list[list[Func]] = []
        counter = [0]

        def succ(k):
            return [id(g.node) for _, cs in self.edges(idx[k]) for g in cs
                    if id(g.node) in idx]
        for root in idx:
            if root in index:
                continue
            work = [(root, iter(succ(root)))]
            index[root] = low[root] = counter[0]
            counter[0] += 1
            st.append(root)
            on.add(root)
            while work:
                v, it = work[-1]
                adv = False
                for w in it:
                    if w not in index:
                        index[w] = low[w] = counter[0]
                        counter[0] += 1
                        st.append(w)
                        on.add(w)
                        work.append((w, iter(succ(w))))
                        adv = True
                        break
                    elif w in on:
                        low[v] = min(low[v], index[w])
                if adv:
                    continue
                work.pop()
                if work:
                    p = work[-1][0]
                    low[p] = min(low[p], low[v])
                if low[v] == index[v]:
                    comp = []
                    while True:
                        w = st.pop()
                        on.discard(w)
                        comp.append(idx[w])
                        if w == v:
                            break
                    if len(comp) > 1 or v in succ(v):
                        out.append(comp)
        return out

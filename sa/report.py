"""L6: obligations, findings, known-findings file, evidence JSON, exit codes."""
from __future__ import annotations

import hashlib
import json
import os
import re
import time
from dataclasses import dataclass, field

from .loader import Project, AnchorError, Func, norm

__all__ = ['Ctx', 'Rule', 'Site', 'VERIF', 'load_known']

VERIF = os.path.dirname(os.path.dirname(os.path.abspath(__file__)))


@dataclass
class Site:
    rel: str
    line: int
    func: str = ''

    def __str__(self) -> str:
        return f'{self.rel}:{self.line}' + (f' {self.func}' if self.func
                                            else '')


def site_of(f: Func | None, node=None, rel: str | None = None) -> Site:
    line = getattr(node, 'lineno', None)
    if line is None and f is not None:
        line = f.node.lineno
    return Site(rel or (f.rel if f else '?'), line or 0,
                f.qualname if f else '')


@dataclass
class Instance:
    rule: str
    verdict: str              # ok | fail | undecided | note
    site: Site
    key: str
    msg: str
    extra: dict = field(default_factory=dict)

    @property
    def fkey(self) -> str:
        return f'{self.rule}|{self.key}'


class Rule:

    def __init__(self, ctx: 'Ctx', rid: str, title: str, minimum: int,
                 oracle: str = '') -> None:
        self.ctx = ctx
        self.id = rid
        self.title = title
        self.minimum = minimum
        self.oracle = oracle
        self.instances: list[Instance] = []

    def _add(self, verdict, f, node, key, msg, **extra) -> None:
        site = f if isinstance(f, Site) else site_of(f, node)
        self.instances.append(Instance(self.id, verdict, site, norm(key),
                                       msg, extra))

    def ok(self, f, node, key: str, msg: str = '', **extra) -> None:
        self._add('ok', f, node, key, msg, **extra)

    def fail(self, f, node, key: str, msg: str, **extra) -> None:
        self._add('fail', f, node, key, msg, **extra)

    def undecided(self, f, node, key: str, msg: str, **extra) -> None:
        self._add('undecided', f, node, key, msg, **extra)

    def check(self, cond: bool, f, node, key: str, msg_fail: str,
              msg_ok: str = '', **extra) -> bool:
        if cond:
            self.ok(f, node, key, msg_ok or 'holds', **extra)
        else:
            self.fail(f, node, key, msg_fail, **extra)
        return bool(cond)


def load_known(path: str | None = None) -> tuple[dict[str, dict[str, str]],
                                                 list[str]]:
    """-> ({property: {rule|key: description}}, fixed_lines)"""
    path = path or os.path.join(VERIF, 'KNOWN_FINDINGS.txt')
    known: dict[str, dict[str, str]] = {}
    fixed: list[str] = []
    if not os.path.exists(path):
        return known, fixed
    pat = re.compile(r'^known:\s+property=(C\d+)\s+rule=(\S+)\s+key=(.*?)\s+::'
                     r'\s+(.*)$')
    with open(path, encoding='utf-8') as fh:
        for line in fh:
            line = line.rstrip('\n')
            if line.startswith('fixed:'):
                fixed.append(line)
                continue
            m = pat.match(line)
            if m:
                prop, rule, key, desc = m.groups()
                known.setdefault(prop, {})[f'{rule}|{norm(key)}'] = desc
    return known, fixed


class Ctx:

    def __init__(self, prop: str, tier: str = 'quick',
                 root: str | None = None) -> None:
        self.prop = prop
        self.tier = tier
        self.t0 = time.time()
        self.proj = Project(root)
        self.rules: list[Rule] = []
        self.explanation = ''
        self.not_decided = ''
        self.notes: list[str] = []
        self.trusted: list[str] = [
            'CPython ast / re._parser', 'the CFG builder in sa/cfg.py',
            'hand-transcribed RFC tables in sa/tables.py']
        self.extra_coverage: dict = {}
        self._l3 = None

    # ------------------------------------------------------------------
    def rule(self, rid: str, title: str, minimum: int = 1,
             oracle: str = '') -> Rule:
        r = Rule(self, rid, title, minimum, oracle)
        self.rules.append(r)
        return r

    @property
    def l3(self):
        if self._l3 is None:
            from .l3 import load_l3
            self._l3 = load_l3(self.proj)
            self.trusted.append('mypy name/type resolution (library API)')
        return self._l3

    # ------------------------------------------------------------------
    def finish(self, *, write_evidence: bool = True) -> int:
        known_all, _fixed = load_known()
        known = known_all.get(self.prop, {})
        out_lines: list[str] = []
        violations: list[Instance] = []
        known_hit: list[tuple[Instance, str]] = []
        analysis_errors: list[str] = list(getattr(self, 'extra_errors', []))
        aborted = bool(analysis_errors)
        total = ok = undec = 0
        nontrivial: set[str] = set()
        for r in self.rules:
            n = len(r.instances)
            total += n
            if n < r.minimum and not aborted:
                analysis_errors.append(
                    f'rule {r.id} ({r.title}) discovered {n} instance(s), '
                    f'hand-confirmed minimum is {r.minimum}: the anchors '
                    f'moved and the rule would pass vacuously')
            for i in r.instances:
                if i.site.line:
                    nontrivial.add(i.fkey + '@' + i.site.rel)
                if i.verdict == 'ok':
                    ok += 1
                elif i.verdict == 'undecided':
                    undec += 1
                    # fail closed: a shape the rule does not recognise is
                    # neither a pass nor a violation
                    analysis_errors.append(
                        f'rule {i.rule} cannot decide "{i.key}" at '
                        f'{i.site}: {i.msg}')
                elif i.verdict == 'fail':
                    if i.fkey in known:
                        known_hit.append((i, known[i.fkey]))
                    else:
                        violations.append(i)
        rc = 0
        os.makedirs(os.path.join(VERIF, 'replay'), exist_ok=True)
        seen_known: set[str] = set()
        for i, desc in known_hit:
            if i.fkey in seen_known:
                continue
            seen_known.add(i.fkey)
            out_lines.append(f'KNOWN-FINDING: property={self.prop} '
                             f'rule={i.rule} {i.site} :: {desc}')
        seen_v: set[str] = set()
        for i in violations:
            if i.fkey in seen_v:
                continue
            seen_v.add(i.fkey)
            h = hashlib.sha1(i.fkey.encode()).hexdigest()[:10]
            rp = os.path.join(VERIF, 'replay', f'{self.prop}-{h}.json')
            with open(rp, 'w', encoding='utf-8') as fh:
                json.dump({'property': self.prop, 'rule': i.rule,
                           'key': i.key, 'site': str(i.site),
                           'message': i.msg, 'extra': i.extra,
                           'root': self.proj.root}, fh, indent=1)
            out_lines.append(f'VIOLATION property={self.prop} replay={rp}')
            out_lines.append(f'  {i.site} rule={i.rule} key="{i.key}" — '
                             f'{i.msg}')
            rc = 1
        if analysis_errors:
            for e in analysis_errors:
                out_lines.append(f'ANALYSIS-ERROR property={self.prop} {e}')
            rc = rc or 2
        if self.tier == 'thorough' and not os.environ.get('SA_NO_EVIDENCE'):
            try:
                errs = self._thorough_extras()
            except Exception as exc:         # never silently
                errs = [f'thorough extras failed: {exc!r}']
            for e in errs:
                out_lines.append(f'ANALYSIS-ERROR property={self.prop} {e}')
                analysis_errors.append(e)
                rc = rc or 2
        wall = time.time() - self.t0
        summary = (f'{self.prop} [{self.tier}] rules={len(self.rules)} '
                   f'instances={total} discharged={ok} undecided={undec} '
                   f'known={len(seen_known)} violations={len(seen_v)} '
                   f'modules={len(self.proj.consulted)} wall={wall:.2f}s')
        out_lines.append(summary)
        print('\n'.join(out_lines), flush=True)
        if write_evidence:
            self._write_evidence(total, ok, undec, len(seen_known),
                                 len(seen_v), len(nontrivial), wall,
                                 analysis_errors)
        return rc

    def _thorough_extras(self) -> list[str]:
        """(c) engine self-check: dominators vs removal-based brute force on
        every function of the consulted modules; (d) checker validation by
        program variants of the current tree (recorded, never changes the
        exit code)."""
        from .cfg import CFG
        errors: list[str] = []
        checked = mismatches = 0
        for rel in sorted(self.proj.consulted):
            m = self.proj.modules.get(rel)
            if m is None:
                continue
            for f in m.funcs.values():
                try:
                    cfg = CFG(f.node)
                except Exception as exc:
                    errors.append(f'CFG construction failed for {f.fq}: '
                                  f'{exc!r}')
                    continue
                live = cfg.live()
                branchy = sum(1 for n in live if len(n.succ) > 1)
                if branchy > 12 or len(live) > 120:
                    continue
                dom = cfg.dominators()
                checked += 1
                for n in live:
                    for d in live:
                        if d is n:
                            continue
                        brute = n not in (cfg.reach(
                            [cfg.entry], avoid=[d], labels=frozenset('ntfex'),
                            first_labels=frozenset('ntfex')) | {cfg.entry}) \
                            if d is not cfg.entry else True
                        if (d in dom[n]) != brute:
                            mismatches += 1
        if mismatches:
            errors.append(f'engine self-check: {mismatches} dominator '
                          f'disagreements with brute force')
        self.extra_coverage['engine_selfcheck'] = {
            'functions_checked': checked, 'disagreements': mismatches}
        # (d) variants
        from .selftest import load_variants, run_variant
        from concurrent.futures import ThreadPoolExecutor
        vs = [v for v in load_variants() if v['prop'] == self.prop]
        with ThreadPoolExecutor(int(os.environ.get('SA_JOBS', '16'))) as ex:
            res = list(ex.map(lambda v: run_variant(v, self.proj.root), vs))
        tally: dict[str, int] = {}
        for r in res:
            k = f"{r['expect']}:{r['status']}"
            tally[k] = tally.get(k, 0) + 1
        self.extra_coverage['variants'] = {
            'total': len(res), 'tally': tally,
            'failed': [r['id'] for r in res if r['status'] == 'FAIL'],
            'note': 'must-fire variants break one armed instance on a '
                    'scratch copy of the current tree; twins are '
                    'behaviour-preserving rewrites that must stay silent'}
        # (e) independently seeded breaking changes of this property
        # (seeded/<id>/patch.diff, written by sub-agents that saw only the
        # property text): each is applied to a scratch copy of the current
        # tree and must make this property's quick check fire
        import shutil
        import subprocess
        import tempfile
        sroot = os.path.join(VERIF, 'seeded')
        seeds = sorted(d for d in (os.listdir(sroot)
                                   if os.path.isdir(sroot) else [])
                       if d.startswith(self.prop + '-') and os.path.exists(
                           os.path.join(sroot, d, 'patch.diff')))

        def one(sid: str) -> dict:
            tmp = tempfile.mkdtemp(prefix='pymap-seed-')
            try:
                shutil.copytree(os.path.join(self.proj.root, 'pymap'),
                                os.path.join(tmp, 'pymap'),
                                ignore=shutil.ignore_patterns('__pycache__'))
                pr = subprocess.run(
                    ['patch', '-p1', '-s', '-i',
                     os.path.join(sroot, sid, 'patch.diff')], cwd=tmp,
                    capture_output=True, text=True)
                if pr.returncode != 0:
                    return {'id': sid, 'status': 'does-not-apply'}
                env = dict(os.environ, PYMAP_ROOT=tmp, SA_NO_EVIDENCE='1',
                           SA_NO_CACHE_WRITE='1', VERIF_TIER='quick')
                r = subprocess.run([os.path.join(VERIF, 'check'), self.prop],
                                   cwd=VERIF, env=env, capture_output=True,
                                   text=True, timeout=900)
                rules = sorted({w.split('=', 1)[1]
                                for line in r.stdout.splitlines()
                                if line.startswith('  ')
                                for w in line.split()
                                if w.startswith('rule=')})
                return {'id': sid, 'status': {0: 'MISSED', 1: 'caught'}.get(
                    r.returncode, 'undecided (exit 2)'), 'rules': rules}
            finally:
                shutil.rmtree(tmp, ignore_errors=True)
        with ThreadPoolExecutor(int(os.environ.get('SA_JOBS', '16'))) as ex:
            sres = list(ex.map(one, seeds))
        self.extra_coverage['seeded_changes'] = {
            'total': len(sres),
            'caught': sum(1 for r in sres if r['status'] == 'caught'),
            'results': sres,
            'note': 'regression figure: the rules were strengthened against '
                    'these changes after they arrived; what the checks said '
                    'BEFORE is in seeded/TABLE.md and DESIGN.md section 14'}
        for r in sres:
            if r['status'] != 'caught':
                errors.append(f"seeded change {r['id']} is no longer caught "
                              f"({r['status']})")
        # (f) independently written behaviour-preserving refactorings
        # (neutral/<id>/patch.diff): this property's check must stay silent
        # on every one of them, whichever property they were written for
        nroot = os.path.join(VERIF, 'neutral')
        nids = sorted(d for d in (os.listdir(nroot)
                                  if os.path.isdir(nroot) else [])
                      if os.path.exists(os.path.join(nroot, d, 'patch.diff')))

        def neutral(nid: str) -> dict:
            tmp = tempfile.mkdtemp(prefix='pymap-neutral-')
            try:
                shutil.copytree(os.path.join(self.proj.root, 'pymap'),
                                os.path.join(tmp, 'pymap'),
                                ignore=shutil.ignore_patterns('__pycache__'))
                pr = subprocess.run(
                    ['patch', '-p1', '-s', '-i',
                     os.path.join(nroot, nid, 'patch.diff')], cwd=tmp,
                    capture_output=True, text=True)
                if pr.returncode != 0:
                    return {'id': nid, 'status': 'does-not-apply'}
                env = dict(os.environ, PYMAP_ROOT=tmp, SA_NO_EVIDENCE='1',
                           SA_NO_CACHE_WRITE='1', VERIF_TIER='quick')
                r = subprocess.run([os.path.join(VERIF, 'check'), self.prop],
                                   cwd=VERIF, env=env, capture_output=True,
                                   text=True, timeout=900)
                return {'id': nid, 'status': {0: 'silent', 1: 'ALARM'}.get(
                    r.returncode, 'undecided (exit 2)')}
            finally:
                shutil.rmtree(tmp, ignore_errors=True)
        with ThreadPoolExecutor(int(os.environ.get('SA_JOBS', '16'))) as ex:
            nres = list(ex.map(neutral, nids))
        noisy = [r for r in nres if r['status'] not in ('silent',
                                                        'does-not-apply')]
        self.extra_coverage['neutral_refactorings'] = {
            'total': len(nres),
            'silent': sum(1 for r in nres if r['status'] == 'silent'),
            'not_applicable_any_more': [r['id'] for r in nres
                                        if r['status'] == 'does-not-apply'],
            'noisy': noisy,
            'note': 'behaviour-preserving refactorings written by '
                    'sub-agents that saw only a property text; regression '
                    'figure, see DESIGN.md section 15'}
        for r in noisy:
            errors.append(f"neutral refactoring {r['id']}: {r['status']}")
        return errors

    def _write_evidence(self, total, ok, undec, nknown, nviol, nontrivial,
                        wall, errors) -> None:
        samples = []
        per_rule = []
        for r in self.rules:
            cnt = {'ok': 0, 'fail': 0, 'undecided': 0}
            for i in r.instances:
                cnt[i.verdict] = cnt.get(i.verdict, 0) + 1
            per_rule.append({'rule': r.id, 'title': r.title,
                             'oracle': r.oracle,
                             'instances': len(r.instances),
                             'minimum': r.minimum, **cnt})
            for i in r.instances[:3]:
                samples.append({'rule': i.rule, 'site': str(i.site),
                                'obligation': i.key, 'verdict': i.verdict,
                                'detail': i.msg})
            for i in r.instances[3:]:
                if i.verdict != 'ok':
                    samples.append({'rule': i.rule, 'site': str(i.site),
                                    'obligation': i.key,
                                    'verdict': i.verdict, 'detail': i.msg})
        funcs = sorted({f'{i.site.rel}::{i.site.func}' for r in self.rules
                        for i in r.instances if i.site.func})
        ev = {
            'property_id': self.prop,
            'tier': self.tier,
            'seed': int(os.environ.get('VERIF_SEED', '0') or 0),
            'level': 'other',
            'coverage': {
                'explanation': self.explanation + (
                    ' NOT DECIDED: ' + self.not_decided
                    if self.not_decided else ''),
                'evaluations': total,
                'distinct_nontrivial': nontrivial,
                'rule': ('one evaluation = one rule instance discovered in '
                         '/repo\'s current source (a call site, statement, '
                         'path or table row) and decided by the named rule; '
                         'distinct = distinct (rule, construct key, file); '
                         'non-trivial = anchored at a real source line'),
                'obligations': total,
                'discharged': ok,
                'undecided': undec,
                'known_findings': nknown,
                'violations': nviol,
                'rules': per_rule,
                'samples': samples[:120],
                'functions_analysed': funcs,
                'modules_consulted': sorted(self.proj.consulted),
                'checker_cmd': f'./check {self.prop}'
                               + (' --thorough' if self.tier == 'thorough'
                                  else ''),
                'trusted_base': self.trusted,
                'source_root': self.proj.root,
                'source_digest': self.proj.digest(self.proj.consulted),
                'analysis_errors': errors,
                'notes': self.notes,
                'exhaustive': False,
                **self.extra_coverage,
            },
            'assumptions': self.trusted,
            'wall_s': round(wall, 3),
            'violations': nviol,
        }
        d = os.path.join(VERIF, 'evidence')
        os.makedirs(d, exist_ok=True)
        if os.environ.get('SA_NO_EVIDENCE'):
            return
        with open(os.path.join(d, f'{self.prop}.json'), 'w',
                  encoding='utf-8') as fh:
            json.dump(ev, fh, indent=1)

"""Hand-transcribed protocol tables (the oracles of family-G rules)."""

# RFC 3501 section 6 (+ RFC 2971 ID, RFC 2177 IDLE, RFC 4315 UID EXPUNGE,
# RFC 6851 MOVE): the connection state(s) in which each command is valid.
# Values name pymap's state base classes; a set = every admissible choice.
ANY, NONAUTH, AUTH, SELECT = ('CommandAny', 'CommandNonAuth', 'CommandAuth',
                              'CommandSelect')
IMAP_COMMAND_STATE: dict[bytes, set[str]] = {
    b'CAPABILITY': {ANY}, b'NOOP': {ANY}, b'LOGOUT': {ANY}, b'ID': {ANY},
    b'STARTTLS': {NONAUTH}, b'AUTHENTICATE': {NONAUTH}, b'LOGIN': {NONAUTH},
    b'SELECT': {AUTH}, b'EXAMINE': {AUTH}, b'CREATE': {AUTH},
    b'DELETE': {AUTH}, b'RENAME': {AUTH}, b'SUBSCRIBE': {AUTH},
    b'UNSUBSCRIBE': {AUTH}, b'LIST': {AUTH}, b'LSUB': {AUTH},
    b'STATUS': {AUTH}, b'APPEND': {AUTH},
    b'CHECK': {SELECT}, b'CLOSE': {SELECT}, b'EXPUNGE': {SELECT},
    b'SEARCH': {SELECT}, b'FETCH': {SELECT}, b'STORE': {SELECT},
    b'COPY': {SELECT}, b'MOVE': {SELECT}, b'UID': {SELECT},
    b'UID COPY': {SELECT}, b'UID MOVE': {SELECT}, b'UID EXPUNGE': {SELECT},
    b'UID FETCH': {SELECT}, b'UID SEARCH': {SELECT}, b'UID STORE': {SELECT},
    # RFC 2177: valid in authenticated or selected state; pymap's stricter
    # choice (selected only) is admissible
    b'IDLE': {AUTH, SELECT},
}

# gate the connection state machine must apply per state class:
# (field that must be tested, required truth of the field for REFUSAL)
GATE = {NONAUTH: ('_session', True),      # refused once a session exists
        AUTH: ('_session', False),        # refused while there is no session
        SELECT: ('_selected', False)}     # refused while nothing is selected

# RFC 3501 6.4.5 / RFC 3516: fetch attributes that implicitly set \Seen
# (attribute name, has-section) -> sets \Seen
SET_SEEN_TRUE = {b'BODY', b'BINARY', b'RFC822', b'RFC822.TEXT'}
SET_SEEN_FALSE = {b'BODY.PEEK', b'BINARY.PEEK', b'BINARY.SIZE',
                  b'RFC822.HEADER', b'RFC822.SIZE', b'ENVELOPE', b'FLAGS',
                  b'INTERNALDATE', b'UID', b'BODYSTRUCTURE', b'EMAILID',
                  b'THREADID'}

# RFC 3501 6.4.4 SEARCH keys: flag keys -> (flag, polarity)
SEARCH_FLAG_KEYS = {
    b'ANSWERED': ('Answered', True), b'UNANSWERED': ('Answered', False),
    b'DELETED': ('Deleted', True), b'UNDELETED': ('Deleted', False),
    b'DRAFT': ('Draft', True), b'UNDRAFT': ('Draft', False),
    b'FLAGGED': ('Flagged', True), b'UNFLAGGED': ('Flagged', False),
    b'SEEN': ('Seen', True), b'UNSEEN': ('Seen', False),
    b'RECENT': ('Recent', True), b'OLD': ('Recent', False),
}
SEARCH_DATE_OPS = {b'BEFORE': '<', b'ON': '=', b'SINCE': '>=',
                   b'SENTBEFORE': '<', b'SENTON': '=', b'SENTSINCE': '>='}
SEARCH_SIZE_OPS = {b'SMALLER': '<', b'LARGER': '>'}

# RFC 5804 section 2: ManageSieve commands valid before authentication
SIEVE_PREAUTH = {b'AUTHENTICATE', b'STARTTLS', b'LOGOUT', b'CAPABILITY',
                 b'NOOP'}

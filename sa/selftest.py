"""Checker validation both ways (DESIGN 3.5): program variants of the CURRENT
tree, each applied to a scratch copy that is removed at once.

A variant is an edit of one file (fragment -> replacement, the fragment must be
unique) plus the expectation: ``fire`` (the check must exit 1 and name the
rule) or ``silent`` (a behaviour-preserving twin: the check must exit 0).
A fragment that no longer occurs in the tree makes the variant ``skipped``,
never a failure.  Never changes the exit code of a registered check."""
from __future__ import annotations

import json
import os
import shutil
import subprocess
import sys
import tempfile
from concurrent.futures import ThreadPoolExecutor

VERIF = os.path.dirname(os.path.dirname(os.path.abspath(__file__)))


def load_variants() -> list[dict]:
    from .variants import VARIANTS
    return VARIANTS


def run_variant(v: dict, root: str) -> dict:
    src_pkg = os.path.join(root, 'pymap')
    edits = v.get('edits') or [(v['file'], v['old'], v['new'])]
    for rel, old, new in edits:
        p = os.path.join(root, rel)
        if not os.path.exists(p):
            return {**_id(v), 'status': 'skipped', 'why': f'{rel} missing'}
        s = open(p, encoding='utf-8').read()
        if s.count(old) != 1:
            return {**_id(v), 'status': 'skipped',
                    'why': f'fragment occurs {s.count(old)}x in {rel}'}
    tmp = tempfile.mkdtemp(prefix='pymap-sa-')
    try:
        shutil.copytree(src_pkg, os.path.join(tmp, 'pymap'),
                        ignore=shutil.ignore_patterns('__pycache__'))
        for rel, old, new in edits:
            p = os.path.join(tmp, rel)
            s = open(p, encoding='utf-8').read()
            s = s.replace(old, new)
            try:
                compile(s, p, 'exec')
            except SyntaxError as exc:
                return {**_id(v), 'status': 'broken-variant',
                        'why': f'does not compile: {exc}'}
            open(p, 'w', encoding='utf-8').write(s)
        env = dict(os.environ, PYMAP_ROOT=tmp, SA_NO_EVIDENCE='1',
                   VERIF_TIER='quick',
                   SA_NO_CACHE_WRITE='1')
        pr = subprocess.run([os.path.join(VERIF, 'check'), v['prop']],
                            cwd=VERIF, env=env, capture_output=True,
                            text=True, timeout=600)
        out = pr.stdout
        rules = sorted({w.split('=', 1)[1] for line in out.splitlines()
                        if line.startswith('  ') for w in line.split()
                        if w.startswith('rule=')})
        if v['expect'] == 'fire':
            good = pr.returncode == 1 and (
                not v.get('rule') or v['rule'] in rules)
        elif v['expect'] == 'undecided':
            # fails closed: the rule says it cannot decide this shape
            good = pr.returncode == 2 and 'cannot decide' in out
        else:
            good = pr.returncode == 0
        return {**_id(v), 'status': 'pass' if good else 'FAIL',
                'rc': pr.returncode, 'rules': rules,
                'out': out[-1500:] if not good else ''}
    finally:
        shutil.rmtree(tmp, ignore_errors=True)


def _id(v: dict) -> dict:
    return {'id': v['id'], 'prop': v['prop'], 'expect': v['expect'],
            'rule': v.get('rule', '')}


def main(args: list[str]) -> int:
    root = os.environ.get('PYMAP_ROOT', '/repo')
    vs = load_variants()
    sel = [a for a in args if not a.startswith('-')]
    if sel:
        vs = [v for v in vs if v['prop'] in sel or v['id'] in sel
              or v.get('rule') in sel]
    jobs = int(os.environ.get('SA_JOBS', '16'))
    with ThreadPoolExecutor(jobs) as ex:
        res = list(ex.map(lambda v: run_variant(v, root), vs))
    bad = 0
    tally: dict[str, int] = {}
    for r in res:
        tally[r['status']] = tally.get(r['status'], 0) + 1
        if r['status'] in ('FAIL', 'broken-variant'):
            bad += 1
            print(f"{r['status']:7} {r['id']} ({r['prop']} expect "
                  f"{r['expect']} {r['rule']}): rc={r.get('rc')} "
                  f"rules={r.get('rules')} {r.get('why', '')}")
            if r.get('out') and '-v' in args:
                print(r['out'])
        elif '-v' in args or r['status'] == 'skipped':
            print(f"{r['status']:7} {r['id']} {r.get('why', '')}")
    print('selftest:', json.dumps(tally), 'of', len(res))
    os.makedirs(os.path.join(VERIF, 'evidence'), exist_ok=True)
    if not sel and not os.environ.get('SA_NO_EVIDENCE'):
        with open(os.path.join(VERIF, 'evidence', 'selftest.json'), 'w') as fh:
            json.dump({'tally': tally, 'results': [
                {k: r[k] for k in ('id', 'prop', 'expect', 'rule', 'status')}
                for r in res]}, fh, indent=1)
    return 1 if bad else 0

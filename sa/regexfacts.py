"""Family L: facts about the language of a (bytes) regular expression, read
off ``re._parser``'s syntax tree — no matching is executed."""
from __future__ import annotations

import re
import re._parser as sp           # type: ignore[import]

ALL = frozenset(range(256))
_CAT = {
    'CATEGORY_DIGIT': frozenset(range(0x30, 0x3a)),
    'CATEGORY_SPACE': frozenset(b' \t\n\r\x0b\x0c'),
    'CATEGORY_WORD': frozenset(b'abcdefghijklmnopqrstuvwxyzABCDEFGHIJKLMNOPQRS'
                               b'TUVWXYZ0123456789_'),
}


def _cat(name: str) -> frozenset[int]:
    if name.startswith('CATEGORY_NOT_'):
        return ALL - _CAT['CATEGORY_' + name[len('CATEGORY_NOT_'):]]
    return _CAT.get(name, ALL)


def class_set(av) -> frozenset[int]:
    """Byte set of an IN node's items."""
    neg = False
    out: set[int] = set()
    for op, a in av:
        n = str(op)
        if n == 'NEGATE':
            neg = True
        elif n == 'LITERAL':
            out.add(a)
        elif n == 'RANGE':
            out |= set(range(a[0], a[1] + 1))
        elif n == 'CATEGORY':
            out |= _cat(str(a))
    return frozenset(ALL - out if neg else out)


def first_sets(pattern: bytes | str, flags: int = 0) -> list[frozenset[int]]:
    """For every position of a pattern that is a sequence of single-byte
    atoms (possibly repeated / grouped / alternated), the set of bytes that
    atom can consume.  Returns the list of all such sets found anywhere."""
    tree = sp.parse(pattern, flags)
    out: list[frozenset[int]] = []

    def walk(items):
        for op, av in items:
            n = str(op)
            if n == 'LITERAL':
                out.append(frozenset([av]))
            elif n == 'NOT_LITERAL':
                out.append(ALL - {av})
            elif n == 'ANY':
                out.append(ALL if flags & re.DOTALL else ALL - {10})
            elif n == 'IN':
                out.append(class_set(av))
            elif n in ('MAX_REPEAT', 'MIN_REPEAT', 'POSSESSIVE_REPEAT'):
                walk(list(av[2]))
            elif n == 'SUBPATTERN':
                walk(list(av[3]))
            elif n == 'BRANCH':
                for alt in av[1]:
                    walk(list(alt))
            elif n in ('ASSERT', 'ASSERT_NOT'):
                pass
    walk(list(tree))
    return out


def consumable(pattern: bytes | str, flags: int = 0) -> frozenset[int]:
    """Union of all bytes any atom of the pattern can consume: a byte outside
    this set can never be part of a match."""
    s: set[int] = set()
    for fs in first_sets(pattern, flags):
        s |= fs
    return frozenset(s)


def min_width(pattern: bytes | str, flags: int = 0) -> int:
    return sp.parse(pattern, flags).getwidth()[0]


def literal_alternatives(pattern: bytes | str) -> list[bytes]:
    """Top-level alternatives that are pure literals (b'a|bc' -> [a, bc])."""
    tree = sp.parse(pattern)
    out: list[bytes] = []

    def lit(items):
        bs = bytearray()
        for op, av in items:
            if str(op) == 'LITERAL':
                bs.append(av)
            else:
                return None
        return bytes(bs)

    def walk(items):
        for op, av in items:
            n = str(op)
            if n == 'BRANCH':
                for alt in av[1]:
                    v = lit(list(alt))
                    if v is not None:
                        out.append(v)
                    else:
                        walk(list(alt))
            elif n == 'SUBPATTERN':
                walk(list(av[3]))
            elif n == 'IN':
                for o, a in av:
                    if str(o) == 'LITERAL':
                        out.append(bytes([a]))
    walk(list(tree))
    v = lit(list(tree))
    if v:
        out.append(v)
    return out


def group_max_width(src, k: int):
    """Upper bound on the length of group k of the pattern (None when the
    group is not found; MAXREPEAT-sized when unbounded)."""
    import re._parser as sp
    import re._constants as sc
    tree = sp.parse(src)

    def find(t):
        for op, av in t:
            if op is sc.SUBPATTERN:
                if av[0] == k:
                    return av[3]
                r = find(av[3])
                if r is not None:
                    return r
            elif op in (sc.MAX_REPEAT, sc.MIN_REPEAT):
                r = find(av[2])
                if r is not None:
                    return r
            elif op is sc.BRANCH:
                for b in av[1]:
                    r = find(b)
                    if r is not None:
                        return r
        return None
    if k == 0:
        return tree.getwidth()[1]
    g = find(tree)
    if g is None:
        return None
    return g.getwidth()[1]


def total_on_lf_strings(src, flags: int = 0):
    """True when `re.match(src, s)` succeeds for EVERY byte string s that
    contains a line feed; False when some such s is rejected; None when the
    pattern is not of the one shape this decides:

        ^?  ( S*  |  S*? )   (\r?)?   \n

    with S a single character item.  Let k be the first LF of s: s[:k] has
    no LF, so it is matched by S* exactly when S contains every byte except
    LF; then `\r?` matches the empty string and `\n` matches s[k] (a greedy
    S* that also contains LF backtracks to the last LF instead)."""
    import re._parser as sp
    import re._constants as sc
    try:
        items = list(sp.parse(src, flags))
    except Exception:
        return None
    dotall = bool(flags & 16) or bool(sp.parse(src, flags).state.flags & 16)
    if items and items[0][0] is sc.AT and items[0][1] in (
            sc.AT_BEGINNING, sc.AT_BEGINNING_STRING):
        items = items[1:]
    if not items or items[-1] != (sc.LITERAL, 10):
        return None
    items = items[:-1]
    if items and items[-1][0] in (sc.MAX_REPEAT, sc.MIN_REPEAT):
        lo, hi, sub = items[-1][1]
        sub = list(sub)
        if (lo, hi) == (0, 1) and sub == [(sc.LITERAL, 13)]:
            items = items[:-1]
    if len(items) != 1:
        return None
    op, av = items[0]
    if op is sc.SUBPATTERN:
        inner = list(av[3])
        if len(inner) != 1:
            return None
        op, av = inner[0]
    if op not in (sc.MAX_REPEAT, sc.MIN_REPEAT):
        return None
    lo, hi, sub = av
    sub = list(sub)
    if lo != 0 or hi is not sc.MAXREPEAT or len(sub) != 1:
        return None
    cop, cav = sub[0]
    if cop is sc.ANY:
        chars = frozenset(range(256)) if dotall else \
            frozenset(range(256)) - {10}
    elif cop is sc.IN:
        chars = class_set(cav)
    elif cop is sc.NOT_LITERAL:
        chars = frozenset(range(256)) - {cav}
    elif cop is sc.LITERAL:
        chars = frozenset({cav})
    else:
        return None
    return chars >= frozenset(range(256)) - {10}


def quadratic_scan_witness(src, flags: int = 0):
    """For a pattern used with an UNANCHORED scan (search / finditer /
    findall / sub / split): a character c such that the pattern can start at
    c, then runs an unbounded repeat whose class also contains c, and then
    still needs something the run of c does not supply.  On the input c*n the
    engine starts a match at every position and each attempt scans to the end
    before failing: n*(n+1)/2 steps.  Returns c (an int / code point) or None
    (no such shape recognised: not a proof of linearity)."""
    import re._parser as sp
    import re._constants as sc
    try:
        items = list(sp.parse(src, flags))
    except Exception:
        return None
    if not items or (items[0][0] is sc.AT):
        return None                       # anchored
    def chars(op, av):
        if op is sc.LITERAL:
            return frozenset({av})
        if op is sc.NOT_LITERAL:
            return frozenset(range(256)) - {av}
        if op is sc.IN:
            return class_set(av)
        if op is sc.ANY:
            return frozenset(range(256)) - {10}
        return None
    first = chars(*items[0])
    if first is None:
        return None
    # skip further fixed-width single-character items
    i = 1
    while i < len(items) and items[i][0] in (sc.LITERAL, sc.IN,
                                             sc.NOT_LITERAL, sc.ANY):
        i += 1
    if i >= len(items) or items[i][0] not in (sc.MAX_REPEAT, sc.MIN_REPEAT):
        return None
    lo, hi, sub = items[i][1]
    sub = list(sub)
    if hi is not sc.MAXREPEAT or len(sub) != 1:
        return None
    rep = chars(*sub[0])
    if rep is None:
        return None
    rest = items[i + 1:]
    if not rest:
        return None                       # nothing required afterwards
    need = chars(*rest[0]) if rest[0][0] in (sc.LITERAL, sc.IN,
                                             sc.NOT_LITERAL, sc.ANY) else None
    for c in sorted(first & rep):
        if need is None or c not in need:
            return c
    return None

"""Family H: which exception classes can leave a function.

escapes(f) = explicit raises and table-driven may-raise primitives of f that
no enclosing handler of f catches, plus the escapes of every resolved callee
that the handlers around the call site do not catch (least fixpoint over the
name-resolved call graph).  KeyError/IndexError/TypeError/AttributeError from
subscripts and attribute access are NOT modelled (value invariants)."""
from __future__ import annotations

import ast
import builtins
from dataclasses import dataclass

from .cfg import walk_local
from .facts import (call_name, calls_in, is_name, kwarg, const_value,
                    enclosing, local_assigns, resolve_local, parents_map,
                    strip_await)
from .loader import Func, Project, txt
from . import regexfacts as rx

LENIENT = {'ignore', 'replace', 'surrogateescape', 'backslashreplace',
           'xmlcharrefreplace', 'namereplace'}
ASCII = frozenset(range(128))
DIGITS = frozenset(range(0x30, 0x3a))
INT_MAX_STR_DIGITS = 4300       # sys.get_int_max_str_digits() default


STD_CODECS = {'ascii', 'us-ascii', 'utf-8', 'utf8', 'latin-1', 'latin1',
              'iso-8859-1', 'utf-16', 'utf-16-be', 'utf-16-le', 'utf-7'}


def _uni(encoding: bool, enc) -> str:
    """str->bytes raises UnicodeEncodeError, bytes->str UnicodeDecodeError
    for the standard codecs; anything else (idna, client-chosen charset)
    only promises UnicodeError."""
    if isinstance(enc, str) and enc.lower() in STD_CODECS or enc is None:
        return 'UnicodeEncodeError' if encoding else 'UnicodeDecodeError'
    return 'UnicodeError'


def handler_names(f, type_node) -> list[str]:
    """Class names an `except <type_node>` clause of function f catches.  A
    bare name bound at module level (or in the class) to a tuple of classes
    -- `_disconnect_errors = (ConnectionError, EOFError)` -- stands for its
    members."""
    if type_node is None:
        return ['BaseException']
    out = []
    for e in (type_node.elts if isinstance(type_node, ast.Tuple)
              else [type_node]):
        if isinstance(e, ast.Name):
            v = None
            try:
                v = f.module.module_assigns().get(e.id)
            except Exception:
                v = None
            if isinstance(v, ast.Tuple):
                out += handler_names(f, v)
                continue
        if isinstance(e, ast.Attribute) and isinstance(e.value, ast.Name) \
                and e.value.id in ('self', 'cls') and f.cls is not None:
            pa = f.cls.find_attr(e.attr)
            if pa and isinstance(pa[1], ast.Tuple):
                out += handler_names(f, pa[1])
                continue
        out.append(txt(e).split('.')[-1])
    return out


@dataclass(frozen=True)
class Esc:
    exc: str
    origin: str        # rel::qualname
    line: int
    what: str

    def key(self) -> str:
        return f'{self.origin}: {self.what} -> {self.exc}'


class Escapes:

    def __init__(self, proj: Project, cg) -> None:
        self.proj = proj
        self.cg = cg
        self._sites: dict[int, list] = {}
        self._pm: dict[int, dict] = {}
        self.memo: dict[int, frozenset[Esc]] = {}
        self.safe_notes: list[str] = []

    # -- class hierarchy -------------------------------------------------
    def mro_names(self, mod, name: str) -> list[str]:
        b = getattr(builtins, name, None)
        if isinstance(b, type) and issubclass(b, BaseException):
            return [k.__name__ for k in b.__mro__]
        if name == 'Error':          # binascii.Error
            return ['Error', 'ValueError', 'Exception', 'BaseException']
        c = self.proj.resolve_class(mod, name) if mod is not None else None
        if c is None:
            for m in self.proj.modules.values():
                if name in m.classes:
                    c = m.classes[name]
                    break
        if c is None:
            return [name, 'Exception', 'BaseException']
        out = []
        for k in c.mro():
            out.append(k.name)
            for bn in k.base_names:
                if self.proj.resolve_class(k.module, bn) is None:
                    for x in self.mro_names(None, bn):
                        if x not in out:
                            out.append(x)
        if 'BaseException' not in out:
            out += ['Exception', 'BaseException']
        return out

    def is_sub(self, mod, exc: str, base: str) -> bool:
        return base in self.mro_names(mod, exc)

    # -- handler context ---------------------------------------------------
    def handlers_around(self, f: Func, node: ast.AST) -> list[list[str]]:
        """Type names of the handlers of every try whose BODY contains node
        (innermost first)."""
        k = id(f.node)
        if k not in self._pm:
            self._pm[k] = parents_map(f.node)
        pm = self._pm[k]
        out = []
        cur = node
        while id(cur) in pm:
            par = pm[id(cur)]
            if isinstance(par, ast.Try) and any(cur is s for s in par.body):
                hs = []
                for h in par.handlers:
                    hs += handler_names(f, h.type)
                out.append(hs)
            cur = par
        return out

    def caught(self, f: Func, node: ast.AST, exc: str) -> bool:
        return any(self.is_sub(f.module, exc, h)
                   for hs in self.handlers_around(f, node) for h in hs)

    # -- provenance recognisers --------------------------------------------
    def _group_set(self, f: Func, e: ast.AST):
        """If e is M.group(k) of a class-level compiled pattern, the byte set
        that group can contain (else None)."""
        e = strip_await(e)
        if not (isinstance(e, ast.Call) and call_name(e) == 'group'
                and isinstance(e.func, ast.Attribute)):
            return None
        mvar = e.func.value
        pats = []
        for v in resolve_local(f, mvar):
            if isinstance(v, ast.Call) and call_name(v) in ('match', 'search',
                                                            'fullmatch'):
                p = v.func.value
                if isinstance(p, ast.Attribute) and f.cls is not None:
                    a = f.cls.find_attr(p.attr)
                    if a is not None and isinstance(a[1], ast.Call) and \
                            a[1].args:
                        ok, src = const_value(a[1].args[0])
                        if ok:
                            pats.append(src)
        if not pats:
            # `for match in pattern.finditer(...)`
            return None
        try:
            sets = [rx.consumable(p) for p in pats]
        except Exception:
            return None
        out = frozenset().union(*sets)
        return out

    def _group_width(self, f: Func, e: ast.AST):
        """Upper bound on the length of M.group(k) (None = unknown)."""
        e = strip_await(e)
        if not (isinstance(e, ast.Call) and call_name(e) == 'group'
                and isinstance(e.func, ast.Attribute)):
            return None
        okk, k = const_value(e.args[0]) if e.args else (True, 0)
        if not okk or not isinstance(k, int):
            return None
        widths = []
        for v in resolve_local(f, e.func.value):
            if isinstance(v, ast.Call) and call_name(v) in ('match', 'search',
                                                            'fullmatch'):
                p = v.func.value
                if isinstance(p, ast.Attribute) and f.cls is not None:
                    a = f.cls.find_attr(p.attr)
                    if a is not None and isinstance(a[1], ast.Call) and \
                            a[1].args:
                        ok, src = const_value(a[1].args[0])
                        if ok:
                            try:
                                widths.append(rx.group_max_width(src, k))
                            except Exception:
                                return None
        if not widths or any(w is None for w in widths):
            return None
        return max(widths)

    def prim_sites(self, f: Func):
        out = []
        for c in calls_in(f.node):
            nm = call_name(c)
            fn = c.func

            def sarg(i, kw=None):
                a = c.args[i] if len(c.args) > i else (kwarg(c, kw)
                                                       if kw else None)
                ok, v = const_value(a)
                return v if ok else (None if a is None else '<expr>')
            if isinstance(fn, ast.Attribute) and nm in ('decode', 'encode'):
                if self.cg.resolve(f, c):
                    continue         # a project method that happens to be
                    #                  called decode/encode, not a codec call
                rv = strip_await(fn.value)
                if isinstance(rv, ast.Call) and self.cg.resolve(f, rv):
                    continue         # method of a project object
                if isinstance(rv, ast.Call) and call_name(rv) in (
                        'b64encode', 'hexlify', 'b32encode',
                        'urlsafe_b64encode'):
                    continue         # ASCII by construction
                errs = sarg(1, 'errors')
                if errs in LENIENT:
                    continue
                enc = sarg(0, 'encoding')
                gs = self._group_set(f, fn.value)
                if nm == 'decode' and gs is not None and gs <= ASCII and \
                        (enc is None or str(enc).lower() in (
                            'ascii', 'utf-8', 'utf8', 'us-ascii', 'latin-1')):
                    continue
                if nm == 'encode' and isinstance(fn.value, ast.Constant):
                    continue
                if nm == 'decode' and str(enc).lower() in ('latin-1',
                                                          'latin1',
                                                          'iso-8859-1'):
                    continue
                out.append((_uni(nm == 'encode', enc), c, f'.{nm}({enc!r})'))
            elif isinstance(fn, ast.Name) and nm in ('str', 'bytes') and \
                    len(c.args) >= 2:
                errs = sarg(2, 'errors')
                if errs in LENIENT:
                    continue
                enc = sarg(1, 'encoding')
                gs = self._group_set(f, c.args[0])
                if nm == 'str' and gs is not None and gs <= ASCII:
                    continue
                if nm == 'bytes' and isinstance(c.args[0], ast.Constant):
                    continue
                if nm == 'str' and str(enc).lower() in ('latin-1', 'latin1'):
                    continue
                out.append((_uni(nm == 'bytes', enc), c,
                            f'{nm}(x, {enc!r})'))
            elif isinstance(fn, ast.Name) and nm in ('int', 'float') and \
                    len(c.args) >= 1:
                a = c.args[0]
                if isinstance(a, ast.Constant):
                    continue
                gs = self._group_set(f, a)
                if nm == 'int' and gs is not None and gs <= DIGITS:
                    # digits only -- but CPython refuses to convert more
                    # than sys.get_int_max_str_digits() (4300) of them
                    w = self._group_width(f, a)
                    if w is not None and w <= INT_MAX_STR_DIGITS:
                        continue
                    out.append(('ValueError', c,
                                'int(<unbounded digit run>)'))
                    continue
                # int(<int-typed arithmetic>) is not a conversion from text
                if isinstance(a, (ast.BinOp, ast.Attribute)) and \
                        not isinstance(a, ast.Call):
                    if isinstance(a, ast.BinOp):
                        continue
                out.append(('ValueError', c, f'{nm}(…)'))
            elif nm in ('strptime', 'b64decode', 'fromhex', 'b32decode',
                        'a2b_base64', 'a2b_qp', 'fromisoformat',
                        'parsedate_to_datetime'):
                out.append(('ValueError', c, nm))
            elif nm == 'zip' and const_value(kwarg(c, 'strict')) == (True,
                                                                     True):
                out.append(('ValueError', c, 'zip(strict=True)'))
            elif isinstance(fn, ast.Name) and nm == 'next' and \
                    len(c.args) == 1:
                out.append(('StopIteration', c, 'next() without default'))
        return out

    def raise_sites(self, f: Func):
        out = []
        for r in walk_local(f.node):
            if not isinstance(r, ast.Raise):
                continue
            if r.exc is None:
                # bare re-raise: the handler's classes
                hs = [h for h in enclosing(f.node, r, (ast.ExceptHandler,))]
                if hs:
                    h = hs[0]
                    names = ['BaseException'] if h.type is None else (
                        [txt(e).split('.')[-1] for e in h.type.elts]
                        if isinstance(h.type, ast.Tuple)
                        else [txt(h.type).split('.')[-1]])
                    for n in names:
                        out.append((n, r, 're-raise'))
                continue
            e = r.exc.func if isinstance(r.exc, ast.Call) else r.exc
            name = txt(e).split('.')[-1]
            hs = [h for h in enclosing(f.node, r, (ast.ExceptHandler,))
                  if h.name == name]
            if hs:
                h = hs[0]
                names = ['BaseException'] if h.type is None else (
                    [txt(x).split('.')[-1] for x in h.type.elts]
                    if isinstance(h.type, ast.Tuple)
                    else [txt(h.type).split('.')[-1]])
                for n in names:
                    out.append((n, r, f're-raise {name}'))
                continue
            if name[:1].islower() and not name.endswith('Error'):
                # raise <local variable>: class unknown statically
                vals = resolve_local(f, e)
                got = False
                for v in vals:
                    vv = v.func if isinstance(v, ast.Call) else v
                    nm2 = txt(vv).split('.')[-1]
                    if nm2[:1].isupper():
                        out.append((nm2, r, f'raise {name}'))
                        got = True
                if not got:
                    out.append(('Exception', r, f'raise {txt(e)}'))
                continue
            out.append((name, r, f'raise {name}'))
        return out

    # -- the fixpoint --------------------------------------------------------
    def local(self, f: Func) -> list[Esc]:
        k = id(f.node)
        if k not in self._sites:
            out = []
            for exc, node, what in self.raise_sites(f) + self.prim_sites(f):
                if not self.caught(f, node, exc):
                    out.append(Esc(exc, f.fq, getattr(node, 'lineno', 0),
                                   what))
            self._sites[k] = out
        return self._sites[k]

    def solve(self, funcs: list[Func]) -> None:
        for f in funcs:
            self.memo[id(f.node)] = frozenset(self.local(f))
        changed = True
        rounds = 0
        while changed and rounds < 50:
            changed = False
            rounds += 1
            for f in funcs:
                cur = set(self.memo[id(f.node)])
                for call, callees in self.cg.edges(f):
                    for g in callees:
                        for e in self.memo.get(id(g.node), ()):
                            if e not in cur and \
                                    not self.caught(f, call, e.exc):
                                cur.add(e)
                if len(cur) != len(self.memo[id(f.node)]):
                    self.memo[id(f.node)] = frozenset(cur)
                    changed = True
        self.rounds = rounds

    def of(self, f: Func) -> frozenset[Esc]:
        return self.memo.get(id(f.node), frozenset())
